#!/bin/sh
# usage: ./sweep_ids.sh <tier> <seed> <ID>...
tier=$1; seed=$2; shift; shift
./check --setup > /dev/null 2>&1 || { echo "setup failed"; exit 2; }
for id in "$@"; do
  start=$(date +%s)
  out=$(VERIF_SEED=$seed timeout 14400 ./check $id --tier $tier 2>&1); rc=$?
  echo "seed=$seed $id tier=$tier rc=$rc wall=$(( $(date +%s) - start ))s :: $(echo "$out" | tail -1 | cut -c1-160)"
  echo "$out" | grep '^VIOLATION' | cut -c1-220
done
