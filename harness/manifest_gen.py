"""Regenerates MANIFEST.json from the table below (run by hand: /venv/bin/python -m harness.manifest_gen)."""
import json
import os

ROOT = os.path.dirname(os.path.dirname(os.path.abspath(__file__)))

TRUST = ("Trusted: Lean 4.33 kernel (axioms ⊆ propext, Classical.choice, Quot.sound; audited every run); the translator "
         "harness/extract.py; the correspondence check (generators, canonicaliser, diff); ")

CLAIMS = {
    "C01": dict(
        technique="Lean 4 proof (clause-by-clause theorems about the specification Spec.resolve; Fn::Sub scanner round-trip and token-exactness by induction) + differential correspondence",
        text="Spec.resolve is a pure compositional function of (parameters, mappings, conditions, expression), structurally recursive over JSON. "
             "Theorems state each clause of the property for all environments and expressions: the dispatch table regenerated from the live "
             "FUNCTION_MAPPINGS, scalar rendering, the three placeholder texts, Select out of range, compositionality through lists and "
             "objects, and for Fn::Sub that the scanner partitions the text (C01_sub_roundtrip), recovers exactly the tokens of any text built "
             "from plain characters, ${name} and ${!literal} (C01_sub_tokens_exact), substitutes each once without rescanning (C01_sub_once), "
             "local map first, unbound verbatim, escapes literal. The driver runs this specification against pycfmodel.resolver.resolve on "
             "type-directed random expressions over all sixteen functions.",
        note=TRUST + "typed fragment only (ill-typed expressions are not compared); ASCII placeholder names; Fn::GetAtt/GetAZs values unconstrained; FindInMap leaves as stored."),
    "C02": dict(
        technique="Lean 4 proof (condition table by name with cycle-set semantics proved independent of declaration order; If / NoValue / presence clauses) + differential correspondence and permutation oracle",
        text="Template.condTable evaluates each condition from its definition and the values of the non-cyclic declared conditions it "
             "references, looked up by name; C02_order proves (for all definition lists, acyclic or cyclic) that any permutation of the "
             "declarations gives the same value to every condition; C02_reference_false that undeclared and cyclic references are invisible "
             "(read false); C02_presence, C02_if, C02_novalue_list/obj, C02_and_or/not/equals state the remaining clauses (Fn::Equals as Python equality: C02_equals_text, C02_equals_objects_example), C02_condition_name_kept that the resolved resource keeps the condition's name as written. The driver runs "
             "Template.resolveT against CFModel.resolve (observing what it hands to re-validation) and every template is re-run with its "
             "Conditions permuted. Props/C02Termination proves that the two step bounds of the model never decide a result: "
             "C02_search_complete / C02_cycle_recognised (the bounded visited-set search finds every reachable node, by a potential "
             "argument), C02_chain_nodup (no condition repeats along visible references), C02_terminates (the value under the model's bound "
             "is the value under every larger bound: the recursion depth is at most the number of conditions), C02_fuel_monotone.",
        note=TRUST + "input is the parsed model's dump; Props/C02Termination imports Batteries.Data.List.Perm (pigeonhole on duplicate-free lists), nothing else outside core."),
    "C04": dict(
        technique="Lean 4 proof (reference value by cases, binding precedence by lookup lemmas, NoEcho noninterference, SSM key recogniser, credential predicate) + exhaustive declaration table + differential correspondence",
        text="Template.refValue / bind transliterate Parameter.get_ref_value and the {pseudo, declared, extra} merge. Proved for all "
             "declarations and supplied values: precedence (C04_precedence, C04_bind_declared, C04_bind_undeclared), list splitting, "
             "totality on scalar values (C04_total, incl. value-less list parameters), the three markers (C04_noecho_markers) and that the "
             "whole binding is independent of the supplied value of a NoEcho parameter (C04_noninterference, _bind), SSM lookup (C04_ssm), and "
             "has_hardcoded_credentials false iff every credential field is absent or the marker (C04_credentials_iff). The Type × Default × "
             "NoEcho × supplied table is enumerated completely on every run; templates, secret search and two-secret comparison on the implementation.",
        note=TRUST + "scalar values and defaults; the Default of a NoEcho parameter stays in the Parameters declaration (scope decision)."),
    "C07": dict(
        technique="Lean 4 proof (resolution reads the environment only through lookups by name; each resource resolved from its own definition) + metamorphic oracle on the implementation + differential correspondence",
        text="resolve_ext (mutual induction over JSON) shows Spec.resolve depends on parameters, mappings and conditions only through lookups "
             "by name, so permuting those sections (unique names) changes nothing (C07_sections_perm, C07_env_by_name); C07_resource_local / "
             "C07_resources_perm show a resource's resolved form is determined by its own definition whatever other resources are present "
             "and in whatever order; condition position is C02_order. The implementation is run on each template and five variants "
             "(permuted resources / sections / object keys, restriction, extension with shadowing Fn::Sub variables).",
        note=TRUST + "'adding unused parameters/mappings/conditions' and key order inside nested objects are decided by the metamorphic oracle and the correspondence, not by a theorem."),
    "C08": dict(
        technique="Lean 4 proof (matcher = glob language, by induction) + differential correspondence with the implementation",
        text="Glob.gmatch is proved equal to the inductive glob language for all patterns and strings (C08_sound_complete) with "
             "literalness of every non-wildcard code point (C08_literal); the model is tied to the code by running both on every BMP "
             "code point as a literal, on random metacharacter-rich patterns and through all public routes (regex_from_cf_string, "
             "build_evaluator Like/NotLike, StatementCondition call, _expand_action).",
        note=TRUST + "Python's re engine on escaped text (exercised by the literal sweep); single-line text; case folding modelled for ASCII only."),
    "C09": dict(
        technique="Lean 4 proof (set laws generic in the catalogue; API algorithms refine the specification; kernel-checked facts of the regenerated catalogue) + differential correspondence",
        text="Membership, partition, union and sortedness laws are proved for every catalogue and pattern list; the module-, statement- and "
             "policy-level algorithms as written are modelled and proved equal to the specification (C09_apis_agree_*); the shipped catalogue "
             "is regenerated from the live module on every run and its sortedness, case-insensitive uniqueness and service:Name form are "
             "checked by the Lean kernel chunk by chunk (decide +kernel, no axioms) and glued by a once-proved lemma. Correspondence runs all "
             "four APIs against the specification.",
        note=TRUST + "glob matching as in C08; unresolved function objects under Action are outside the property."),
    "C10": dict(
        technique="Lean 4 proof (frame relation by mutual induction over JSON; idempotence from catalogue facts) + differential correspondence",
        text="Expand.walk (transliteration of action_expander.expand_actions) is proved to change only Action/NotAction members holding action "
             "text (C10_frame), to keep object-valued and mixed Action values (C10_object_action_kept, C10_mixed_action_kept), to be total, and "
             "Action expansion is proved idempotent on the shipped catalogue (C10_idem_action_shipped). Correspondence: plain trees through "
             "expand_actions and whole templates through CFModel.expand_actions(), with class preservation and second-application checks.",
        note=TRUST + "pydantic's dump/validate round trip inside CFModel.expand_actions is exercised, not modelled (see C15); NotAction is not claimed idempotent."),
}

CLAIMS["C11"] = dict(
    technique="Lean 4 proof (one theorem per operator family stating the comparison; interval containment for IpAddress; negation duality) + differential correspondence on boundary operand pairs",
    text="IamCond.evalBase transliterates build_evaluator over typed values (text with supplied case fold, integers, instants with awareness, "
         "networks, bytes, booleans, None, lists). Proved for all operands: Equals/NotEquals are Python equality and its negation, the four "
         "orderings with the equal-operands boundary explicit, IgnoreCase on the folded forms, Like = the glob matcher of C08 (case-sensitive), "
         "Bool identity, Null presence, IpAddress ↔ containment of address ranges (C11_ip_containment), and every negated operator is the negation "
         "of its positive counterpart (C11_negation_dual; for NotIpAddress on network-valued policies, the excluded point proved separately). "
         "Correspondence: each of the 27 base operators on operand pairs generated at boundaries, the duality re-checked on the implementation.",
    note=TRUST + "Python's ==, <, casefold/NFKD, ipaddress.subnet_of on the typed values (exercised every run); policy values as parsed by the library.")
CLAIMS["C12"] = dict(
    technique="Lean 4 proof (lazy all/any with exception propagation; block true iff every key of every operator passes; key independence; qualifier and value-list clauses) + differential correspondence + conjunction-of-parts oracle",
    text="IamCond.call transliterates build_root_evaluator / build_key_evaluator / build_eval / __call__ with Python's left-to-right short-circuit and "
         "exception propagation made explicit (R = true | false | raised). Proved for all blocks and contexts: C12_true_iff, C12_false, C12_none, "
         "C12_never_raises, C12_key_independent (a key's test reads only that key's context value), alternatives for positive operators and joint "
         "exclusion for negated ones, ForAllValues / ForAnyValue / IfExists, colon normalisation, and that the 159 regenerated field names parse to "
         "the 27 base operators. Correspondence on random blocks (1–3 operators × 1–3 keys × 1–3 values, qualifiers) with contexts generated "
         "relative to the block; on the implementation alone the block must equal the conjunction of its single-key parts.",
    note=TRUST + "operator evaluation order = field declaration order regenerated from the live class (it decides False vs None when one part fails and another raises).")

CLAIMS["C16"] = dict(
    technique="Lean 4 proof (effect normalisation ↔ case-insensitive allow/deny by character lemmas; principal enumeration complete over an inductive description of all shapes; Allow-only and whitelist filters) + differential correspondence",
    text="Policy.normEffect / principalList / nonWhitelisted / nonWhitelistedAllowed transliterate the Effect validator and the principal queries "
         "on dumped statements. Proved for all strings and statements: an Effect is accepted iff it lower-cases to allow/deny and is stored "
         "capitalised (C16_effect); p is enumerated iff it is Named by the Principal or NotPrincipal element (string, list member, or string / "
         "list member under one of the four regenerated keys) (C16_principals); the whitelist filter is exact (C16_whitelist); the policy-level "
         "queries count exactly the Allow statements (C16_allow_only). Correspondence on random documents of mixed effects, shapes and whitelists.",
    note=TRUST + "ASCII letter case; resolved statements (string principals). Allowed-action queries are C09.")
CLAIMS["C17"] = dict(
    technique="Lean 4 proof (dotted-quad and prefix spellings by complete kernel enumeration of 256 octets / 33 lengths lifted by split lemmas; masking arithmetic; slash-zero ↔ whole space; RDS predicate) + differential correspondence over all prefix lengths and spellings",
    text="Net.parse4 / parse6 transliterate what ipaddress accepts (strict=False). Proved: every dotted quad of octets 0–255 parses to its 32-bit "
         "value (C17_parse_quad, from a kernel-checked enumeration of all 256 octet texts); for every prefix length 0–32 the decimal, "
         "zero-padded, dotted-netmask and dotted-hostmask spellings denote that length (C17_prefix_spellings, complete enumeration); hence "
         "address/prefix text is stored as the masked network (C17_parse4, C17_masked); slash-zero ⇔ prefix 0 ⇔ the whole address space, "
         "false when absent (C17_slash_zero, C17_absent_false); RDS is_public iff no CIDR and no source group, or 0.0.0.0/0, or outside every "
         "private range of the regenerated interpreter table and the shared range (C17_rds_public, C17_private_not_public). Correspondence: all "
         "33 / 129 prefix lengths × boundary addresses × spellings and malformed texts through five routes, and through a resolved Ref.",
    note=TRUST + "Python's ipaddress module decides what a text denotes (exercised on every length and spelling); IPv6 parsing is modelled and compared but its spelling relation is not proved (partial); scope ids not generated.")

CLAIMS["C13"] = dict(
    technique="Lean 4 proof (collector over the typed value tree: returned paths ⇔ an inductive 'document sits at this path' relation, pairwise distinct, by mutual induction) + planted-document oracle on raw JSON + differential correspondence",
    text="Discover.collectP transliterates obtain_policy_documents over the typed tree (PolicyDocument, Policy, named document, list, generic object, other). "
         "Proved for all trees: a (path, document) is returned iff the document sits at that path (C13_complete: nothing missed at any depth, nothing "
         "returned that is not a document node), names are the wrapper's PolicyName (C13_named), and no two returned documents share a path "
         "(C13_once), all_statement_conditions = the Condition blocks of the returned documents (C13_conditions). The harness sends the typed tree of "
         "each parsed resource and, independently, plants documents with unique Sids at random raw-JSON paths (objects, lists, JSON-string "
         "encoding, wrappers) of generic and modelled resources and requires them back exactly once.",
    note=TRUST + "the generic casting from raw JSON to the typed tree is exercised (planted documents), not modelled here (see C18); one known finding (D21) is listed in known_findings.json.")
CLAIMS["C18"] = dict(
    technique="Lean 4 proof (control flow of the generic cast over a parameterised engine: sound engine ⇒ cast denotes its input, by mutual induction and fuel induction over JSON-in-text nesting) + per-leaf faithfulness predicates evaluated on every observed conversion + differential correspondence",
    text="Cast.cast transliterates _Auxiliar.cast / Generic.casting (union order, JSON decoding of text, element-wise lists, object members) over an "
         "Engine recording what json.loads and each pydantic leaf validator answer. C18_preserves: for every engine whose leaf answers are faithful "
         "(decidable text predicates: true/false literals, integer text, ISO dates and timestamps, CIDR text), every JSON value and every nesting of "
         "JSON text, the cast value denotes the input (inductive Denotes relation); C18_scalars_kept, C18_shape, C18_bool_only_literals, "
         "C18_timestamp_needs_shape, C18_timestamp_keeps_zone, C18_timestamp_zone_agrees. Each run sends the engine table for every reachable string, compares the cast structurally and evaluates "
         "faithfulness of every conversion the engine made.",
    note=TRUST + "pydantic-core leaf validators and json.loads are the engine (parameter of the theorem, checked leaf by leaf); lax but numerically faithful integer spellings are accepted; one known finding (D30b).")

CLAIMS["C14"] = dict(
    technique="Lean 4 proof (dispatch over the regenerated discriminated union; kernel-checked facts of the live class table; shallow forbid/required rules; filter exactness) + differential correspondence on valid and damaged definitions of all 18 types",
    text="Dispatch.dispatch models AllResourcesType (tagged union on the literal Type, then left-to-right fallback to GenericResource guarded by "
         "check_type) over the class table regenerated from the live classes. Proved: a modelled Type in strict mode yields its dedicated class "
         "or a rejection, never a generic resource (C14_exact); the fallback exists only with strict off (C14_non_strict); the live table has 18 "
         "classes with distinct literals, discriminator Type, left-to-right order, extra=forbid on every class and Properties class, strict by "
         "default (C14_table, decided by the kernel on every regeneration); unknown members and missing required properties fail the shallow "
         "rules (C14_strict_errors); resources_filtered_by_type is an exact filter by class-or-base or Type text (C14_filter). Correspondence: a "
         "valid definition of each type and three damages each, other type strings, strict on/off; class preservation through resolve and expand_actions.",
    note=TRUST + "pydantic-core's verdict on whether a definition satisfies a class in depth is a parameter of the model (supplied per case, and required to imply the shallow rules).")
CLAIMS["C19"] = dict(
    technique="Lean 4 proof (every custom validator, over all JSON values, lets only ValueError escape; witnesses for the two guards) + differential correspondence at each validator site + sandboxed malformed-template stream",
    text="Validators.* transliterate the library's custom validators (check_type, validate_binary, FunctionDict check, Generic.casting, remove_colon, "
         "Effect, SemiStrictBool, loose networks) on arbitrary JSON. C19_exception_class: for every JSON value each returns or raises ValueError "
         "(which pydantic reports as its validation error); C19_guards_needed proves by witness that without the isinstance / broader except "
         "guards a TypeError escapes. Each site is called directly on values of every JSON kind and compared; whole malformed templates "
         "(one hostile value at a random place of a valid template, hostile whole-template values, nesting to 3000 levels, 200k-member "
         "containers, long texts) go through pycfmodel.parse in a worker under RLIMIT_AS and a wall clock: only a model or ValidationError is admissible.",
    note=TRUST + "partial: stack depth, memory, wall time and process termination are runtime behaviour, exercised by the sandbox, not proved; pydantic-core's own rejection paths are trusted.")

CLAIMS["C03"] = dict(
    technique="Lean 4 proof (closure of resolution under a predicate: no function object remains at any depth; idempotence on stable values) + direct oracles and second-pass correspondence on the implementation",
    text="Lemmas/ResolveClosed proves, by mutual structural induction over the resolver model, that any predicate closed under the "
         "sixteen functions' outputs holds of every resolved value; C03_concrete instantiates it with NoFn (no single-member object named "
         "like a function anywhere), under the stated hypotheses that parameter values and mapping leaves contain no function objects "
         "and plain objects have no function-named key. C03_idem proves resolve v = v for every stable value (text in normal form, no "
         "AWS::NoValue members), C03_text_stable characterises normal-form text, C03_fixpoint lifts it to the second pass. The check walks "
         "the resolved pydantic object graph for FunctionDict instances / function-shaped dicts, requires every condition to be a bool, "
         "requires resolve(resolve(m)) == resolve(m), and runs the model on the dump of the resolved resources (must be returned unchanged).",
    note=TRUST + "partial: idempotence is proved for stable values only; text assembled by a function or fetched from SSM that is itself an SSM reference or a differently-cased boolean word is a recorded known finding (not a fixed point in the code either).")

CLAIMS["C15"] = dict(
    technique="Lean 4 proof (generic casting re-applied to its own dump; leaf validators accept their own output) + round-trip oracle on the implementation over every stage and field type",
    text="Cast.dump is what model_dump() returns for a cast generic value. C15_cast_roundtrip: for every JSON value j, "
         "cast (dump (cast j)) = cast j, by strong induction on the size of the cast (every cast value is round-trippable: string "
         "leaves are their own cast, generic objects stay generic, models and function objects are recognised again), over any "
         "engine meeting three stated laws (an empty object is no property model; a non-model object stays one once its members "
         "are cast; the fuel sufficed) which the driver evaluates on every case. C15_quoted_json_needed_repair and "
         "C15_binary_guard_needed prove by witness that the two repaired defects (D32, D12) broke the round trip; C15_bool_roundtrip, "
         "C15_binary_roundtrip, C15_colon_roundtrip: each custom leaf validator returns its own dump unchanged. The check round-trips "
         "every model from parse / resolve / expand_actions over six generators comparing the class of every model and the type of "
         "every leaf, and compares the implementation's second cast, base64 decoding, semi-strict bool and colon removal with the models.",
    note=TRUST + "partial: the typed resource models are validated by pydantic-core, which is trusted; their round trip is checked on the implementation only.")

CLAIMS["C05"] = dict(
    technique="Lean 4 proof (typing judgement for template expressions; progress + preservation: well-typed expressions and resource tables resolve) + sandboxed full pipeline on generated whole templates with a size-derived time budget and a magnified variant",
    text="WT env e τ types template expressions (text, text lists, condition values, plain data) over all sixteen functions; "
         "C05_resolve_progress proves by mutual induction on the derivation that every well-typed expression resolves (the model's "
         "`none`, i.e. every raise site of the resolver, is unreachable) to a value of its type; C05_resources_progress lifts it to the "
         "resource table, C05_conditions_progress (with the termination lemmas of C02) to the condition table, and C05_template_progress to "
         "Template.resolveT: parameters bind, conditions and resources well typed ⇒ the template resolves; C05_network_kept / C05_binary_kept state that typed leaves (a CIDR range of any width, decoded bytes) are handed "
         "over in one step by the generic casting and the resolver (the sites of D13 and D11). The check runs whole templates over nine "
         "construct families (and a /0-magnified variant of each) through parse, resolve, expand_actions, every query on the three "
         "models and re-validation inside a worker under RLIMIT_AS with a wall clock computed from the size of the template only; "
         "in scope = Template.resolveT is defined on the parsed template.",
    note=TRUST + "partial: wall time, peak memory and process termination are runtime behaviour, measured in the sandbox against a size-derived budget, not proved; "
                 "the typing judgement covers both forms of Fn::Sub; pydantic-core's validation of typed models is trusted.")

CLAIMS["C06"] = dict(
    technique="Lean 4 proof over a table of write sites regenerated from the source on every run (translator) + histories of API calls on shared objects with deep snapshots (correspondence), thread stress as testing",
    text="harness/effects.py extracts every mutating statement of pycfmodel/**/*.py with the kind of object it writes through "
         "(created by the function itself / a parameter / the receiver / class- or module-level) and, for functions writing through a "
         "parameter, what each caller passes there; Generated/Effects.lean holds the table. C06_sites (decide +kernel on the table): every "
         "write lands on an object the call created or on the evaluator cache. C06_frame / C06_repeatable / C06_interleave: hence any "
         "sequence of steps of any calls, in any interleaving, leaves arguments, receiver and library-level state unchanged and every call "
         "returns what it returns first thing; C06_cache_invisible: the lazily built evaluator never changes a result; C06_pop_breaks: the "
         "repaired extra_params.pop is judged observable. The check runs random histories over shared templates / extra_params / contexts / "
         "receivers with type-sensitive deep snapshots before and after every call, compares each result with the same call made first "
         "thing in an equal fresh world, and requires new result objects.",
    note=TRUST + "partial: the extraction is syntactic (aliases it can not follow are judged shared, so a harmless rewrite can re-open the proof); "
                 "writes made inside pydantic-core or the standard library are not extracted and are covered by the snapshots only; real thread "
                 "scheduling is exercised by the stress run (testing), the theorem covers interleavings of the model's steps.")

for _k in os.environ.get("VERIF_UNCLAIMED", "").split(","):
    CLAIMS.pop(_k, None)  # in progress: not claimed until its theorems exist

DESIGN_REF = {k: f"DESIGN.md §5 {k}" for k in CLAIMS}


def main():
    ids = [json.loads(line)["id"] for line in open(os.path.join(ROOT, "properties.jsonl"))]
    checks = []
    for pid in ids:
        if pid not in CLAIMS:
            continue
        c = CLAIMS[pid]
        checks.append({
            "property_id": pid,
            "quick_cmd": f"./check {pid} --tier quick",
            "thorough_cmd": f"./check {pid} --tier thorough",
            "evidence_file": f"evidence/{pid}.json",
            "replay_cmd_template": f"./check {pid} --replay {{path}}",
            "engine": "lean-proof+correspondence",
            "technique": c["technique"],
            "level_claimed": {"category": "proof", "text": c["text"], "design_ref": DESIGN_REF[pid]},
            "level_note": c["note"],
        })
    manifest = {
        "version": 1,
        "setup_cmd": "./check --setup",
        "hooks": {
            "guard": "SKYSCANNER_PYCFMODEL_VERIF",
            "enable": "no hooks are needed: every observation point is a public return value or an object the harness already holds; the harness sets the variable but nothing in /repo reads it",
            "baseline_off_cmd": "cd /repo && /venv/bin/python -m pytest -ra -q -p no:cacheprovider --timeout=900 --continue-on-collection-errors",
            "source_commits": [],
            "add_only": True,
        },
        "engines": [{
            "name": "lean-proof+correspondence", "path": "check", "serves_properties": [c["property_id"] for c in checks],
            "kind_free_text": "Lean 4 theorems about a hand-written model (lean/PycfModel), tables regenerated from the live classes and the source text on every run (harness/extract.py, harness/effects.py), differential correspondence between the compiled model driver and the implementation (harness/props/*.py)",
        }],
        "checks": checks,
        "notes": "Repairs of genuine defects are unguarded 'fix:' commits in /repo, listed in known_findings.json.",
        "not_applicable": [
            {"property_id": i, "reason": "not yet built in this round (planned: DESIGN.md §11); not a claim that the technique cannot apply"}
            for i in ids if i not in CLAIMS
        ],
    }
    with open(os.path.join(ROOT, "MANIFEST.json"), "w") as f:
        json.dump(manifest, f, indent=1, ensure_ascii=False)
    print("claimed:", [c["property_id"] for c in checks])


if __name__ == "__main__":
    main()
