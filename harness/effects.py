"""Translator for C06: the write sites of the library's source (every statement that mutates an object it did not
just create) and, for every function that writes through one of its parameters, what its callers pass there.
Purely syntactic (python `ast` over /repo/pycfmodel/**/*.py, the generated action catalogue excluded); the result
is rendered as lean/PycfModel/Generated/Effects.lean and judged by `World.effectsOK` (theorem C06_sites).

kind of the object written through a name:
  fresh   — every binding of the name in the function is a literal / comprehension / copying call (dict(), list(),
            sorted(), model_dump(), copy()...), or a parameter rebound to such a value unconditionally before the write
  param   — a parameter of the function (the caller's object)
  self    — the receiver
  cls / global / unknown — class-level, module-level, or an alias the analysis can not follow (judged as shared)
"""
import ast
import os

from . import common

MUTATORS = {"pop", "popitem", "update", "clear", "append", "extend", "insert", "remove", "sort", "reverse", "setdefault", "add", "discard",
            "difference_update", "intersection_update", "symmetric_difference_update", "__setitem__", "__delitem__", "appendleft", "popleft"}
FRESH_CALLS = {"dict", "list", "set", "sorted", "tuple", "frozenset", "deepcopy", "copy", "defaultdict", "OrderedDict"}
FRESH_METHODS = {"model_dump", "copy", "dict", "split", "model_copy"}  # not items()/values(): their elements are the container's


def root_of(e):
    while isinstance(e, (ast.Attribute, ast.Subscript, ast.Starred)):
        e = e.value
    if isinstance(e, ast.Call):
        return root_of(e.func) if isinstance(e.func, ast.Attribute) else None
    return e.id if isinstance(e, ast.Name) else None


def is_fresh(e):
    if isinstance(e, (ast.Dict, ast.List, ast.Set, ast.ListComp, ast.DictComp, ast.SetComp, ast.Constant, ast.JoinedStr, ast.Tuple, ast.GeneratorExp)):
        return True
    if isinstance(e, ast.IfExp):
        return is_fresh(e.body) and is_fresh(e.orelse)
    if isinstance(e, ast.BoolOp):
        return all(is_fresh(v) for v in e.values)
    if isinstance(e, ast.Call):
        f = e.func
        if isinstance(f, ast.Name) and f.id in FRESH_CALLS:
            return True
        if isinstance(f, ast.Attribute) and f.attr in FRESH_METHODS:
            return True
    return False


class Fn:
    def __init__(self, node, qual, modnames):
        self.node, self.qual, self.modnames = node, qual, modnames
        a = node.args
        self.params = [x.arg for x in a.posonlyargs + a.args + a.kwonlyargs] + ([a.vararg.arg] if a.vararg else []) + ([a.kwarg.arg] if a.kwarg else [])
        self.positional = [x.arg for x in a.posonlyargs + a.args]
        self.assigns = {}
        for n in ast.walk(node):
            if isinstance(n, ast.Assign):
                for t in n.targets:
                    for x in (t.elts if isinstance(t, ast.Tuple) else [t]):
                        if isinstance(x, ast.Name):
                            self.assigns.setdefault(x.id, []).append(n.value if not isinstance(t, ast.Tuple) else ast.Name(id="<unpacked>"))
            elif isinstance(n, ast.AnnAssign) and isinstance(n.target, ast.Name) and n.value is not None:
                self.assigns.setdefault(n.target.id, []).append(n.value)
            elif isinstance(n, (ast.For, ast.comprehension)):
                for x in ast.walk(n.target):
                    if isinstance(x, ast.Name):
                        self.assigns.setdefault(x.id, []).append(n.iter)
            elif isinstance(n, (ast.FunctionDef, ast.Lambda)) and n is not node:
                for x in n.args.args:
                    self.assigns.setdefault(x.arg, []).append(ast.Name(id="<nested-parameter>"))
            elif isinstance(n, ast.withitem) and n.optional_vars is not None:
                for x in ast.walk(n.optional_vars):
                    if isinstance(x, ast.Name):
                        self.assigns.setdefault(x.id, []).append(n.context_expr)

    def origin(self, r, line, depth=0):
        """(kind, name the object is ultimately reached through)"""
        if r is None:
            return ("unknown", "<expression>")
        if r == "self":
            return ("self", r)
        if r == "cls":
            return ("cls", r)
        if r in self.params:
            for st in self.node.body:
                if isinstance(st, ast.Assign) and len(st.targets) == 1 and isinstance(st.targets[0], ast.Name) and st.targets[0].id == r and st.lineno < line:
                    return ("fresh" if is_fresh(st.value) else "param", r)
            return ("param", r)
        if r in self.assigns:
            if all(is_fresh(v) for v in self.assigns[r]):
                return ("fresh", r)
            if depth >= 4:
                return ("unknown", r)
            ks = set()
            for v in self.assigns[r]:
                if is_fresh(v):
                    continue
                rr = root_of(v)
                ks.add(self.origin(rr, line, depth + 1) if rr and rr != r else ("unknown", r))
            if not ks:
                return ("fresh", r)
            return ks.pop() if len(ks) == 1 else ("unknown", r)
        if r in self.modnames:
            return ("global", r)
        return ("unknown", r)

    def kind(self, r, line):
        return self.origin(r, line)[0]


def scan_file(path, mod):
    tree = ast.parse(open(path).read())
    modnames = set()
    for n in tree.body:
        if isinstance(n, (ast.Assign, ast.AnnAssign)):
            for t in (n.targets if isinstance(n, ast.Assign) else [n.target]):
                if isinstance(t, ast.Name):
                    modnames.add(t.id)
        elif isinstance(n, (ast.Import, ast.ImportFrom)):
            for a in n.names:
                modnames.add((a.asname or a.name).split(".")[0])
        elif isinstance(n, (ast.FunctionDef, ast.ClassDef)):
            modnames.add(n.name)
    fns = []

    def walk(body, prefix):
        for n in body:
            if isinstance(n, (ast.FunctionDef, ast.AsyncFunctionDef)):
                fns.append(Fn(n, prefix + n.name, modnames))
            elif isinstance(n, ast.ClassDef):
                walk(n.body, prefix + n.name + ".")

    walk(tree.body, mod + ".")
    return fns


def sites_of(fn):
    out = []
    # a memoising decorator keeps results in a store that outlives the call (module-level state keyed by the arguments)
    for d in getattr(fn.node, "decorator_list", []):
        name = d.func if isinstance(d, ast.Call) else d
        text = name.attr if isinstance(name, ast.Attribute) else getattr(name, "id", "")
        if "cache" in text.lower() or "memo" in text.lower():
            out.append((fn.qual, "global", "<memo of " + fn.qual.rsplit(".", 1)[1] + ">", "decorator:" + text, fn.node.lineno))

    def rec(r, op, node):
        if r is None:
            return
        k, name = fn.origin(r, node.lineno)
        out.append((fn.qual, k, name, op, node.lineno))

    for n in ast.walk(fn.node):
        if isinstance(n, ast.Call) and isinstance(n.func, ast.Attribute) and n.func.attr in MUTATORS:
            rec(root_of(n.func.value), n.func.attr, n)
        elif isinstance(n, ast.AugAssign) and isinstance(n.target, ast.Name):
            # `x += …` on a list / set / dict changes the object in place: a write through whatever `x` is bound to
            rec(n.target.id, "augmented-assignment", n)
        elif isinstance(n, (ast.Assign, ast.AugAssign, ast.AnnAssign)):
            ts = n.targets if isinstance(n, ast.Assign) else [n.target]
            for t in ts:
                for x in (t.elts if isinstance(t, ast.Tuple) else [t]):
                    if isinstance(x, ast.Subscript):
                        rec(root_of(x), "setitem", n)
                    elif isinstance(x, ast.Attribute):
                        rec(root_of(x), "setattr:" + x.attr, n)
        elif isinstance(n, ast.Delete):
            for t in n.targets:
                if isinstance(t, (ast.Subscript, ast.Attribute)):
                    rec(root_of(t), "del", n)
        elif isinstance(n, (ast.Global, ast.Nonlocal)):
            for name in n.names:
                out.append((fn.qual, "global", name, "rebind", n.lineno))
    return out


def extract(repo=None):
    """(sites, flows): sites = (function, kind, root name, operation, line) for every write;
    flows = (callee, parameter, caller, kind of the argument, root name of the argument) for every call of a function that
    writes through that parameter"""
    repo = repo or common.REPO
    base = os.path.join(repo, "pycfmodel")
    fns = []
    for dp, dn, files in sorted(os.walk(base)):
        dn.sort()
        for f in sorted(files):
            if f.endswith(".py") and f != "cloudformation_actions.py":
                p = os.path.join(dp, f)
                fns += scan_file(p, os.path.relpath(p, repo)[:-3].replace("/", "."))
    sites = []
    for fn in fns:
        sites += sites_of(fn)
    writers = {}  # short function name -> [(qualified name, parameter, positional index or None)]
    by_qual = {fn.qual: fn for fn in fns}
    for q, k, r, op, line in sites:
        if k == "param":
            fn = by_qual[q]
            idx = fn.positional.index(r) if r in fn.positional else None
            is_method = bool(fn.positional) and fn.positional[0] in ("self", "cls")
            if idx is not None and is_method:
                idx -= 1
            entry = (q, r, idx)
            short = q.rsplit(".", 1)[1]
            if entry not in writers.setdefault(short, []):
                writers[short].append(entry)
    flows = []
    for fn in fns:
        for n in ast.walk(fn.node):
            if not isinstance(n, ast.Call):
                continue
            name = n.func.id if isinstance(n.func, ast.Name) else n.func.attr if isinstance(n.func, ast.Attribute) else None
            for q, p, idx in writers.get(name, []):
                arg = None
                for kw in n.keywords:
                    if kw.arg == p:
                        arg = kw.value
                if arg is None and idx is not None and idx < len(n.args):
                    arg = n.args[idx]
                if arg is None:
                    continue
                if is_fresh(arg):
                    flows.append((q, p, fn.qual, "fresh", "<expression>"))
                else:
                    k, name = fn.origin(root_of(arg), n.lineno)
                    flows.append((q, p, fn.qual, k, name))
    return sites, sorted(set(flows))


def render():
    from .extract import HEADER, lstr

    sites, flows = extract()
    # line numbers are left out of the table so that moving code does not re-open the proof; they are kept in the evidence
    rows = sorted({(q, k, r, op) for q, k, r, op, _ in sites if k != "fresh"})
    lines = [HEADER, "import PycfModel.Model.World", "namespace PycfModel.Generated", "open PycfModel.World", "",
             f"/-- number of write statements found in the source: {len(sites)}; those below are the ones whose object is not provably created by the function itself -/",
             f"def freshWriteCount : Nat := {sum(1 for s in sites if s[1] == 'fresh')}", "",
             "def writeSites : List Site := ["]
    lines.append(",\n".join(f"  ⟨{lstr(q)}, {lstr(k)}, {lstr(r)}, {lstr(op)}⟩" for q, k, r, op in rows) + "]")
    lines += ["", "def argFlows : List Flow := ["]
    lines.append(",\n".join(f"  ⟨{lstr(a)}, {lstr(b)}, {lstr(c)}, {lstr(d)}, {lstr(e)}⟩" for a, b, c, d, e in flows) + "]")
    lines += ["", "end PycfModel.Generated", ""]
    return "\n".join(lines)


if __name__ == "__main__":
    s, f = extract()
    for x in s:
        if x[1] != "fresh":
            print("site", x)
    for x in f:
        print("flow", x)
