"""Seeded-change bookkeeping: confirm a sub-agent's change in a scratch worktree, keep it under
/verif/seeded/<id>/, run the registered checks against it (applied to /repo, undone straight afterwards).

  python -m harness.seeded keep <src_dir> <PROP> [--checks C01,C07]
  python -m harness.seeded run <id> [--checks ...] [--tier quick]
"""
import argparse
import json
import os
import shutil
import subprocess
import sys
import time

ROOT = os.path.dirname(os.path.dirname(os.path.abspath(__file__)))
SEEDED = os.path.join(ROOT, "seeded")
REPO = "/repo"
SCRATCH = "/tmp/seeded-scratch"
PY = "/venv/bin/python"
TEST_CMD = [PY, "-m", "pytest", "-q", "-p", "no:cacheprovider", "-x", "--deselect", "tests/test_constants.py::test_cloudformation_actions"]


def sh(cmd, cwd=None, env=None, timeout=1200):
    p = subprocess.run(cmd, cwd=cwd, env=env, stdout=subprocess.PIPE, stderr=subprocess.STDOUT, timeout=timeout)
    return p.returncode, p.stdout.decode(errors="replace")


def confirm(src):
    """patch applies to the current HEAD, suite passes with it, demo fails with it and passes without"""
    if os.path.exists(SCRATCH):
        sh(["git", "-C", REPO, "worktree", "remove", "--force", SCRATCH])
        shutil.rmtree(SCRATCH, ignore_errors=True)
    rc, out = sh(["git", "-C", REPO, "worktree", "add", "--detach", SCRATCH, "HEAD"])
    if rc != 0:
        return {"ok": False, "why": "worktree: " + out[-300:]}
    res = {}
    try:
        env = dict(os.environ, PYTHONPATH=SCRATCH)
        demo = os.path.join(src, "demo.py")
        rc0, out0 = sh([PY, demo], cwd=SCRATCH, env=env, timeout=600)
        res["demo_without"] = rc0
        rc, out = sh(["git", "apply", os.path.join(src, "patch.diff")], cwd=SCRATCH)
        if rc != 0:
            return {"ok": False, "why": "patch does not apply: " + out[-300:]}
        rc1, out1 = sh([PY, demo], cwd=SCRATCH, env=env, timeout=600)
        res["demo_with"] = rc1
        res["demo_output_with"] = out1[-400:]
        rct, outt = sh(TEST_CMD, cwd=SCRATCH, env=env, timeout=1800)
        res["tests_rc"] = rct
        res["tests_tail"] = outt.strip().splitlines()[-1] if outt.strip() else ""
        rci, outi = sh([PY, "-c", "import pycfmodel; print(pycfmodel.__file__)"], cwd=SCRATCH, env=env)
        res["imports_from_scratch"] = SCRATCH in outi
        res["ok"] = rc0 == 0 and rc1 != 0 and rct == 0 and res["imports_from_scratch"]
        if not res["ok"]:
            res["why"] = "demo/tests did not behave as required"
        return res
    finally:
        sh(["git", "-C", REPO, "worktree", "remove", "--force", SCRATCH])
        shutil.rmtree(SCRATCH, ignore_errors=True)


def run_checks(sid, checks, tier="quick", seed=None):
    d = os.path.join(SEEDED, sid)
    rc, out = sh(["git", "-C", REPO, "status", "--porcelain"])
    if out.strip():
        raise SystemExit("/repo has uncommitted changes; refusing to apply a seeded change")
    rc, out = sh(["git", "-C", REPO, "apply", os.path.join(d, "patch.diff")])
    if rc != 0:
        return {"applied": False, "why": out[-300:]}
    results = {}
    try:
        for c in checks:
            env = dict(os.environ)
            if seed is not None:
                env["VERIF_SEED"] = str(seed)
            t0 = time.time()
            rc, out = sh([os.path.join(ROOT, "check"), c, "--tier", tier], cwd=ROOT, env=env, timeout=3600)
            lines = [line for line in out.splitlines() if line.startswith("VIOLATION")]
            results[c] = {"exit": rc, "violations": [line[:300] for line in lines][:6], "wall_s": round(time.time() - t0, 1)}
    finally:
        sh(["git", "-C", REPO, "checkout", "--", "."])
        # extract regenerates tables on the next check run; make sure generated tables are back to the clean tree
        sh([PY, "-m", "harness.extract"], cwd=ROOT)
    return {"applied": True, "checks": results, "caught_by": [c for c, r in results.items() if r["exit"] == 1]}


def main():
    ap = argparse.ArgumentParser()
    sub = ap.add_subparsers(dest="cmd", required=True)
    k = sub.add_parser("keep")
    k.add_argument("src")
    k.add_argument("prop")
    k.add_argument("--checks")
    k.add_argument("--needs", default="")
    r = sub.add_parser("run")
    r.add_argument("id")
    r.add_argument("--checks")
    r.add_argument("--tier", default="quick")
    r.add_argument("--seed")
    a = ap.parse_args()
    if a.cmd == "keep":
        src = a.src.rstrip("/")
        name = os.path.basename(src)
        sid = f"{a.prop}-{name}"
        conf = confirm(src)
        print(json.dumps(conf, indent=1))
        if not conf.get("ok"):
            print("NOT KEPT")
            return 1
        d = os.path.join(SEEDED, sid)
        os.makedirs(d, exist_ok=True)
        for f in ("patch.diff", "demo.py", "notes.md"):
            if os.path.exists(os.path.join(src, f)):
                shutil.copy(os.path.join(src, f), os.path.join(d, f))
        meta = {
            "id": sid,
            "breaks_property": a.prop,
            "needs_to_manifest": a.needs or open(os.path.join(d, "notes.md")).read()[:600] if os.path.exists(os.path.join(d, "notes.md")) else "",
            "origin": "independent sub-agent given only the property text and a scratch worktree",
            "confirmed": {k2: conf[k2] for k2 in ("demo_without", "demo_with", "tests_rc", "tests_tail", "imports_from_scratch")},
            "confirmed_how": "scratch worktree of /repo HEAD: demo.py exits 0 without the patch and non-zero with it; pytest (network test deselected) passes with it",
            "repo_head": sh(["git", "-C", REPO, "rev-parse", "--short", "HEAD"])[1].strip(),
        }
        checks = (a.checks or a.prop).split(",")
        meta["checks_run"] = run_checks(sid, checks)
        with open(os.path.join(d, "meta.json"), "w") as f:
            json.dump(meta, f, indent=1)
        print(json.dumps(meta["checks_run"], indent=1))
        return 0
    if a.cmd == "run":
        checks = (a.checks or a.id.split("-")[0]).split(",")
        out = run_checks(a.id, checks, a.tier, a.seed)
        print(json.dumps(out, indent=1))
        p = os.path.join(SEEDED, a.id, "meta.json")
        if os.path.exists(p):
            meta = json.load(open(p))
            meta.setdefault("reruns", []).append({"tier": a.tier, "seed": a.seed, "result": out})
            meta["checks_run"] = out if a.tier == "quick" else meta.get("checks_run")
            json.dump(meta, open(p, "w"), indent=1)
        return 0


if __name__ == "__main__":
    sys.exit(main())
