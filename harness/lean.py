"""Lean side of every check: regenerate tables, build, audit axioms."""
import fcntl
import os
import re
import subprocess
import time

from . import common, extract

LOCK = os.path.join(common.LEAN_DIR, ".verif-build.lock")
PROPS_DIR = os.path.join(common.LEAN_DIR, "PycfModel", "Props")
ALLOWED_AXIOMS = {"propext", "Classical.choice", "Quot.sound"}
FORBIDDEN = re.compile(r"\b(sorry|admit|native_decide|bv_decide|implemented_by|unsafe)\b|^\s*axiom\s|maxHeartbeats\s+0\b")


class BuildResult:
    def __init__(self):
        self.ok = True
        self.errors = []  # (file, line, message)
        self.regenerated = []
        self.wall = 0.0
        self.log = ""


def _lake(args, timeout):
    env = dict(os.environ)
    p = subprocess.run(
        ["lake"] + args, cwd=common.LEAN_DIR, stdout=subprocess.PIPE, stderr=subprocess.STDOUT, timeout=timeout, env=env
    )
    return p.returncode, p.stdout.decode(errors="replace")


def prepare(targets, timeout=3000) -> BuildResult:
    """extract + `lake build <targets>` under a file lock. Build errors are returned, not raised."""
    res = BuildResult()
    t0 = time.time()
    os.makedirs(common.LEAN_DIR, exist_ok=True)
    with open(LOCK, "w") as lock:
        fcntl.flock(lock, fcntl.LOCK_EX)
        try:
            res.regenerated = extract.run()
        except Exception as e:  # the live objects no longer have the shape the translator reads
            res.ok = False
            res.errors.append(("harness/extract.py", 0, f"translator failed: {type(e).__name__}: {e}"))
            res.wall = time.time() - t0
            return res
        try:
            rc, out = _lake(["build"] + list(targets), timeout)
        except subprocess.TimeoutExpired:
            raise common.InfraError("lake build timed out")
        except FileNotFoundError:
            raise common.InfraError("lake not found on PATH")
    res.log = out
    res.wall = time.time() - t0
    if rc != 0:
        res.ok = False
        for m in re.finditer(r"^error: (\S+?\.lean):(\d+):(\d+): (.*)$", out, re.M):
            res.errors.append((m.group(1), int(m.group(2)), m.group(4)))
        if not res.errors:
            res.errors.append(("lake", 0, out[-600:]))
    return res


def theorem_at(file_rel, line):
    """Name of the declaration enclosing `line` of a Lean source file (nearest preceding theorem/def)."""
    path = os.path.join(common.LEAN_DIR, file_rel)
    name = None
    try:
        with open(path) as f:
            for n, text in enumerate(f, 1):
                m = re.match(r"\s*(?:private\s+|protected\s+)?(?:theorem|lemma|def|example|instance)\s+([\w.']+)?", text)
                if m and n <= line:
                    name = m.group(1) or "example"
                if n > line:
                    break
    except OSError:
        pass
    return name


def property_theorems(prop):
    """(namespace-qualified names) of the property theorems declared in Props/<prop>.lean."""
    names = []
    for path in prop_files(prop):
        names += _theorems_in(path, prop)
    return names


def prop_files(prop):
    return sorted(
        os.path.join(PROPS_DIR, f) for f in os.listdir(PROPS_DIR) if re.fullmatch(prop + r"[A-Za-z]*\.lean", f)
    )


def prop_modules(prop):
    return ["PycfModel.Props." + os.path.basename(p)[:-5] for p in prop_files(prop)]


def _theorems_in(path, prop):
    names = []
    ns = []
    with open(path) as f:
        for text in f:
            m = re.match(r"namespace\s+([\w.]+)", text)
            if m:
                ns.append(m.group(1))
                continue
            m = re.match(r"end\s+([\w.]+)", text)
            if m and ns and ns[-1] == m.group(1):
                ns.pop()
                continue
            m = re.match(r"theorem\s+(" + prop + r"_[\w']+)", text)
            if m:
                names.append(".".join(ns + [m.group(1)]))
    return names


def forbidden_tokens():
    """Occurrences of sorry/admit/axiom/native_decide/… in the Lean sources, comments stripped."""
    hits = []
    base = os.path.join(common.LEAN_DIR, "PycfModel")
    for dp, dn, fn in os.walk(base):
        for f in fn:
            if not f.endswith(".lean"):
                continue
            p = os.path.join(dp, f)
            with open(p) as fh:
                src = fh.read()
            src = re.sub(r"/-.*?-/", lambda m: "\n" * m.group(0).count("\n"), src, flags=re.S)
            for n, line in enumerate(src.split("\n"), 1):
                line = line.split("--")[0]
                line = re.sub(r'"(?:[^"\\]|\\.)*"', '""', line)
                if FORBIDDEN.search(line):
                    hits.append(f"{os.path.relpath(p, common.LEAN_DIR)}:{n}: {line.strip()[:80]}")
    return hits


def audit(prop, timeout=600):
    """`#print axioms` for every property theorem of `prop`. Returns dict name -> list of axioms (or None if missing)."""
    names = property_theorems(prop)
    os.makedirs(os.path.join(common.LEAN_DIR, ".audit"), exist_ok=True)
    path = os.path.join(common.LEAN_DIR, ".audit", f"Audit_{prop}.lean")
    with open(path, "w") as f:
        for mod in prop_modules(prop):
            f.write(f"import {mod}\n")
        for n in names:
            f.write(f"#print axioms {n}\n")
    try:
        rc, out = _lake(["env", "lean", path], timeout)
    except subprocess.TimeoutExpired:
        raise common.InfraError("axiom audit timed out")
    result = {n: None for n in names}
    for m in re.finditer(r"'([\w.']+)' depends on axioms: \[([^\]]*)\]", out, re.S):
        result[m.group(1)] = [a.strip() for a in m.group(2).replace("\n", " ").split(",") if a.strip()]
    for m in re.finditer(r"'([\w.']+)' does not depend on any axioms", out):
        result[m.group(1)] = []
    return result, out


def check_proofs(report, prop, extra_targets=()):
    """Build + audit for one property. Returns (build_ok, driver_ok). Fills report.proof.
    Broken obligations are recorded in report.extra['broken_obligations'] for the caller, which
    runs the failing-input search before anything is reported."""
    targets = prop_modules(prop) + list(extra_targets)
    res = prepare(targets)
    broken = []
    if not res.ok:
        for file_rel, line, msg in res.errors:
            broken.append({"file": file_rel, "line": line, "declaration": theorem_at(file_rel, line), "message": msg[:300]})
    dres = prepare(["pycf_driver"])
    driver_ok = dres.ok and os.path.exists(common.DRIVER)
    if not dres.ok:
        for file_rel, line, msg in dres.errors:
            broken.append({"file": file_rel, "line": line, "declaration": theorem_at(file_rel, line), "message": msg[:300]})
    names = property_theorems(prop)
    if not names:
        broken.append({"file": f"PycfModel/Props/{prop}.lean", "line": 0, "declaration": None, "message": "no property theorems found for this property"})
    discharged = 0
    axioms_seen = set()
    audit_rows = {}
    if res.ok:
        audit_rows, raw = audit(prop)
        for n, ax in audit_rows.items():
            if ax is None:
                broken.append({"file": f"PycfModel/Props/{prop}.lean", "line": 0, "declaration": n, "message": "no axiom report (theorem missing)"})
            elif set(ax) - ALLOWED_AXIOMS:
                broken.append({"file": f"PycfModel/Props/{prop}.lean", "line": 0, "declaration": n, "message": f"inadmissible axioms {sorted(set(ax) - ALLOWED_AXIOMS)}"})
            else:
                discharged += 1
                axioms_seen |= set(ax)
    if res.ok and report.tier == "thorough":
        # the toolchain's independent re-checker replays the compiled declarations of the property's modules in a fresh kernel
        t0 = time.time()
        try:
            p = subprocess.run(["lake", "env", "leanchecker"] + prop_modules(prop), cwd=common.LEAN_DIR, stdout=subprocess.PIPE, stderr=subprocess.STDOUT, timeout=1800)
            report.extra["leanchecker"] = {"exit": p.returncode, "wall_s": round(time.time() - t0, 1), "tail": p.stdout.decode(errors="replace")[-300:]}
            if p.returncode != 0:
                broken.append({"file": f"PycfModel/Props/{prop}.lean", "line": 0, "declaration": None, "message": "leanchecker rejected a compiled module: " + p.stdout.decode(errors="replace")[-200:]})
        except subprocess.TimeoutExpired:
            report.extra["leanchecker"] = {"exit": "timeout"}
    hits = forbidden_tokens()
    for h in hits:
        broken.append({"file": h.split(":")[0], "line": 0, "declaration": None, "message": "forbidden token: " + h})
    report.proof.update(
        {
            "obligations": max(len(names), 1),
            "discharged": discharged,
            "checker_cmd": f"cd lean && lake build {' '.join(prop_modules(prop))} pycf_driver && lake env lean .audit/Audit_{prop}.lean",
            "trusted_base": [
                "Lean 4.33.0 kernel",
                "axioms: " + (", ".join(sorted(axioms_seen)) or "none"),
                "translator harness/extract.py (reports what the live classes contain)",
                "correspondence check (generators, canonicaliser, diff) ties the hand-written model to the code",
                "Lean compiler/runtime for the driver only",
            ],
            "theorems": names,
            "regenerated_tables": res.regenerated + dres.regenerated,
            "build_wall_s": round(res.wall + dres.wall, 2),
            "source_fingerprints": extract.source_fingerprints(),
        }
    )
    report.extra["broken_obligations"] = broken
    return (res.ok and not broken), driver_ok
