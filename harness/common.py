"""Shared infrastructure of the verification harness: paths, seeded PRNG, wire encoding,
driver process, evidence / replay / known-findings handling.  Runs under /venv/bin/python
(the interpreter that has pycfmodel's dependencies); pycfmodel itself is imported from the
current working tree of the repository."""
import base64
import datetime as _dt
import hashlib
import ipaddress
import json
import os
import random
import subprocess
import sys
import time

ROOT = os.path.dirname(os.path.dirname(os.path.abspath(__file__)))
REPO = os.environ.get("PYCF_REPO", "/repo")
LEAN_DIR = os.path.join(ROOT, "lean")
DRIVER = os.path.join(LEAN_DIR, ".lake", "build", "bin", "pycf_driver")
EVIDENCE_DIR = os.path.join(ROOT, "evidence")
REPLAY_DIR = os.path.join(ROOT, "replays")
CORPUS_DIR = os.path.join(ROOT, "corpus")
KNOWN_FINDINGS = os.path.join(ROOT, "known_findings.json")

if REPO not in sys.path:
    sys.path.insert(0, REPO)
os.environ.setdefault("SKYSCANNER_PYCFMODEL_VERIF", "1")

import logging  # noqa: E402
import warnings  # noqa: E402

warnings.simplefilter("ignore")

logging.disable(logging.CRITICAL)  # the library logs a warning per unresolved reference


class InfraError(Exception):
    """Infrastructure failure (build tool crashed, driver missing): exit code 2, never a violation."""


def seed_from_env() -> int:
    try:
        return int(os.environ.get("VERIF_SEED", "0"))
    except ValueError:
        return 0


def rng_for(prop: str, seed: int, stream: str = "") -> random.Random:
    h = hashlib.sha256(f"{prop}|{seed}|{stream}".encode()).digest()
    return random.Random(int.from_bytes(h[:8], "big"))


# ---------------------------------------------------------------- wire encoding
def enc(v):
    """Python value -> wire JSON (objects keep member order; typed leaves tagged)."""
    if v is None or isinstance(v, bool):
        return v
    if isinstance(v, int):
        return v
    if isinstance(v, float):
        return {"f": repr(v)}
    if isinstance(v, str):
        return v
    if isinstance(v, (bytes, bytearray)):
        return {"l": ["bytes", base64.b64encode(bytes(v)).decode()]}
    if isinstance(v, _dt.datetime):
        return {"l": ["datetime", str(v)]}
    if isinstance(v, _dt.date):
        return {"l": ["date", str(v)]}
    if isinstance(v, ipaddress.IPv4Network):
        return {"l": ["ip4", str(v)]}
    if isinstance(v, ipaddress.IPv6Network):
        return {"l": ["ip6", str(v)]}
    if isinstance(v, (list, tuple)):
        return [enc(x) for x in v]
    if isinstance(v, dict):
        return {"o": [[str(k), enc(x)] for k, x in v.items()]}
    if hasattr(v, "model_dump") and type(v).__name__ == "FunctionDict":
        # python-mode dumps keep FunctionDict objects under union members with a custom serialiser;
        # the resolver treats both encodings of a function alike
        return enc(v.model_dump())
    raise TypeError(f"cannot encode {type(v)}")


def dec(w):
    """wire JSON -> Python value with typed leaves as ('leaf', kind, payload) tuples and floats as ('f', repr)."""
    if w is None or isinstance(w, (bool, int, str)):
        return w
    if isinstance(w, list):
        return [dec(x) for x in w]
    if isinstance(w, dict):
        if "o" in w:
            return {k: dec(x) for k, x in w["o"]}
        if "f" in w:
            return ("f", w["f"])
        if "l" in w:
            return ("leaf", w["l"][0], w["l"][1])
    raise TypeError(f"cannot decode {w!r}")


def canon(v):
    """Canonical comparable form of a Python value produced by the implementation:
    the same shape `dec(enc(v))` has, so implementation and model outputs compare with ==."""
    return dec(enc(v))


def jdump(x) -> str:
    return json.dumps(x, ensure_ascii=False, separators=(",", ":"))


# ---------------------------------------------------------------- driver
class Driver:
    """Runs a batch of operations through the compiled Lean driver."""

    def __init__(self, path: str = DRIVER):
        self.path = path
        if not os.path.exists(path):
            raise InfraError(f"driver not built: {path}")

    def run(self, ops, timeout=600):
        data = "\n".join(jdump(o) for o in ops) + "\n"
        try:
            p = subprocess.run(
                [self.path], input=data.encode("utf-8"), stdout=subprocess.PIPE, stderr=subprocess.PIPE, timeout=timeout
            )
        except subprocess.TimeoutExpired:
            raise InfraError("driver timed out")
        if p.returncode != 0:
            raise InfraError(f"driver exited {p.returncode}: {p.stderr.decode(errors='replace')[:500]}")
        lines = p.stdout.decode("utf-8").splitlines()
        if len(lines) != len(ops):
            raise InfraError(f"driver answered {len(lines)} lines for {len(ops)} ops")
        return [json.loads(line) for line in lines]


# ---------------------------------------------------------------- watchdog
class WallClockExceeded(BaseException):
    """raised inside the implementation when one operation exceeds its wall-clock budget"""


def with_timeout(fn, seconds, *a, **kw):
    """run fn(*a, **kw) in-process under a wall-clock budget (SIGALRM); raises WallClockExceeded"""
    import signal

    def handler(signum, frame):
        raise WallClockExceeded()

    old = signal.signal(signal.SIGALRM, handler)
    signal.setitimer(signal.ITIMER_REAL, seconds)
    try:
        return fn(*a, **kw)
    finally:
        signal.setitimer(signal.ITIMER_REAL, 0)
        signal.signal(signal.SIGALRM, old)


# ---------------------------------------------------------------- exceptions -> small enum
def exc_class(e: BaseException) -> str:
    import re as _re

    try:
        from pydantic import ValidationError
    except Exception:  # pragma: no cover
        ValidationError = ()
    if isinstance(e, WallClockExceeded):
        return "Timeout"
    if isinstance(e, ValidationError):
        return "ValidationError"
    if isinstance(e, RecursionError):
        return "RecursionError"
    if isinstance(e, MemoryError):
        return "MemoryError"
    if isinstance(e, _re.error):
        return "re.error"
    for c in (KeyError, IndexError, AttributeError, TypeError, ValueError, NotImplementedError):
        if isinstance(e, c):
            return c.__name__
    return type(e).__name__


# ---------------------------------------------------------------- known findings / replays / evidence
def load_known_findings():
    if not os.path.exists(KNOWN_FINDINGS):
        return []
    with open(KNOWN_FINDINGS) as f:
        data = json.load(f)
    return [k for k in data.get("findings", []) if k.get("status") == "known"]


def tree_hash() -> str:
    """Hash of the repository's Python sources as they are now."""
    h = hashlib.sha256()
    base = os.path.join(REPO, "pycfmodel")
    for dp, dn, fn in sorted(os.walk(base)):
        dn.sort()
        for f in sorted(fn):
            if f.endswith(".py"):
                p = os.path.join(dp, f)
                h.update(p.encode())
                with open(p, "rb") as fh:
                    h.update(fh.read())
    return h.hexdigest()[:16]


class Report:
    """Collects what one check run did; writes evidence, replays, and the VIOLATION lines."""

    def __init__(self, prop: str, tier: str, seed: int):
        self.prop, self.tier, self.seed = prop, tier, seed
        self.t0 = time.time()
        self.evaluations = 0
        self.nontrivial = set()
        self.samples = []
        self.distribution = {}
        self.violations = []  # dicts
        self.known_hits = []
        self.notes = []
        self.proof = {}
        self.extra = {}
        self.rule = ""
        self.disagreements_checked = 0
        self.exhaustive = None
        self._known = [k for k in load_known_findings() if k.get("property") == prop]
        # replays of earlier runs of this property are stale once a new run starts
        if os.path.isdir(REPLAY_DIR):
            for f in os.listdir(REPLAY_DIR):
                if f.startswith(prop + "-") and f.endswith(".json"):
                    try:
                        os.remove(os.path.join(REPLAY_DIR, f))
                    except OSError:
                        pass

    # --- counting
    def count(self, key: str, n: int = 1):
        self.distribution[key] = self.distribution.get(key, 0) + n

    def case(self, op, nontrivial_key=None, sample=False):
        self.evaluations += 1
        if nontrivial_key is not None:
            self.nontrivial.add(nontrivial_key)
        if sample and len(self.samples) < 12:
            self.samples.append(op)

    # --- violations
    def _match_known(self, v):
        for k in self._known:
            m = k.get("match", {})
            if all(_match_field(v, field, want) for field, want in m.items()):
                return k
        return None

    def violation(self, kind: str, what: str, op=None, impl=None, model=None, oracle=None, found_input=True, **more):
        v = {
            "property": self.prop,
            "kind": kind,
            "what": what,
            "op": op,
            "impl": impl,
            "model": model,
            "oracle": oracle,
            "failing_input_found": found_input,
            "seed": self.seed,
            "tier": self.tier,
            "tree": tree_hash(),
        }
        v.update(more)
        k = self._match_known(v)
        if k is not None:
            if k["id"] not in [h["id"] for h in self.known_hits]:
                self.known_hits.append({"id": k["id"], "what": k["what"], "example": v})
            return
        # keep one violation per (kind, what) to bound output; count the rest
        for old in self.violations:
            if old["kind"] == kind and old["what"] == what:
                old["more_like_this"] = old.get("more_like_this", 0) + 1
                return
        self.violations.append(v)

    # --- finish
    def finish(self) -> int:
        os.makedirs(EVIDENCE_DIR, exist_ok=True)
        os.makedirs(REPLAY_DIR, exist_ok=True)
        for h in self.known_hits:
            print(f"KNOWN-FINDING: property={self.prop} {h['id']} {h['what']}")
        lines = []
        for n, v in enumerate(self.violations):
            path = os.path.join(REPLAY_DIR, f"{self.prop}-{self.seed}-{n}.json")
            with open(path, "w") as f:
                json.dump(v, f, indent=1, ensure_ascii=False, default=str)
            rel = os.path.relpath(path, ROOT)
            suffix = "" if v["failing_input_found"] else " no-failing-input-found"
            lines.append(f"VIOLATION property={self.prop} replay={rel} kind={v['kind']} what={v['what']!r}{suffix}")
        wall = time.time() - self.t0
        cov = {
            "evaluations": self.evaluations,
            "distinct_nontrivial": len(self.nontrivial),
            "rule": self.rule,
            "samples": self.samples[:12] or ["(no correspondence cases in this run)"],
            "disagreements_checked": self.disagreements_checked,
            "distribution": dict(sorted(self.distribution.items())),
            "tree": tree_hash(),
        }
        if self.exhaustive is not None:
            cov["exhaustive"] = self.exhaustive
        cov.update(self.proof)
        cov.update(self.extra)
        ev = {
            "property_id": self.prop,
            "tier": self.tier,
            "seed": self.seed,
            "level": "proof",
            "coverage": cov,
            "assumptions": self.notes,
            "wall_s": round(wall, 2),
            "violations": len(self.violations),
        }
        with open(os.path.join(EVIDENCE_DIR, f"{self.prop}.json"), "w") as f:
            json.dump(ev, f, indent=1, ensure_ascii=False, default=str)
        for line in lines:
            print(line)
        print(
            f"[{self.prop}] tier={self.tier} seed={self.seed} evaluations={self.evaluations} "
            f"nontrivial={len(self.nontrivial)} theorems={cov.get('discharged', 0)}/{cov.get('obligations', 0)} "
            f"violations={len(self.violations)} known={len(self.known_hits)} wall={wall:.1f}s"
        )
        return 1 if self.violations else 0


def _get_path(v, path):
    cur = v
    for part in path.split("."):
        if isinstance(cur, dict) and part in cur:
            cur = cur[part]
        else:
            return None
    return cur


def _match_field(v, field, want):
    got = _get_path(v, field)
    if isinstance(want, dict) and "regex" in want:
        import re

        return got is not None and re.search(want["regex"], got if isinstance(got, str) else jdump(got)) is not None
    if isinstance(want, dict) and "min" in want:
        return isinstance(got, (int, float)) and got >= want["min"]
    return got == want
