"""C15 — serialise / validate round trip is lossless.
Direct oracle on the implementation: for every model obtained from parse, resolve and expand_actions over the
whole-template, IAM, every-modelled-type and generic generators, CFModel(**m.model_dump()) must validate and be equal
to m field by field, *including the class of every model and the type of every leaf* (True == 1 in Python, so `==`
alone is not enough). Correspondence with the Lean model of the generic casting: `cast (dump (cast j))` against the
implementation's second cast (theorem C15_cast_roundtrip is about that model), and the leaf validators on their own dumps."""
import copy
import datetime as dt
import ipaddress

from .. import common, gen, gencond, tmpl
from . import c18


def tcanon(x):
    """canonical tree with the class of every model and the type of every leaf"""
    from pydantic import BaseModel

    if isinstance(x, BaseModel):
        fields = {}
        for n in type(x).model_fields:
            fields[n] = tcanon(getattr(x, n))
        for n, v in (x.model_extra or {}).items():
            fields["+" + n] = tcanon(v)
        return {"__class__": type(x).__name__, "fields": fields}
    if isinstance(x, dict):
        return {"__dict__": {str(k): tcanon(v) for k, v in x.items()}}
    if isinstance(x, (list, tuple)):
        return [tcanon(v) for v in x]
    if isinstance(x, float):
        return ["float", repr(x)]
    if isinstance(x, (bytes, bytearray)):
        return ["bytes", bytes(x).hex()]
    return [type(x).__name__, str(x)]


def leaf_types(c, acc):
    if isinstance(c, dict):
        if "__class__" in c:
            acc["model:" + c["__class__"]] = acc.get("model:" + c["__class__"], 0) + 1
            for v in c["fields"].values():
                leaf_types(v, acc)
        else:
            for v in c["__dict__"].values():
                leaf_types(v, acc)
    elif isinstance(c, list):
        if len(c) == 2 and isinstance(c[0], str) and isinstance(c[1], str) and not isinstance(c[0], dict):
            acc["leaf:" + c[0]] = acc.get("leaf:" + c[0], 0) + 1
        else:
            for v in c:
                leaf_types(v, acc)


def first_diff(a, b, path=()):
    if type(a) != type(b):
        return (list(path), a, b)
    if isinstance(a, dict):
        for k in sorted(set(a) | set(b)):
            if k not in a or k not in b:
                return (list(path) + [k], a.get(k), b.get(k))
            r = first_diff(a[k], b[k], path + (k,))
            if r:
                return r
        return None
    if isinstance(a, list):
        if len(a) != len(b):
            return (list(path), a, b)
        for i, (x, y) in enumerate(zip(a, b)):
            r = first_diff(x, y, path + (str(i),))
            if r:
                return r
        return None
    return None if a == b else (list(path), a, b)


def short(x, n=160):
    s = common.jdump(x) if not isinstance(x, str) else x
    return s if len(s) <= n else s[:n] + "…"


TYPED_STRINGS = ["2019-12-04", "2011-11-04T00:05:23Z", "2011-11-04T00:05:23+02:00", "10.0.0.0/8", "10.1.2.3/8", "0.0.0.0/0", "::/0", "2001:db8::/32", "true", "False", "5", "-3",
                 "1.5", "1e3", "05", "1_000", "[1,2]", "[\"a\",\"b\"]", "{\"a\":1}", "{\"Ref\":\"x\"}", "\"quoted\"", "\"[1,2]\"", "\"{\\\"Ref\\\":\\\"x\\\"}\"", "\"5\"", "null", "",
                 "{\"Statement\":[{\"Effect\":\"Allow\",\"Action\":\"s3:*\",\"Resource\":\"*\"}]}", "QUJDRA==", "arn:aws:s3:::b"]


def gen_generic_value(rng, depth=0):
    r = rng.random()
    if depth >= 3 or r < 0.5:
        if rng.random() < 0.75:
            return rng.choice(TYPED_STRINGS + c18.STRINGS)
        return rng.choice([True, False, 0, 1, 5, -7, 2**40, 1.5, 1.0, -0.25, None])
    if r < 0.72:
        return [gen_generic_value(rng, depth + 1) for _ in range(rng.randrange(0, 4))]
    if r < 0.8:
        doc = "{\"Statement\":[{\"Effect\":\"Allow\",\"Action\":\"s3:*\",\"Resource\":\"*\"}]}"
        return rng.choice([{}, {"Ref": "x"}, {"Key": "k", "Value": "v"}, {"Fn::Sub": "${A}"}, {"Statement": [{"Effect": "Allow", "Action": "s3:Get*", "Resource": "*"}]},
                           {"CidrIp": "10.0.0.0/8", "IpProtocol": "tcp"}, {"StringEquals": {"a": "b"}}, {"BinaryEquals": {"k": "QUJDRA=="}},
                           # members that are JSON text: the object as a whole is no property model until they are decoded
                           {"PolicyName": "n", "PolicyDocument": doc}, {"Effect": "Allow", "Action": "s3:*", "Resource": "*", "Condition": "{\"StringEquals\":{\"a\":\"b\"}}"},
                           {"Key": "true", "Value": "5"}])
    return {rng.choice(["a", "b", "Name", "Value", "Enabled", "Port", "When", "Cidr"]) + str(i): gen_generic_value(rng, depth + 1) for i in range(rng.randrange(0, 4))}


def typed_variants(rng):
    """valid definitions of modelled resources with every declared leaf type exercised"""
    cidr4 = lambda: rng.choice(["10.0.0.0/8", "0.0.0.0/0", "10.1.2.3/8", "192.168.1.1/32", "172.16.0.0/12", "1.2.3.4"])  # noqa: E731
    cidr6 = lambda: rng.choice(["::/0", "2001:db8::/32", "fe80::1/64", "::1"])  # noqa: E731
    port = lambda: rng.choice([22, "22", 0, 65535, "443", -1])  # noqa: E731
    boolish = lambda: rng.choice([True, False, "true", "false", "True", "FALSE"])  # noqa: E731
    out = []
    out.append({"Type": "AWS::EC2::SecurityGroup", "Properties": {"GroupDescription": "d", "VpcId": "vpc", "SecurityGroupIngress": [
        {"IpProtocol": rng.choice(["tcp", "-1", 6]), "CidrIp": cidr4(), "FromPort": port(), "ToPort": port()},
        {"IpProtocol": "udp", "CidrIpv6": cidr6(), "FromPort": port(), "ToPort": port(), "Description": "x"}],
        "SecurityGroupEgress": rng.choice([[{"IpProtocol": "-1", "CidrIp": cidr4()}], {"IpProtocol": "-1", "CidrIpv6": cidr6()}]),
        "Tags": [{"Key": "k", "Value": rng.choice(["v", "true", "5"])}]}})
    out.append({"Type": "AWS::EC2::SecurityGroupIngress", "Properties": {"GroupId": "g", "IpProtocol": "tcp", "CidrIp": cidr4(), "FromPort": port(), "ToPort": port()}})
    out.append({"Type": "AWS::EC2::SecurityGroupEgress", "Properties": {"GroupId": "g", "IpProtocol": "tcp", "CidrIpv6": cidr6(), "FromPort": port(), "ToPort": port()}})
    out.append({"Type": "AWS::RDS::DBSecurityGroup", "Properties": {"GroupDescription": "d", "DBSecurityGroupIngress": rng.choice([[{"CIDRIP": cidr4()}, {"EC2SecurityGroupName": "n"}], [{"CIDRIP": cidr4()}]])}})
    out.append({"Type": "AWS::RDS::DBSecurityGroupIngress", "Properties": {"DBSecurityGroupName": "n", "CIDRIP": cidr4()}})
    out.append({"Type": "AWS::KMS::Key", "Properties": {"KeyPolicy": gen.gen_policy_document(rng, with_condition=True), "EnableKeyRotation": boolish(), "Enabled": boolish(), "PendingWindowInDays": rng.choice([7, "7"])}})
    out.append({"Type": "AWS::S3::Bucket", "Properties": {"BucketName": "b", "AccessControl": "Private", "PublicAccessBlockConfiguration": {"BlockPublicAcls": boolish(), "BlockPublicPolicy": boolish()},
                                                        "BucketEncryption": {"ServerSideEncryptionConfiguration": [{"ServerSideEncryptionByDefault": {"SSEAlgorithm": "AES256"}, "BucketKeyEnabled": boolish()}]},
                                                        "Tags": [{"Key": "k", "Value": "v"}]}})
    out.append({"Type": "AWS::IAM::Role", "Properties": {"AssumeRolePolicyDocument": gen.gen_policy_document(rng, with_condition=True), "MaxSessionDuration": rng.choice([3600, "3600"]), "Path": "/",
                                                       "ManagedPolicyArns": ["arn:aws:iam::aws:policy/ReadOnlyAccess"], "Policies": [{"PolicyName": "p", "PolicyDocument": gen.gen_policy_document(rng, with_condition=True)}]}})
    out.append({"Type": "AWS::IAM::User", "Properties": {"UserName": "u", "LoginProfile": {"Password": "x", "PasswordResetRequired": boolish()}, "Groups": ["g"]}})
    out.append({"Type": "AWS::EC2::VPCEndpoint", "Properties": {"ServiceName": "s", "VpcId": "v", "PrivateDnsEnabled": boolish(), "PolicyDocument": gen.gen_policy_document(rng, with_condition=True)}})
    out.append({"Type": "AWS::Elasticsearch::Domain", "Properties": {"DomainName": "d", "AccessPolicies": gen.gen_policy_document(rng, with_condition=True), "EBSOptions": {"EBSEnabled": boolish(), "VolumeSize": rng.choice([10, "10"])}}})
    return out


def cond_statement(rng):
    return {"Effect": rng.choice(["Allow", "Deny"]), "Action": gen.gen_action_value(rng, allow_empty=False), "Resource": "*", "Principal": gen.gen_principal(rng), "Condition": gencond.gen_block(rng)}


def gen_case(rng, i):
    """(kind, template, extra)"""
    k = i % 6
    if k == 0:
        t, extra = tmpl.gen_template(rng, max_depth=3, cyclic_ok=False)
        return "whole-template", t, extra
    if k == 1:
        res = {}
        for j in range(rng.randrange(1, 4)):
            res[f"I{j}"], _ = gen.gen_iam_resource(rng, tag=f"I{j}", with_condition=True)
        return "iam-with-conditions", {"Resources": res}, {}
    if k == 2:
        vs = typed_variants(rng)
        rng.shuffle(vs)
        return "typed-leaves", {"Resources": {f"T{j}": v for j, v in enumerate(vs[: rng.randrange(1, 5)])}}, {}
    if k == 3:
        props = {f"P{j}": gen_generic_value(rng) for j in range(rng.randrange(1, 5))}
        return "generic-values", {"Resources": {"G": {"Type": rng.choice(["Custom::Thing", "AWS::Logs::ResourcePolicy", "AWS::Lambda::Function"]), "Properties": props}}}, {}
    if k == 4:
        doc = {"Version": "2012-10-17", "Statement": [cond_statement(rng) for _ in range(rng.randrange(1, 4))]}
        return "condition-blocks", {"Resources": {"P": {"Type": "AWS::S3::BucketPolicy", "Properties": {"Bucket": "b", "PolicyDocument": doc}},
                                                  "G": {"Type": "Custom::Holder", "Properties": {"Inner": {"PolicyDocument": doc}}}}}, {}
    vr = gen.valid_resources(rng)
    names = rng.sample(sorted(vr), rng.randrange(1, 5))
    res = {f"V{j}": vr[n] for j, n in enumerate(names)}
    res["A"] = gen.gen_generic_action_resource(rng)
    return "every-modelled-type", {"Resources": res, "Metadata": {"k": [1, "a"]}, "Outputs": {"O": {"Value": {"Ref": "V0"}}}, "Description": "d"}, {}


CORPUS = [
    # D12: a base64 binary condition value is decoded again on re-validation
    ("corpus", {"Resources": {"P": {"Type": "AWS::S3::BucketPolicy", "Properties": {"Bucket": "b", "PolicyDocument": {"Statement": [
        {"Effect": "Allow", "Action": "s3:GetObject", "Resource": "*", "Principal": "*", "Condition": {"BinaryEquals": {"k": "QUJDRA=="}}}]}}}}}, {}),
    ("corpus", {"Resources": {"P": {"Type": "AWS::S3::BucketPolicy", "Properties": {"Bucket": "b", "PolicyDocument": {"Statement": [
        {"Effect": "Allow", "Action": "s3:GetObject", "Resource": "*", "Principal": "*", "Condition": {"BinaryEquals": {"k": ["QQ==", "QUI="]}}}]}}}}}, {}),
    ("corpus", {"Resources": {"G": {"Type": "Custom::Thing", "Properties": {"P": "\"[1,2]\"", "Q": "\"{\\\"Ref\\\":\\\"x\\\"}\""}}}}, {}),
]


def stages(t, extra, with_expand=True):
    """yield (stage name, model) for parse, resolve, expand_actions, resolve+expand"""
    m = tmpl.parse(t)
    yield "parse", m
    try:
        r = common.with_timeout(m.resolve, 20.0, copy.deepcopy(extra))
    except (Exception, common.WallClockExceeded):
        r = None
    if r is not None:
        yield "resolve", r
    if not with_expand:
        return
    try:
        e = common.with_timeout(m.expand_actions, 60.0)
    except (Exception, common.WallClockExceeded):
        e = None
    if e is not None:
        yield "expand_actions", e


def run(report, tier, seed, driver, proofs_ok):
    from pycfmodel.model.cf_model import CFModel

    rng = common.rng_for("C15", seed)
    thorough = tier == "thorough"
    n = 2400 if thorough else 420
    report.rule = (
        "cases = templates from six generators (whole templates with all functions; IAM resources with condition blocks over every "
        "operator; modelled resources with every declared leaf type (networks, ports, semi-strict bools as text and as bool, ints as "
        "text); generic resources with typed-looking strings, JSON text and quoted JSON text; condition blocks inside modelled and "
        "generic holders; one valid definition of every modelled type) × stages parse / resolve / expand_actions. For each model: "
        "CFModel(**m.model_dump()) must validate and equal m, with the class of every model and the type of every leaf compared. "
        "distinct_nontrivial = distinct (stage, template) pairs round-tripped."
    )
    cases = list(CORPUS) + [gen_case(rng, i) for i in range(n)]
    coverage = {}
    for idx, (kind, t, extra) in enumerate(cases):
        try:
            # models with expanded NotAction lists hold tens of thousands of strings: every case in thorough, one in four in quick
            it = list(stages(t, extra, with_expand=thorough or idx % 4 == 0))
        except Exception as e:
            report.count(f"does-not-parse:{kind}:" + common.exc_class(e))
            continue
        for stage, m in it:
            key = common.jdump([stage, t])
            report.case({"kind": kind, "stage": stage}, key, sample=len(key) < 500 and rng.random() < 0.02)
            report.count(f"round-trip:{kind}:{stage}")
            c1 = tcanon(m)
            leaf_types(c1, coverage)
            try:
                m2 = common.with_timeout(lambda: CFModel(**m.model_dump()), 30.0)
            except (Exception, common.WallClockExceeded) as e:
                report.violation("oracle", "revalidation-of-own-dump-fails:" + common.exc_class(e), op={"template": t, "extra": extra, "stage": stage},
                                 impl={"message": str(e)[:300]}, oracle="CFModel(**m.model_dump())")
                continue
            c2 = tcanon(m2)
            d = first_diff(c1, c2)
            if d is not None or m2 != m:
                what = "round-trip-changes-a-field"
                if d is not None and d[0] and d[0][-1] == "__class__":
                    what = f"round-trip-changes-model-class:{d[1]}->{d[2]}"
                elif d is not None:
                    a, b = d[1], d[2]
                    la = a[0] if isinstance(a, list) and len(a) == 2 and isinstance(a[0], str) else type(a).__name__
                    lb = b[0] if isinstance(b, list) and len(b) == 2 and isinstance(b[0], str) else type(b).__name__
                    what += f":{la}->{lb}" if la != lb else f":{la}-value"
                report.violation("oracle", what, op={"template": t, "extra": extra, "stage": stage},
                                 impl={"path": d[0] if d else None, "before": short(d[1]) if d else None, "after": short(d[2]) if d else None},
                                 oracle="tcanon(CFModel(**m.model_dump())) == tcanon(m)")
    for k, v in sorted(coverage.items()):
        report.count("covered:" + k, v)
    if driver is not None:
        cast_roundtrip(report, rng, driver, 6000 if thorough else 500)
        leaf_validators(report, rng, driver, 4000 if thorough else 400)


def pydump(x):
    from pydantic import BaseModel

    if isinstance(x, BaseModel):
        return x.model_dump()
    if isinstance(x, list):
        return [pydump(v) for v in x]
    return x


def cast_roundtrip(report, rng, driver, n):
    """the generic casting applied to its own dump, implementation against `cast (dump (cast j))` (C15_cast_roundtrip),
    with the theorem's hypotheses evaluated by the driver on the engine table of each case"""
    import json

    from pycfmodel.model.generic import _Auxiliar

    values = [gen_generic_value(rng) for _ in range(n)] + ["\"[1,2]\"", ["\"5\""], {"a": "\"{\\\"Ref\\\":\\\"x\\\"}\""}]
    ops, rows = [], []
    for v in values:
        eng = c18.Engine()
        eng.add_value(v)
        try:
            r1 = common.with_timeout(_Auxiliar.cast, 5.0, json.loads(json.dumps(v)))
            d = pydump(r1)
            r2 = common.with_timeout(_Auxiliar.cast, 5.0, d)
            io = {"first": c18.cv_of(r1), "second": c18.cv_of(r2), "equal": tcanon(r1) == tcanon(r2)}
            eng.add_value(d)
        except (Exception, common.WallClockExceeded) as e:
            io = {"raised": common.exc_class(e), "message": str(e)[:200]}
        ops.append({"op": "roundtrip", "value": common.enc(v), "engine": eng.wire(), "fuel": 8})
        rows.append((v, io))
    outs = driver.run(ops, timeout=1800)
    for (v, io), mo in zip(rows, outs):
        if "driver_error" in mo:
            raise common.InfraError(str(mo)[:500])
        report.count("cast-round-trip:" + type(v).__name__)
        if "raised" in io:
            report.violation("oracle", "cast-of-own-dump-raises-" + io["raised"], op={"value": v}, impl=io)
            continue
        if not io["equal"]:
            becomes_model = object_becomes_model(io["first"], io["second"])
            report.violation("oracle", "generic-cast-of-own-dump-differs" + (":object-becomes-a-property-model" if becomes_model else ""), op={"value": v}, impl=io, model={"first": mo["first"], "second": mo["second"]},
                             oracle="_Auxiliar.cast(dump(_Auxiliar.cast(v))) == _Auxiliar.cast(v), classes and leaf types included")
        if not io["equal"] and object_becomes_model(io["first"], io["second"]):
            # the law `generic` of C15_cast_roundtrip fails for the real engine on this value (finding D35); the driver can not
            # evaluate it (its dump of a property model is the raw object, pydantic's is the normalised one): nothing to compare
            report.count("theorem-hypothesis-not-met:generic-object-becomes-a-property-model")
            continue
        if mo["fuel_short"] or not mo["law_empty"]:
            report.count("theorem-hypothesis-not-met:" + ("fuel" if mo["fuel_short"] else "empty-object-is-a-model"))
            if not mo["law_empty"]:
                report.violation("correspondence", "engine-law-fails:empty-object-accepted-as-a-property-model", op={"value": v}, model=mo)
            continue
        if mo["equal"] != io["equal"] or mo["second"] != io["second"]:
            report.disagreements_checked += 1
            report.violation("correspondence", "cast-round-trip-differs-from-model", op={"op": "roundtrip", "value": v}, impl=io, model={"first": mo["first"], "second": mo["second"], "equal": mo["equal"]},
                             oracle="Cast.cast E fuel (Cast.dump (Cast.cast E fuel j)) (C15_cast_roundtrip)")


def object_becomes_model(a, b):
    """somewhere a generic object ({"o": …}) of the first cast is a property model ({"model": …}) in the second"""
    if isinstance(a, dict) and isinstance(b, dict):
        if "o" in a and "model" in b:
            return True
        if "o" in a and "o" in b:
            return any(object_becomes_model(x[1], y[1]) for x, y in zip(a["o"], b["o"]))
    if isinstance(a, list) and isinstance(b, list):
        return any(object_becomes_model(x, y) for x, y in zip(a, b))
    return False


B64 = "ABCDEFGHIJKLMNOPQRSTUVWXYZabcdefghijklmnopqrstuvwxyz0123456789+/"


def leaf_validators(report, rng, driver, n):
    """semi-strict bool, base64 binary and operator-name validators against their Lean models, and on their own dumps"""
    from pycfmodel.model.resources.properties.statement_condition import StatementCondition
    from pycfmodel.model.types import SemiStrictBool, validate_binary

    ops, rows = [], []
    for i in range(n):
        k = rng.randrange(3)
        if k == 0:
            body = "".join(rng.choice(B64 + " \n-_.") for _ in range(rng.randrange(0, 14)))
            text = body + "=" * rng.choice([0, 0, 1, 2, 3]) + rng.choice(["", "", " ", "\n", "=."])
            try:
                b = validate_binary(text)
                io = {"bytes": list(b)}
                again = validate_binary(b)
                if bytes(again) != bytes(b):
                    report.violation("oracle", "binary-validator-changes-its-own-output", op={"text": text}, impl={"first": list(b), "second": list(again)})
            except ValueError:
                io = {"error": True}
            except Exception as e:
                report.violation("oracle", "binary-validator-raises-" + common.exc_class(e), op={"text": text})
                continue
            ops.append({"op": "b64", "text": text})
            rows.append(("b64", text, io))
        else:
            v = rng.choice([True, False, "true", "FALSE", "True", "tRuE", "yes", "1", 1, 0, None, "", "false ", [], 1.0])
            name = rng.choice(["ForAllValues:StringLike", "StringEquals", "ForAnyValue:ArnLikeIfExists", "::", "a:b:c", "Bool"])
            try:
                sb = SemiStrictBool(v)
                if SemiStrictBool(sb) is not sb:
                    report.violation("oracle", "semi-strict-bool-changes-its-own-output", op={"value": v})
            except ValueError:
                sb = None
            nc = next(iter(StatementCondition.remove_colon({name: None})))
            if next(iter(StatementCondition.remove_colon({nc: None}))) != nc:
                report.violation("oracle", "colon-removal-not-idempotent", op={"name": name})
            ops.append({"op": "leaves15", "value": common.enc(v), "name": name})
            rows.append(("leaves", (v, name), {"semi_bool": sb, "no_colon": nc}))
    outs = driver.run(ops)
    for (kind, inp, io), mo in zip(rows, outs):
        if "driver_error" in mo:
            raise common.InfraError(str(mo)[:500])
        report.count("leaf-validator:" + kind)
        if mo != io:
            report.disagreements_checked += 1
            report.violation("correspondence", f"leaf-validator-{kind}-differs", op={"input": inp}, impl=io, model=mo)
