"""C14 — resource type dispatch is exact and strict."""
import copy

from .. import common, gen


def damage(rng, res):
    """(kind, damaged definition)"""
    r = copy.deepcopy(res)
    props = r.get("Properties") or {}
    k = rng.randrange(7)
    if k == 0 and props:
        del props[rng.choice(list(props))]
        return "property-dropped", r
    if k == 1:
        props["Bogus" + str(rng.randrange(9))] = rng.choice(["x", 1, {"a": 1}, ["y"]])
        r["Properties"] = props
        return "unknown-property-added", r
    if k == 2 and props:
        key = rng.choice(list(props))
        props[key] = rng.choice([{"not": "the type"}, [["nested"]], 12345, None]) if not isinstance(props[key], (dict, list)) else rng.choice(["text", 5])
        return "property-retyped", r
    if k == 3:
        r["Bogus"] = rng.choice(["x", {"a": 1}])
        return "unknown-resource-member-added", r
    if k == 4:
        r.pop("Properties", None)
        return "properties-dropped", r
    if k == 5:
        r["Properties"] = rng.choice(["text", [], 5])
        return "properties-retyped", r
    r["DependsOn"] = rng.choice(["Other", ["A", "B"]])
    r["DeletionPolicy"] = "Retain"
    return "valid-resource-attributes-added", r


def run(report, tier, seed, driver, proofs_ok):
    from pycfmodel.model.cf_model import CFModel
    from pycfmodel.model.resources.generic_resource import GenericResource
    from pycfmodel.model.resources.resource import Resource
    from pycfmodel.model.resources.types import ResourceModels

    rng = common.rng_for("C14", seed)
    thorough = tier == "thorough"
    rounds = 60 if thorough else 4
    report.rule = (
        "cases = (resource definition, strict on/off): for each of the 18 modelled types a valid definition and damaged ones "
        "(a property dropped / an unknown property added / a property retyped / an unknown resource member / Properties "
        "dropped or retyped / valid resource attributes added), and definitions of other type strings (custom, unknown AWS, "
        "empty, missing, wrong letter case of a modelled type). Observables: class of the parsed resource or rejection, vs "
        "Dispatch.dispatch given the engine's verdicts on the dedicated class and on GenericResource; engine accepts ⇒ shallow "
        "rules hold; resources_filtered_by_type vs Dispatch.filterByType; classes before/after resolve and expand_actions. "
        "distinct_nontrivial = distinct (definition, strict) pairs."
    )
    classes = {k.model_fields["Type"].annotation.__args__[0]: k for k in ResourceModels.__args__[0].__args__}
    cases = []
    for _ in range(rounds):
        valid = gen.valid_resources(rng)
        for t, res in valid.items():
            cases.append(("valid", res))
            for _ in range(3):
                cases.append(damage(rng, res))
            # the ordinary resource attributes next to Type / Properties (Condition is also the name of an intrinsic function)
            attrs = {"Condition": "IsProd", "DependsOn": rng.choice(["Other", ["A", "B"]]), "DeletionPolicy": "Retain", "Metadata": {"k": "v"}}
            pick = {k: attrs[k] for k in rng.sample(sorted(attrs), rng.randrange(1, 4))}
            if rng.random() < 0.6:
                pick["Condition"] = "IsProd"
            items = list(dict(res, **pick).items())
            rng.shuffle(items)
            cases.append(("valid-with-attributes", dict(items)))
            kind, dmg = damage(rng, res)
            items = list(dict(dmg, **pick).items()) if isinstance(dmg, dict) else None
            if items:
                rng.shuffle(items)
                cases.append((kind, dict(items)))
        for t in ["Custom::Thing", "AWS::Lambda::Function", "AWS::S3::bucket", "aws::s3::bucket", "", "AWS::S3::Bucket ", "AWS::IAM::Roles"]:
            cases.append(("other-type", {"Type": t, "Properties": {"A": "b", "N": {"x": [1, 2]}}}))
        cases.append(("no-type", {"Properties": {"A": "b"}}))
        cases.append(("null-type", {"Type": None, "Properties": {"A": "b"}}))
    ops, rows = [], []
    for kind, res in cases:
        for strict in (True, False):
            t = res.get("Type")
            klass = classes.get(t) if isinstance(t, str) else None
            ded = False
            if klass is not None:
                try:
                    klass.model_validate(copy.deepcopy(res))
                    ded = True
                except Exception:
                    ded = False
            GenericResource._strict = False
            try:
                GenericResource.model_validate(copy.deepcopy(res))
                gok = True
            except Exception:
                gok = False
            GenericResource._strict = strict
            try:
                m = CFModel(Resources={"R": copy.deepcopy(res)})
                io = {"outcome": type(m.Resources["R"]).__name__}
                kept = m.Resources["R"]
            except Exception as e:
                io = {"outcome": "rejected"} if common.exc_class(e) == "ValidationError" else {"outcome": "raised:" + common.exc_class(e)}
                kept = None
            finally:
                GenericResource._strict = True
            ops.append({"op": "dispatch", "resource": common.enc(res), "strict": strict, "dedicated_ok": ded, "generic_ok": gok})
            rows.append((kind, res, strict, io, ded, kept))
    model = driver.run(ops) if driver is not None else [None] * len(ops)
    for (kind, res, strict, io, ded, kept), mo in zip(rows, model):
        report.case({"kind": kind, "type": res.get("Type"), "strict": strict}, (common.jdump(res), strict), sample=(kind not in ("valid",) and strict and len(common.jdump(res)) < 400 and rng.random() < 0.05))
        report.count(f"kind:{kind}")
        report.count(f"outcome:{'dedicated' if io['outcome'] not in ('rejected', 'GenericResource') and not io['outcome'].startswith('raised') else io['outcome']}")
        t = res.get("Type")
        modelled = isinstance(t, str) and t in classes
        if io["outcome"].startswith("raised"):
            report.violation("oracle", "parse-" + io["outcome"], op={"resource": res, "strict": strict}, impl=io)
            continue
        if modelled and strict and io["outcome"] == "GenericResource":
            report.violation("oracle", "modelled-type-silently-downgraded-to-generic", op={"resource": res, "strict": strict}, impl=io,
                             oracle="C14_exact: in strict mode a modelled Type parses to its dedicated class or is rejected")
        if modelled and io["outcome"] not in ("rejected", "GenericResource") and io["outcome"] != classes[t].__name__:
            report.violation("oracle", "modelled-type-parsed-into-another-class", op={"resource": res}, impl=io)
        if kind in ("unknown-property-added", "unknown-resource-member-added", "properties-retyped") and modelled and strict and io["outcome"] != "rejected":
            report.violation("oracle", f"{kind}-accepted-in-modelled-resource", op={"resource": res}, impl=io,
                             oracle="C14_strict_errors: unknown members and ill-typed Properties of modelled resources are errors")
        if kept is not None and kept.Type != res.get("Type"):
            report.violation("oracle", "resource-type-string-changed-by-parse", op={"resource": res, "strict": strict}, impl={"Type": kept.Type},
                             oracle="the Type of a parsed resource is the Type written in the template (C14_generic_other)")
        if kept is not None and type(kept).__name__ == "GenericResource" and isinstance(res.get("Properties"), dict):
            extras = kept.Properties.model_extra if kept.Properties is not None else {}
            if list(extras) != list(res["Properties"]):
                report.violation("oracle", "generic-resource-does-not-keep-all-properties", op={"resource": res}, impl={"kept": list(extras)})
        if mo is None:
            continue
        if "driver_error" in mo:
            raise common.InfraError(str(mo))
        if io["outcome"] != mo["outcome"]:
            report.disagreements_checked += 1
            report.violation("correspondence+oracle", "dispatch-differs", op={"resource": res, "strict": strict, "dedicated_ok": ded}, impl=io, model=mo,
                             oracle="Dispatch.dispatch over the regenerated union (C14_exact, C14_table)")
        if ded and mo.get("shallow_ok") is False:
            report.violation("oracle", "dedicated-class-accepts-what-forbid-and-requiredness-exclude", op={"resource": res}, impl={"dedicated_ok": ded}, model=mo,
                             oracle="C14_strict_errors over the regenerated field tables")

    # filter + class preservation on whole models
    for i in range(120 if thorough else 30):
        valid = gen.valid_resources(rng)
        names = rng.sample(list(valid), rng.randrange(3, 9))
        res = {f"R{j}": valid[n] for j, n in enumerate(names)}
        res["G0"] = {"Type": "Custom::Thing", "Properties": {"A": "b"}}
        res["G1"] = {"Type": "AWS::Lambda::Function", "Properties": {"Code": {"ZipFile": "x"}}}
        # type strings that are *almost* a modelled one, with properties the modelled class would accept: still unmodelled
        near = rng.choice(names)
        res["N0"] = dict(copy.deepcopy(valid[near]), Type=rng.choice([near + " ", " " + near, near + "\n", near.lower(), near + "s"]))
        lax = i % 2 == 1
        damaged_types = []
        if lax:
            # with strict mode off a damaged definition of a modelled type is a GenericResource carrying that Type,
            # next to well-formed resources of the same Type
            for j, n in enumerate(rng.sample(names, rng.randrange(1, 3))):
                d = copy.deepcopy(valid[n])
                d.setdefault("Properties", {})["NotAProperty"] = 1
                res[f"D{j}"] = d
                damaged_types.append(n)
        GenericResource._strict = not lax
        try:
            m = CFModel(Resources=copy.deepcopy(res))
        finally:
            GenericResource._strict = True
        all_classes = list(classes.values()) + [GenericResource, Resource]
        asked_c = rng.sample(all_classes, rng.randrange(0, 3))
        asked_t = rng.sample(list(classes) + ["Custom::Thing", "Nope"], rng.randrange(0, 3))
        if i % 5 == 0:
            # a base class stands for everything below it
            asked_c = [rng.choice([Resource, GenericResource])] + asked_c[:1]
        if damaged_types and rng.random() < 0.7:
            asked_c = [classes[damaged_types[0]]] + asked_c[:1]
            if rng.random() < 0.5:
                asked_t = []
        got = sorted(m.resources_filtered_by_type(asked_c + asked_t))
        parsed = [{"name": n, "classes": [b.__name__ for b in type(r).__mro__ if hasattr(b, "model_fields")], "type": r.Type} for n, r in m.Resources.items()]
        report.case({"filter": [c.__name__ for c in asked_c] + asked_t}, ("filter", i))
        if driver is not None:
            mo = driver.run([{"op": "filter", "classes": [c.__name__ for c in asked_c], "types": asked_t, "resources": parsed}])[0]
            if sorted(mo["names"]) != got:
                report.violation("correspondence+oracle", "resources_filtered_by_type-differs", op={"classes": [c.__name__ for c in asked_c], "types": asked_t, "resources": parsed}, impl=got, model=sorted(mo["names"]),
                                 oracle="Dispatch.filterByType (C14_filter)")
        before = {n: type(r).__name__ for n, r in m.Resources.items()}
        GenericResource._strict = not lax  # the transformations re-validate: same mode as the parse
        try:
            m2 = m.resolve()
            m3 = m2.expand_actions()
        except Exception as e:
            GenericResource._strict = True
            report.violation("oracle", "resolve-or-expand-raises-" + common.exc_class(e), op={"resources": res}, impl={"message": str(e)[:200]})
            continue
        GenericResource._strict = True
        for label, mm in (("resolve", m2), ("expand_actions", m3)):
            after = {n: type(r).__name__ for n, r in mm.Resources.items()}
            types_after = {n: r.Type for n, r in mm.Resources.items()}
            if types_after != {n: r.get("Type") for n, r in res.items()}:
                report.violation("oracle", f"{label}-changes-a-resource-type-string", op={"resources": res}, impl={"types": {n: t for n, t in types_after.items() if t != res[n].get("Type")}})
            if after != before:
                report.violation("oracle", f"{label}-changes-a-resource-class", op={"resources": res}, impl={"before": before, "after": after})
    report.notes += [
        "whether a definition satisfies a class in depth is pydantic-core's verdict (a parameter of the model); the union structure, discriminator, extra modes and field tables are regenerated from the live classes and stated in C14_table",
    ]
