"""C17 — network exposure predicates reflect the address range actually denoted."""
import ipaddress

from .. import common, tmpl

ADDR4 = ["0.0.0.0", "10.0.0.0", "10.1.2.3", "255.255.255.255", "172.16.5.4", "192.168.1.1", "100.64.0.1", "8.8.8.8", "127.0.0.1", "169.254.1.1", "198.18.0.0", "203.0.113.7", "240.0.0.1", "1.2.3.4", "192.0.0.170", "11.255.255.255"]
ADDR6 = ["::", "::1", "2001:db8::1", "fe80::1", "fc00::", "ffff:ffff:ffff:ffff:ffff:ffff:ffff:ffff", "2001:db8:0:0:1:0:0:1", "2a00:1450:4001:81b::200e", "1:2:3:4:5:6:7:8", "::ffff:10.1.2.3", "64:ff9b::8.8.8.8", "100::1"]
BAD4 = ["", "1.2.3", "1.2.3.4.5", "256.0.0.0/8", "01.2.3.4", "1.2.3.4/33", "1.2.3.4/", "1.2.3.4//8", "1.2.3.4/8/8", " 1.2.3.4", "1.2.3.4 ", "1.2.3.4/ 8", "a.b.c.d", "1.2.3.4/255.0.255.0", "1.2.3.4/-1", "1.2.3.4/+8", "1.2.3.4/0x8", "1..3.4", "١.٢.٣.٤", "1.2.3.4/٨", "1.2.3.0004"]
BAD6 = ["", ":", ":::", "1::2::3", "1:2:3:4:5:6:7", "1:2:3:4:5:6:7:8:9", "12345::", "g::", "::1/129", "::1/", "1:2:3:4:5:6:7::8", ":1:2:3:4:5:6:7", "1:2:3:4:5:6:7:", "::1.2.3", "::1.2.3.256", "::/١", "1::2/0x1"]


def netmask(l):
    return str(ipaddress.IPv4Address((2**32 - 1) ^ (2 ** (32 - l) - 1)))


def hostmask(l):
    return str(ipaddress.IPv4Address(2 ** (32 - l) - 1))


def spellings4(addr, l, rng):
    out = [f"{addr}/{l}", f"{addr}/{l:02d}", f"{addr}/{netmask(l)}"]
    if 0 < l < 32:
        out.append(f"{addr}/{hostmask(l)}")
    if l == 32:
        out.append(addr)
    return out


def expand6(a):
    return ipaddress.IPv6Address(a).exploded


def spellings6(addr, l, rng):
    full = expand6(addr.split("%")[0]) if "." not in addr else None
    out = [f"{addr}/{l}"]
    if full:
        groups = full.split(":")
        out.append(":".join(groups) + f"/{l}")
        out.append(":".join(g.lstrip("0") or "0" for g in groups).upper() + f"/{l}")
        # compress every maximal run of zero groups, one at a time
        short = [g.lstrip("0") or "0" for g in groups]
        i = 0
        while i < 8:
            if short[i] == "0":
                j = i
                while j < 8 and short[j] == "0":
                    j += 1
                left, right = ":".join(short[:i]), ":".join(short[j:])
                out.append(f"{left}::{right}/{l}")
                i = j
            else:
                i += 1
    if l == 128:
        out.append(addr)
    return out


class Impl:
    def __init__(self):
        from pycfmodel.model.resources.properties.security_group_egress_prop import SecurityGroupEgressProp
        from pycfmodel.model.resources.properties.security_group_ingress_prop import DBSecurityGroupIngressProp, SecurityGroupIngressProp
        from pycfmodel.model.resources.security_group_egress import SecurityGroupEgress
        from pycfmodel.model.resources.security_group_ingress import RDSDBSecurityGroupIngress, SecurityGroupIngress

        self.Ingress, self.Egress, self.DB = SecurityGroupIngressProp, SecurityGroupEgressProp, DBSecurityGroupIngressProp
        self.IngressRes, self.EgressRes, self.DBRes = SecurityGroupIngress, SecurityGroupEgress, RDSDBSecurityGroupIngress

    def observe(self, text, v6, route):
        field = "CidrIpv6" if v6 else "CidrIp"
        try:
            if route == "ingress":
                o = self.Ingress(IpProtocol="tcp", **{field: text})
            elif route == "egress":
                o = self.Egress(IpProtocol="tcp", **{field: text})
            elif route == "ingress-resource":
                r = self.IngressRes(Type="AWS::EC2::SecurityGroupIngress", Properties={"IpProtocol": "tcp", "GroupId": "g", field: text})
                o = r.Properties
                sz = r.ipv6_slash_zero() if v6 else r.ipv4_slash_zero()
            elif route == "egress-resource":
                r = self.EgressRes(Type="AWS::EC2::SecurityGroupEgress", Properties={"IpProtocol": "tcp", "GroupId": "g", field: text})
                o = r.Properties
                sz = r.ipv6_slash_zero() if v6 else r.ipv4_slash_zero()
            else:
                # a rule may name a source security group next to its CIDR range: the range still decides
                kw = {"CIDRIP": text}
                pick = sum(map(ord, text)) % 4
                if pick == 1:
                    kw["EC2SecurityGroupId"] = "sg-1"
                elif pick == 2:
                    kw["EC2SecurityGroupName"] = "n"
                    kw["EC2SecurityGroupOwnerId"] = "123456789012"
                o = self.DB(**kw)
        except Exception as e:
            return {"invalid": True} if common.exc_class(e) == "ValidationError" else {"raised": common.exc_class(e)}
        try:
            if route == "rds":
                n = o.CIDRIP
                return {"net": [str(int(n.network_address)), n.prefixlen], "slash_zero": n == ipaddress.IPv4Network("0.0.0.0/0"), "is_public": bool(o.is_public())}
            n = getattr(o, field)
            if route in ("ingress", "egress"):
                sz = o.ipv6_slash_zero() if v6 else o.ipv4_slash_zero()
            other = o.ipv4_slash_zero() if v6 else o.ipv6_slash_zero()  # the absent family
            out = {"net": [str(int(n.network_address)), n.prefixlen], "slash_zero": bool(sz)}
            if other is not False:
                out["absent_family_slash_zero"] = other
            return out
        except Exception as e:
            return {"raised": common.exc_class(e)}


def run(report, tier, seed, driver, proofs_ok):
    rng = common.rng_for("C17", seed)
    thorough = tier == "thorough"
    impl = Impl()
    report.rule = (
        "IPv4: all 33 prefix lengths × 16 boundary addresses × every spelling (/l, /0l, dotted netmask, dotted hostmask, bare address) and "
        "a malformed stream, through SecurityGroupIngressProp / EgressProp, the stand-alone ingress / egress resources and the RDS ingress "
        "(is_public); IPv6: all 129 prefix lengths × 12 boundary addresses × spellings (as written, exploded, upper-case short, every "
        "zero-run compressed, embedded IPv4) and a malformed stream; a sample through a resolved Ref in a template. Observables: "
        "(network address, prefix length) after host-bit masking, slash-zero predicates (also of the absent family), RDS is_public. "
        "distinct_nontrivial = distinct (route, text) with host bits set or a non-/l spelling."
    )
    cases = []
    routes4 = ["ingress", "egress", "ingress-resource", "egress-resource", "rds"]
    for l in range(33):
        for a in (ADDR4 if thorough else rng.sample(ADDR4, 6)):
            for text in spellings4(a, l, rng):
                cases.append((text, False, rng.choice(routes4)))
                if thorough or rng.random() < 0.3:
                    cases.append((text, False, "rds"))
    for l in range(129):
        for a in (ADDR6 if thorough else rng.sample(ADDR6, 3)):
            for text in spellings6(a, l, rng):
                cases.append((text, True, rng.choice(routes4[:4])))
    for text in BAD4:
        cases.append((text, False, rng.choice(routes4)))
    for text in BAD6:
        cases.append((text, True, rng.choice(routes4[:4])))
    # private table boundaries for is_public
    for a, l in [(str(n.network_address), n.prefixlen) for n in ipaddress._IPv4Constants._private_networks] + [("100.64.0.0", 10)]:
        net = ipaddress.IPv4Network(f"{a}/{l}")
        for cand in (net, net.supernet() if l > 0 else net, *(list(net.subnets())[:2] if l < 32 else [])):
            cases.append((str(cand), False, "rds"))
        cases.append((f"{ipaddress.IPv4Address(int(net.broadcast_address) + 1 if int(net.broadcast_address) < 2**32 - 1 else 0)}/32", False, "rds"))
    ops = [{"op": "cidr", "text": t, "v6": v6} for t, v6, _ in cases]
    model = driver.run(ops) if driver is not None else [None] * len(ops)
    for (text, v6, route), mo in zip(cases, model):
        io = impl.observe(text, v6, route)
        nontrivial = "net" in io and not text.endswith("/" + str(io["net"][1]))
        try:
            hb = "net" in io and int(ipaddress.ip_interface(text.replace("/0", "/", 1) if False else text).ip) != int(io["net"][0])
        except Exception:
            hb = False
        report.case({"text": text, "route": route}, (route, text) if (nontrivial or hb) else None, sample=(hb and rng.random() < 0.02))
        report.count("route:" + route)
        report.count("family:" + ("6" if v6 else "4"))
        report.count("outcome:" + ("net" if "net" in io else ("invalid" if "invalid" in io else "raised")))
        if "raised" in io:
            report.violation("oracle", "cidr-field-raises-" + io["raised"], op={"text": text, "route": route}, impl=io)
            continue
        if "absent_family_slash_zero" in io:
            report.violation("oracle", "slash-zero-of-absent-field-is-not-false", op={"text": text, "route": route}, impl=io)
        if mo is None:
            continue
        if "driver_error" in mo:
            raise common.InfraError(str(mo))
        want = dict(mo)
        if route != "rds":
            want.pop("is_public", None)
        if want.get("is_public", 0) is None:
            want.pop("is_public")
        got = {k: v for k, v in io.items() if k != "absent_family_slash_zero"}
        if got != want:
            report.disagreements_checked += 1
            what = "is_public-differs" if (got.get("net") == want.get("net") and got.get("slash_zero") == want.get("slash_zero")) else (
                "slash-zero-differs" if got.get("net") == want.get("net") else "stored-network-differs")
            report.violation("correspondence+oracle", what, op={"op": "cidr", "text": text, "v6": v6, "route": route}, impl=got, model=want,
                             oracle="Net.parse4 / parse6 (host bits masked: C17_masked), slashZero (C17_slash_zero), isPublic (C17_rds_public)")
    # absent CIDR
    for group in (False, True):
        mo = driver.run([{"op": "rds_absent", "group": group}])[0] if driver is not None else None
        o = impl.DB(**({"EC2SecurityGroupId": "sg-1"} if group else {}))
        io = {"is_public": bool(o.is_public()), "slash_zero": False}
        s = impl.Ingress(IpProtocol="tcp")
        if s.ipv4_slash_zero() is not False or s.ipv6_slash_zero() is not False:
            report.violation("oracle", "slash-zero-of-absent-field-is-not-false", op={"route": "ingress"})
        report.case({"absent": True, "group": group}, ("absent", group))
        if mo is not None and io != mo:
            report.violation("correspondence+oracle", "is_public-differs", op={"op": "rds_absent", "group": group}, impl=io, model=mo)
    # through a resolved reference
    from pycfmodel import parse

    k = 0
    for text, v6, _ in rng.sample([c for c in cases if c[2] != "rds"], 60 if thorough else 12):
        field = "CidrIpv6" if v6 else "CidrIp"
        t = {"Parameters": {"Cidr": {"Type": "String"}},
             "Resources": {"I": {"Type": "AWS::EC2::SecurityGroupIngress", "Properties": {"IpProtocol": "tcp", "GroupId": "g", field: {"Ref": "Cidr"}}}}}
        direct = impl.observe(text, v6, "ingress-resource")
        try:
            m2 = parse(t).resolve({"Cidr": text})
            n = getattr(m2.Resources["I"].Properties, field)
            via = {"net": [str(int(n.network_address)), n.prefixlen]}
        except Exception as e:
            via = {"invalid": True} if common.exc_class(e) == "ValidationError" else {"raised": common.exc_class(e)}
        k += 1
        report.case({"via_ref": text}, ("ref", text))
        if ("net" in direct) != ("net" in via) or ("net" in direct and direct["net"] != via["net"]):
            report.violation("oracle", "cidr-through-resolved-reference-differs-from-literal", op={"text": text, "v6": v6}, impl={"literal": direct, "via_ref": via})
    report.notes += [
        "IPv6 scope ids (%zone) are not generated; the spelling theorem covers IPv4 (C17_parse4_*), IPv6 parsing is modelled and compared but its spelling relation is not proved (partial)",
        "the interpreter's ipaddress module is trusted for what a text denotes; its private-range table is regenerated on every run",
    ]
