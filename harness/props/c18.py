"""C18 — generic property casting preserves values.
The driver runs `Cast.cast` over an engine table recording what json.loads and pydantic-core answer on every
string leaf (transitively through JSON text), and evaluates the decidable faithfulness predicates on every
conversion the engine makes. Theorem C18_preserves: sound engine ⇒ the cast denotes its input."""
import json
import math

from .. import common

STRINGS = ["potato", "", " ", "true", "TRUE", "False", "yes", "on", "off", "y", "1", "0", "5", "-3", "+3", "05", " 5", "5 ", "1_000", "1e3", "0x10", "1.0",
           "1.5", "-0.25", "12345678901234567890", "20191204", "1575417600", "nan", "inf", "null", "None", "2019-12-04", "2019-12-04T00:00:00",
           "2011-11-04T00:05:23", "2011-11-04 00:05:23", "2011-11-04T00:05:23Z", "2011-11-04T00:05:23+02:00", "2019-13-45", "12:30", "P1D", "2019-12",
           "10.0.0.0/8", "10.0.0.1", "10.1.2.3/8", "0.0.0.0", "::1", "2001:db8::/32", "1.2.3", "256.1.1.1", "arn:aws:s3:::b", "012345678901",
           "[1,2]", "[]", "{}", "{\"a\":1}", "\"quoted\"", "\"5\"", "\"true\"", "[1,\"a\"]", "[\"[1]\"]", "[true,1]", "[1.5,2.5]", "[\"1\",\"2\"]",
           "{\"Ref\":\"x\"}", "{\"Key\":\"k\",\"Value\":\"v\"}", "{\"Statement\":[{\"Effect\":\"Allow\",\"Action\":\"s3:*\",\"Resource\":\"*\"}]}",
           "[{\"Key\":\"k\",\"Value\":\"v\"}]", "é", "١٢٣", "１２", "1,5", "1.", ".5", "1e400", "true ", "tRuE"]


def gen_value(rng, depth=0):
    r = rng.random()
    if depth >= 3 or r < 0.45:
        k = rng.randrange(10)
        if k < 6:
            return rng.choice(STRINGS)
        return rng.choice([True, False, 0, 1, 5, -7, 2**40, 1.5, 1.0, -0.25, 1e300, None])
    if r < 0.7:
        return [gen_value(rng, depth + 1) for _ in range(rng.randrange(0, 4))]
    if r < 0.78:
        return rng.choice([{}, {"Ref": "x"}, {"Key": "k", "Value": "v"}, {"Fn::Sub": "${A}"}, {"Statement": [{"Effect": "Allow", "Action": "s3:Get*", "Resource": "*"}]},
                           {"CidrIp": "10.0.0.0/8", "IpProtocol": "tcp"}, {"StringEquals": {"a": "b"}}])
    return {rng.choice(["a", "b", "Name", "Value", "Enabled", "Port", "When", "Cidr"]) + str(i): gen_value(rng, depth + 1) for i in range(rng.randrange(0, 4))}


class Engine:
    def __init__(self):
        from datetime import date, datetime

        from pydantic import TypeAdapter

        from pycfmodel.model.generic import _Auxiliar
        from pycfmodel.model.types import LooseIPv4Network, LooseIPv6Network, SemiStrictBool

        self.aux = _Auxiliar
        import pycfmodel.model.generic as g

        self.ta_int = TypeAdapter(int)
        self.ta_date = TypeAdapter(getattr(g, "TextDate", date))
        self.ta_dt = TypeAdapter(getattr(g, "TextDatetime", datetime))
        self.v4, self.v6, self.sb = LooseIPv4Network, LooseIPv6Network, SemiStrictBool
        self.strings, self.floats, self.objects = {}, {}, []

    def _try(self, f, *a):
        try:
            return f(*a)
        except Exception:
            return None

    def add_string(self, s):
        if s in self.strings:
            return
        row = {}
        self.strings[s] = row
        try:
            decoded = json.loads(s)
            ok = True
        except Exception:
            ok = False
        if ok and not (isinstance(decoded, float) and (math.isnan(decoded) or math.isinf(decoded))):
            try:
                row["json"] = common.enc(decoded)
            except Exception:
                ok = False
        if ok and "json" in row:
            self.add_value(decoded)
            if isinstance(decoded, list):
                try:
                    res = common.with_timeout(lambda: self.aux(aux=s).aux, 5.0)
                    if isinstance(res, list):
                        row["list"] = [common.enc(x) if not hasattr(x, "model_dump") or type(x).__name__ == "FunctionDict" else common.enc(x.model_dump()) for x in res]
                        for x in res:
                            self.add_value(x if not hasattr(x, "model_dump") else None)
                except (Exception, common.WallClockExceeded):
                    pass
        b = self._try(self.sb, s)
        if isinstance(b, bool):
            row["bool"] = b
        i = self._try(self.ta_int.validate_python, s)
        if isinstance(i, int) and not isinstance(i, bool):
            row["int"] = str(i)
        d = self._try(self.ta_date.validate_python, s)
        if d is not None:
            row["date"] = str(d)
        dt = self._try(self.ta_dt.validate_python, s)
        if dt is not None:
            row["datetime"] = str(dt)
        n4 = self._try(self.v4, s)
        if n4 is not None:
            row["ip4"] = str(n4)
        n6 = self._try(self.v6, s)
        if n6 is not None:
            row["ip6"] = str(n6)

    def add_value(self, v):
        if isinstance(v, str):
            self.add_string(v)
        elif isinstance(v, bool) or v is None:
            pass
        elif isinstance(v, float):
            i = self._try(self.ta_int.validate_python, v)
            if isinstance(i, int):
                self.floats[repr(v)] = str(i)
        elif isinstance(v, list):
            for x in v:
                self.add_value(x)
        elif isinstance(v, dict):
            if v:
                try:
                    res = common.with_timeout(lambda: self.aux(aux=v).aux, 5.0)
                    name = type(res).__name__
                    if name not in ("dict", "FunctionDict", "Generic") and hasattr(res, "model_dump"):
                        self.objects.append([common.enc(v), name])
                        return
                except (Exception, common.WallClockExceeded):
                    pass
            for x in v.values():
                self.add_value(x)

    def wire(self):
        return {"strings": [[s, r] for s, r in self.strings.items()], "floats": [[r, i] for r, i in self.floats.items()], "objects": self.objects}


def cv_of(x):
    """tagged tree of what the implementation's cast returned"""
    import datetime as dt
    import ipaddress

    from pydantic import BaseModel

    if x is None or isinstance(x, (bool, str)):
        return x
    if isinstance(x, int):
        return x
    if isinstance(x, float):
        return {"f": repr(x)}
    if isinstance(x, dt.datetime):
        return {"l": ["datetime", str(x)]}
    if isinstance(x, dt.date):
        return {"l": ["date", str(x)]}
    if isinstance(x, ipaddress.IPv4Network):
        return {"l": ["ip4", str(x)]}
    if isinstance(x, ipaddress.IPv6Network):
        return {"l": ["ip6", str(x)]}
    if isinstance(x, list):
        return [cv_of(v) for v in x]
    if isinstance(x, BaseModel):
        name = type(x).__name__
        if name == "Generic":
            return {"o": [[k, cv_of(v)] for k, v in (x.model_extra or {}).items()]}
        if name == "FunctionDict":
            return {"fn": True}
        return {"model": name}
    if isinstance(x, dict):
        return {"rawdict": True}
    return {"other": type(x).__name__}


def run(report, tier, seed, driver, proofs_ok):
    from pycfmodel.model.generic import _Auxiliar

    rng = common.rng_for("C18", seed)
    thorough = tier == "thorough"
    n = 20000 if thorough else 1500
    report.rule = (
        "cases = JSON values used as a property of an unmodelled resource: every string of a fixed pool of numeric-, boolean-, "
        "date-, address-, JSON-looking and plain strings, raw booleans / integers / floats / null, empty and non-empty objects "
        "(incl. function-shaped and property-model-shaped), arrays, nested to depth 3. For each value the engine table (what "
        "json.loads and each pydantic leaf validator answer for every string reachable through JSON text) is sent with it; the "
        "driver returns Cast.cast and the leaves whose conversion is not faithful. distinct_nontrivial = distinct values "
        "containing a string that some validator converts or JSON-decodes."
    )
    values = [s for s in STRINGS] + [True, False, 0, 1, 1.5, 1.0, -0.25, None, {}, [], [True, 1], [1.5, 2.5], {"a": {}}, [1, "2", {"a": "1"}],
                                      ["2019-12-04", "2011-11-04T00:05:23"], {"DefaultAction": {"Allow": {}}}]
    for _ in range(n):
        values.append(gen_value(rng))
    ops, rows = [], []
    for v in values:
        eng = Engine()
        eng.add_value(v)
        try:
            res = common.with_timeout(_Auxiliar.cast, 5.0, json.loads(json.dumps(v)))
            io = {"cv": cv_of(res)}
        except (Exception, common.WallClockExceeded) as e:
            io = {"raised": common.exc_class(e)}
        ops.append({"op": "cast", "value": common.enc(v), "engine": eng.wire(), "fuel": 8})
        rows.append((v, io, eng))
    model = driver.run(ops, timeout=1800) if driver is not None else [None] * len(ops)
    for (v, io, eng), op, mo in zip(rows, ops, model):
        converts = any(len(r) > 0 for r in eng.strings.values())
        report.case({"value": v}, common.jdump(common.enc(v)) if converts else None, sample=converts and len(common.jdump(common.enc(v))) < 120 and rng.random() < 0.05)
        report.count("kind:" + type(v).__name__)
        if "raised" in io:
            report.violation("oracle", "cast-raises-" + io["raised"], op={"value": v}, impl=io)
            continue
        if mo is None:
            continue
        if "driver_error" in mo:
            raise common.InfraError(str(mo)[:500])
        if io["cv"] != mo["cv"]:
            report.disagreements_checked += 1
            what = classify(v, io["cv"], mo["cv"])
            report.violation("correspondence+oracle", what, op={"op": "cast", "value": v}, impl=io["cv"], model=mo["cv"],
                             oracle="Cast.cast (control flow of _Auxiliar.cast; C18_preserves, C18_scalars_kept, C18_shape)")
        for s, c in mo.get("unsound", []):
            if leaf_used(io["cv"], c):
                report.violation("oracle", "unfaithful-conversion:" + kind_of(c), op={"value": v, "string": s}, impl={"converted_to": c},
                                 oracle="Cast.leafSound: the text is not a literal of the type it was converted to (C18_bool_only_literals, C18_timestamp_needs_shape)")
        for s in mo.get("unsound_lists", []):
            row = eng.strings.get(s, {})
            dec, res = json.loads(s), row.get("list", [])
            sub = "boolean-read-as-integer" if any(isinstance(a, bool) and isinstance(b, int) and not isinstance(b, bool) for a, b in zip(dec, res)) else "other"
            report.violation("oracle", "unfaithful-conversion:json-text-list:" + sub, op={"value": v, "string": s}, impl={"cv": io["cv"]},
                             oracle="Cast.elemsSound: an element of a list written as JSON text was converted to something it does not denote")
    report.notes += [
        "pydantic-core's leaf validators and json.loads are the trusted engine; each of their answers is checked for faithfulness by a Lean-defined decidable predicate",
        "numerically faithful lax integer spellings ('05', ' 5', '1_000', '+3', '1.0') are accepted as denoting the same integer (a leading-zero identifier such as an account id loses its zeros: recorded, not flagged)",
    ]


def kind_of(c):
    if isinstance(c, dict) and "l" in c:
        return c["l"][0]
    return type(c).__name__


def leaf_used(cv, c):
    if cv == c:
        return True
    if isinstance(cv, list):
        return any(leaf_used(x, c) for x in cv)
    if isinstance(cv, dict) and "o" in cv:
        return any(leaf_used(x, c) for _, x in cv["o"])
    return False


def classify(v, icv, mcv):
    def find(a, b):
        if type(a) != type(b):
            return (a, b)
        if isinstance(a, list) and isinstance(b, list) and len(a) == len(b):
            for x, y in zip(a, b):
                r = find(x, y)
                if r:
                    return r
            return None
        if isinstance(a, dict) and isinstance(b, dict) and "o" in a and "o" in b and len(a["o"]) == len(b["o"]):
            for (k1, x), (k2, y) in zip(a["o"], b["o"]):
                if k1 != k2:
                    return (a, b)
                r = find(x, y)
                if r:
                    return r
            return None
        return None if a == b else (a, b)

    d = find(icv, mcv)
    if d is None:
        return "cast-differs"
    a, b = d
    if isinstance(b, dict) and "f" in b:
        return "float-does-not-stay-a-number"
    if isinstance(b, bool) and not isinstance(a, bool):
        return "json-boolean-does-not-stay-a-boolean"
    if b == {"o": []}:
        return "empty-object-does-not-stay-an-empty-object"
    if isinstance(b, dict) and "l" in b and isinstance(a, dict) and "l" in a:
        return "typed-value-changes-type"
    return "cast-differs"
