"""C02 — conditions, conditional resources, Fn::If and AWS::NoValue.
Correspondence: `Template.resolveT` (conditions by name with the cycle-set semantics, resource gating,
Fn::If, NoValue pruning) against CFModel.resolve; plus the metamorphic oracle on the implementation alone:
permuting the declaration order of Conditions must not change any condition's value."""
import copy

from .. import common, tmpl


def run_cases(report, driver, cases, prop, what_prefix=""):
    """cases: list of (template, extra). Returns list of (template, extra, impl_out, model_out, m2)."""
    parsed = []
    for t, extra in cases:
        try:
            m = tmpl.parse(t)
        except Exception as e:
            report.count("template-does-not-parse:" + common.exc_class(e))
            continue
        parsed.append((t, extra, m))
    ops = [tmpl.model_op(m, extra) for (_, extra, m) in parsed]
    model = driver.run(ops) if (driver is not None and ops) else [None] * len(ops)
    out = []
    for (t, extra, m), mo in zip(parsed, model):
        io, m2, _ = tmpl.impl_tresolve(m, extra)
        if mo is not None and "driver_error" in mo:
            raise common.InfraError(f"driver error {mo}")
        out.append((t, extra, io, mo, m2))
    return out


CORPUS = [
    # D4: forward reference
    ({"Conditions": {"B": {"Fn::Not": [{"Condition": "A"}]}, "A": {"Fn::Equals": ["x", "x"]}}, "Resources": {"R": {"Type": "Custom::X", "Condition": "B", "Properties": {"a": "b"}}}}, {}),
    # mutual cycle and a condition depending on a cyclic one
    ({"Conditions": {"A": {"Fn::Not": [{"Condition": "B"}]}, "B": {"Fn::Not": [{"Condition": "A"}]}, "C": {"Fn::Or": [{"Condition": "A"}, {"Condition": "D"}]}, "D": {"Fn::Equals": ["1", "1"]}}, "Resources": {}}, {}),
    ({"Conditions": {"S": {"Condition": "S"}}, "Resources": {"R": {"Type": "Custom::X", "Condition": "S"}, "Q": {"Type": "Custom::X", "Condition": "Nope"}}}, {}),
    ({"Conditions": {"T": {"Fn::Equals": ["a", "a"]}}, "Resources": {"R": {"Type": "Custom::X", "Properties": {"L": ["x", {"Ref": "AWS::NoValue"}, {"Fn::If": ["T", {"Ref": "AWS::NoValue"}, "y"]}], "O": {"Fn::If": ["T", "yes", "no"]}, "Gone": {"Ref": "AWS::NoValue"}}}}}, {}),
]


def permute_conditions(rng, t):
    t2 = copy.deepcopy(t)
    items = list(t2.get("Conditions", {}).items())
    rng.shuffle(items)
    t2["Conditions"] = dict(items)
    return t2


def run(report, tier, seed, driver, proofs_ok):
    rng = common.rng_for("C02", seed)
    thorough = tier == "thorough"
    n = 12000 if thorough else 500
    report.rule = (
        "cases = (template, extra_params): 2–9 conditions built from And/Or/Not/Equals/Condition with acyclic, cyclic, self "
        "and undeclared references, declared in shuffled order; resources gated by declared / undeclared / no Condition, "
        "with Fn::If and AWS::NoValue in lists, object members and optional properties. Observables: the resolved "
        "condition table and the resolved resource dictionaries handed to the final re-validation, and the keys of the "
        "resulting model. Each template is also re-run with its Conditions section permuted (metamorphic oracle on the "
        "implementation alone). distinct_nontrivial = distinct templates with at least one condition reference or Fn::If."
    )
    cases = list(CORPUS)
    for _ in range(n):
        cases.append(tmpl.gen_template(rng, max_depth=2))
    results = run_cases(report, driver, cases, "C02")
    for t, extra, io, mo, m2 in results:
        txt = common.jdump(t.get("Conditions", {})) + common.jdump(t["Resources"])
        nontrivial = '"Condition"' in txt or "Fn::If" in txt
        report.case({"template": t, "extra": extra}, common.jdump(t) if nontrivial else None, sample=nontrivial and len(common.jdump(t)) < 700)
        report.count("conditions:%d" % min(len(t.get("Conditions", {})), 9))
        if "raised" in io:
            report.count("impl-raised:" + io["raised"])
        if mo is None:
            continue
        if "outside_domain" in mo:
            report.count("outside-typed-fragment")
        else:
            mc = common.dec(mo["conditions"])
            mr = common.dec(mo["resources"])
            if "conditions" in io and io["conditions"] != mc:
                report.disagreements_checked += 1
                diff = sorted(k for k in set(mc) | set(io["conditions"]) if mc.get(k) != io["conditions"].get(k))
                report.violation("correspondence+oracle", "condition-value-differs", op={"template": t, "extra": extra, "conditions_that_differ": diff},
                                 impl=io["conditions"], model=mc,
                                 oracle="Template.condTable evaluates conditions by name (C02_order: independent of declaration order; cyclic/undeclared references false)")
            elif "resources" in io and sorted(io["resources"]) != sorted(mr):
                report.disagreements_checked += 1
                report.violation("correspondence+oracle", "resource-presence-differs", op={"template": t, "extra": extra}, impl=sorted(io["resources"]), model=sorted(mr),
                                 oracle="C02_presence: a resource is absent iff its Condition names a declared condition that is false")
            elif "resources" in io and io["resources"] != mr:
                report.disagreements_checked += 1
                bad = [k for k in mr if io["resources"].get(k) != mr[k]]
                report.violation("correspondence+oracle", "resolved-resource-differs", op={"template": t, "extra": extra, "resource": bad[:1]},
                                 impl={k: io["resources"].get(k) for k in bad[:1]}, model={k: mr[k] for k in bad[:1]},
                                 oracle="Spec.resolve (Fn::If branch selection, AWS::NoValue pruning: C02_if, C02_novalue_*)")
            elif "raised" in io and "conditions" not in io:
                report.violation("oracle", "resolve-raises-before-revalidation:" + io["raised"], op={"template": t, "extra": extra}, impl=io)
        if m2 is not None and "resources" in io and sorted(m2.Resources) != sorted(io["resources"]):
            report.violation("oracle", "final-model-resource-keys-differ", op={"template": t, "extra": extra})
        if m2 is not None and dict(m2.Conditions) != io.get("conditions"):
            report.violation("oracle", "final-model-conditions-differ", op={"template": t, "extra": extra}, impl={"model": dict(m2.Conditions), "handed": io.get("conditions")})

    # metamorphic: permuted declaration order, implementation alone
    k = 0
    for t, extra, io, mo, m2 in results[: (3000 if thorough else 200)]:
        if "conditions" not in io or len(t.get("Conditions", {})) < 2:
            continue
        t2 = permute_conditions(rng, t)
        try:
            io2, _, _ = tmpl.impl_tresolve(tmpl.parse(t2), extra)
        except Exception:
            continue
        k += 1
        report.case({"permuted": True}, None)
        if io2.get("conditions") != io["conditions"]:
            report.violation("oracle", "condition-value-depends-on-declaration-order", op={"template": t, "permuted_conditions": list(t2["Conditions"]), "extra": extra},
                             impl={"original": io["conditions"], "permuted": io2.get("conditions")},
                             oracle="same template with the Conditions section reordered")
    report.extra["metamorphic_permutations"] = k
    report.notes += [
        "the model's input is the parsed model's dump (parsing is C14/C15/C19 territory)",
        "cycle-set reading: a reference to a condition that lies on a reference cycle reads false (the depth-first reading is not order-independent)",
    ]
