"""C10 — expand_actions changes only Action/NotAction text elements and is idempotent on Action.
Correspondence: `Expand.walk` (proved to satisfy the frame relation C10_frame) against
`action_expander.expand_actions` on plain trees and `CFModel.expand_actions()` on whole templates."""
import copy

from .. import common, gen


def type_tree(x):
    """class names of a pydantic object graph (to see that model classes are preserved)"""
    from pydantic import BaseModel

    if isinstance(x, BaseModel):
        d = {}
        for name in list(type(x).model_fields) + list((x.model_extra or {}).keys()):
            d[name] = type_tree(getattr(x, name, None))
        return {"__class__": type(x).__name__, "fields": d}
    if isinstance(x, list):
        return [type_tree(v) for v in x]
    if isinstance(x, dict):
        return {k: type_tree(v) for k, v in x.items()}
    return type(x).__name__


def strip_action_types(t):
    """type tree with Action/NotAction entries normalised (their value legitimately changes str -> list)"""
    if isinstance(t, dict):
        return {k: ("<action>" if k in ("Action", "NotAction") and not isinstance(v, dict) else strip_action_types(v)) for k, v in t.items()}
    if isinstance(t, list):
        return [strip_action_types(v) for v in t]
    return t


def gen_tree(rng, depth=0):
    """plain JSON trees with Action / NotAction keys at random places and of every value kind"""
    r = rng.random()
    if depth >= 4 or r < 0.25:
        return rng.choice(["s3:Get*", "x", 5, True, None, "iam:*", 1.5])
    if r < 0.5:
        return [gen_tree(rng, depth + 1) for _ in range(rng.randrange(0, 4))]
    d = {}
    for _ in range(rng.randrange(0, 5)):
        k = rng.choice(["Action", "NotAction", "Action", "Statement", "Rules", "Metadata", "a", "b", "action", "RuleAction", "DefaultAction",
                        "NotificationAction", "Actions", "NotActions", "ActionType", "NOTACTION", "XNotAction", "Action "])
        if k not in ("Statement", "Rules", "Metadata", "a", "b"):
            kind = rng.randrange(8)
            if kind == 0:
                v = gen.gen_pattern(rng)
            elif kind == 1:
                v = [gen.gen_pattern(rng) for _ in range(rng.randrange(0, 4))]
            elif kind == 2:
                v = {"Block": {}, "Action": "sqs:Send*"}
            elif kind == 3:
                v = ["s3:Get*", {"Type": "forward"}]
            elif kind == 4:
                v = None
            elif kind == 5:
                v = rng.choice([5, True, 1.5])
            elif kind == 6:
                v = [["s3:Get*"], "ec2:Run*"]
            else:
                v = gen_tree(rng, depth + 1)
        else:
            v = gen_tree(rng, depth + 1)
        d[k] = v
    return d


def specific(v):
    """replace catalogue-wide patterns so outputs stay small"""
    return v


def run(report, tier, seed, driver, proofs_ok):
    import pycfmodel.action_expander as ae
    from pycfmodel.model.cf_model import CFModel

    rng = common.rng_for("C10", seed)
    thorough = tier == "thorough"
    report.rule = (
        "cases: (a) plain JSON trees (depth ≤ 4) with Action/NotAction keys holding every value kind (pattern, list of "
        "patterns, object, mixed list, null, number, nested list) walked by action_expander.expand_actions vs "
        "Expand.walk; (b) whole templates (IAM-bearing modelled resources + unmodelled resources with object-valued "
        "Action: WAF rules, Lambda permissions, listener rules, Metadata) through CFModel.expand_actions(): dump "
        "after = walk(dump before) on Resources and identical elsewhere, classes preserved, second application "
        "leaves Action values unchanged. distinct_nontrivial = distinct inputs containing at least one Action/NotAction key."
    )
    n_trees = 3000 if thorough else 150
    n_templates = 600 if thorough else 40

    trees = [
        {"RuleAction": "allow", "DefaultAction": "s3:Get*", "Actions": ["ec2:Run*"], "NotActions": "iam:*", "action": "sqs:*", "XNotAction": ["sns:*"]},
        {"Action": {"Block": {}}},  # D10
        {"Rules": [{"Action": {"Count": {}}, "Statement": {"Action": "s3:Get*"}}]},
        {"Action": ["s3:Get*", {"x": 1}]},
        {"Action": 5},
        {"Action": None, "NotAction": ["s3:*", "ec2:*"]},
        {"NotAction": []},
        [{"Action": "S3:GETOBJECT"}, [{"Action": "a.c"}]],
    ]
    for _ in range(n_trees):
        trees.append(gen_tree(rng))

    ops = [{"op": "xexpand", "tree": common.enc(t)} for t in trees]
    model = driver.run(ops) if driver is not None else [None] * len(ops)
    for t, op, mo in zip(trees, ops, model):
        has_action = '"Action"' in common.jdump(op) or '"NotAction"' in common.jdump(op)
        report.case(t, common.jdump(op["tree"]) if has_action else None, sample=has_action and len(common.jdump(t)) < 200)
        report.count("kind:tree")
        try:
            io = {"tree": common.canon(ae.expand_actions(copy.deepcopy(t)))}
        except Exception as e:
            io = {"raised": common.exc_class(e)}
        report.count("outcome:" + ("raised" if "raised" in io else "ok"))
        if mo is None:
            continue
        if "driver_error" in mo:
            raise common.InfraError(f"driver error: {mo}")
        mo = {"tree": common.dec(mo["tree"])}
        if io != mo:
            report.disagreements_checked += 1
            what = "expand_actions-raises-" + io["raised"] if "raised" in io else "walk-result-differs"
            report.violation(
                "correspondence+oracle", what, op={"op": "xexpand", "tree": t}, impl=io, model=mo,
                oracle="Expand.walk satisfies C10_frame / C10_object_action_kept / C10_total; the implementation differs on this tree",
            )

    # whole templates
    tmpl_ops, tmpls = [], []
    for i in range(n_templates):
        res = {}
        for j in range(rng.randrange(1, 5)):
            if rng.random() < 0.55:
                r, _ = gen.gen_iam_resource(rng, tag=f"T{i}R{j}", with_condition=True)
            else:
                r = gen.gen_generic_action_resource(rng)
            res[f"R{j}"] = r
        t = {"Resources": res}
        if rng.random() < 0.4:
            t["Metadata"] = {"Action": "s3:*", "Inner": {"NotAction": ["ec2:*"]}}
        if rng.random() < 0.3:
            t["Parameters"] = {"P": {"Type": "String", "Default": "Action"}}
        tmpls.append(t)
    # statements whose conditions hold every typed leaf (bytes, dates, networks, booleans): none of them is action text
    typed_cond = {"BinaryEquals": {"k": "QmluYXJ5VmFsdWVJbkJhc2U2NA=="}, "ForAnyValue:BinaryEquals": {"k2": ["QQ==", "QUI="]}, "DateLessThan": {"aws:CurrentTime": "2020-01-01T00:00:00Z"},
                  "IpAddress": {"aws:SourceIp": ["10.0.0.0/8", "::/0"]}, "Bool": {"aws:SecureTransport": "true"}, "NumericLessThan": {"s3:max-keys": 10}}
    st = {"Effect": "Allow", "Action": ["s3:Get*"], "Resource": "*", "Principal": "*", "Condition": typed_cond}
    tmpls.insert(0, {"Resources": {"M": {"Type": "AWS::IAM::ManagedPolicy", "Properties": {"PolicyDocument": {"Statement": [st]}}},
                                   "G": {"Type": "AWS::Logs::ResourcePolicy", "Properties": {"PolicyName": "p", "PolicyDocument": {"Statement": [copy.deepcopy(st)]}}},
                                   "T": {"Type": "Custom::Tuple", "Properties": {"Action": "s3:Put*", "Blob": "QUJD", "Ports": [1, 2]}}}})
    for t in tmpls:
        report.case(t, common.jdump(t), sample=len(common.jdump(t)) < 400)
        report.count("kind:template")
        try:
            m = CFModel(**copy.deepcopy(t))
        except Exception as e:
            report.count("template-does-not-parse:" + common.exc_class(e))
            continue
        before = m.model_dump()
        types_before = {k: type_tree(v) for k, v in m.Resources.items()}
        try:
            m2 = m.expand_actions()
        except Exception as e:
            report.violation("oracle", "CFModel.expand_actions-raises-" + common.exc_class(e), op={"template": t}, impl={"raised": repr(e)[:300]},
                             oracle="expand_actions must keep object-valued Action elements (C10) and never fail on a parsed template")
            continue
        after = m2.model_dump()
        if m.model_dump() != before:
            report.violation("oracle", "receiver-mutated-by-expand_actions", op={"template": t})
        types_after = {k: type_tree(v) for k, v in m2.Resources.items()}
        if strip_action_types(types_before) != strip_action_types(types_after):
            report.violation("oracle", "model-class-changed-by-expand_actions", op={"template": t}, impl={"before": types_before, "after": types_after})
        for sec in before:
            if sec != "Resources" and common.canon(before[sec]) != common.canon(after.get(sec)):
                report.violation("oracle", f"section-{sec}-changed-by-expand_actions", op={"template": t})
        tmpl_ops.append((t, before, after, m2))
    ops = [{"op": "xexpand", "tree": common.enc(b["Resources"])} for (_, b, _, _) in tmpl_ops]
    model = driver.run(ops) if (driver is not None and ops) else [None] * len(ops)
    for (t, before, after, m2), mo in zip(tmpl_ops, model):
        if mo is None:
            continue
        if "driver_error" in mo:
            raise common.InfraError(f"driver error: {mo}")
        want = common.dec(mo["tree"])
        got = common.canon(after["Resources"])
        if got != want:
            report.disagreements_checked += 1
            report.violation("correspondence+oracle", "template-level-expansion-differs", op={"template": t}, impl=got, model=want,
                             oracle="dump after expand_actions must equal Expand.walk of the dump before (C10_frame)")
        # idempotence on Action: second application leaves every Action value unchanged.
        # The implementation re-expands every listed action against the whole catalogue (|list| x 18k regex
        # matches), so the second application is only run when the first result is small.
        if sum(len(v) if isinstance(v, list) else 1 for _, v in collect_actions(after["Resources"], notaction=True)) > 400:
            report.count("idempotence-skipped-large-expansion")
            continue
        report.count("idempotence-checked")
        try:
            after2 = m2.expand_actions().model_dump()
        except Exception as e:
            report.violation("oracle", "second-expand_actions-raises-" + common.exc_class(e), op={"template": t})
            continue
        a1, a2 = collect_actions(after["Resources"]), collect_actions(after2["Resources"])
        if a1 != a2:
            report.violation("oracle", "action-not-idempotent", op={"template": t}, impl={"first": a1[:3], "second": a2[:3]})
    report.notes += [
        "NotAction is not claimed idempotent (its re-expansion is a complement by C09); scope decision recorded in DESIGN.md",
        "idempotence on the shipped catalogue uses C10_idem_action with NoWild / NodupCI from the kernel-checked catalogue facts",
    ]


def collect_actions(x, path=(), notaction=False):
    out = []
    keys = ("Action", "NotAction") if notaction else ("Action",)
    if isinstance(x, dict):
        for k, v in x.items():
            if k in keys and (isinstance(v, str) or (isinstance(v, list) and all(isinstance(e, str) for e in v))):
                out.append((path + (k,), v))
            else:
                out += collect_actions(v, path + (k,), notaction)
    elif isinstance(x, list):
        for i, v in enumerate(x):
            out += collect_actions(v, path + (i,), notaction)
    return out
