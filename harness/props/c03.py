"""C03 — a resolved model is concrete and is a fixed point of resolution.
Direct oracles on the implementation: a walk of the resolved object graph for function objects, every condition a
bool, and resolve(resolve(m)) == resolve(m); plus correspondence of the second pass with the model
(Spec.resolve on the dump of the resolved model must return it unchanged: C03_idem on stable values)."""
import copy

from .. import common, tmpl


def find_functions(x, path=()):
    """paths of FunctionDict instances and of single-key function-shaped dicts in a pydantic object graph"""
    from pydantic import BaseModel

    from pycfmodel.constants import IMPLEMENTED_FUNCTIONS

    out = []
    if isinstance(x, BaseModel):
        if type(x).__name__ == "FunctionDict":
            return [path]
        names = list(type(x).model_fields) + list((x.model_extra or {}).keys())
        for n in names:
            out += find_functions(getattr(x, n, None), path + (n,))
    elif isinstance(x, dict):
        if len(x) == 1 and next(iter(x)) in IMPLEMENTED_FUNCTIONS:
            out.append(path)
        for k, v in x.items():
            out += find_functions(v, path + (k,))
    elif isinstance(x, (list, tuple)):
        for i, v in enumerate(x):
            out += find_functions(v, path + (i,))
    return out


CORPUS = [
    # D20: a parameter whose value is itself an SSM reference is resolved only on the second pass
    ({"Parameters": {"P": {"Type": "String"}}, "Resources": {"B": {"Type": "AWS::S3::Bucket", "Properties": {"BucketName": {"Ref": "P"}}}}}, {"P": "{{resolve:ssm:/cfg/name:1}}", "/cfg/name:1": "bucket"}),
    # boolean-looking parameter text in a string-typed property
    ({"Parameters": {"P": {"Type": "String", "Default": "True"}}, "Resources": {"B": {"Type": "AWS::S3::Bucket", "Properties": {"Tags": [{"Key": "k", "Value": {"Ref": "P"}}]}}}}, {}),
    # the value fetched from SSM is itself boolean-looking text (known finding: fetched text is not normalised)
    ({"Resources": {"B": {"Type": "AWS::S3::Bucket", "Properties": {"Tags": [{"Key": "k", "Value": "{{resolve:ssm:/cfg/flag}}"}]}}}}, {"/cfg/flag": "TRUE"}),
    # text that json.loads reads as a non-finite number, reaching an unmodelled property through Ref
    ({"Parameters": {"W": {"Type": "String", "Default": "1e999"}, "X": {"Type": "String", "Default": "Infinity"}, "Y": {"Type": "String", "Default": "NaN"}, "Z": {"Type": "String", "Default": "-Infinity"}},
      "Resources": {"R": {"Type": "Custom::RoutingRecord", "Properties": {"Weight": {"Ref": "W"}, "Other": [{"Ref": "X"}, {"Ref": "Y"}], "Deep": {"k": {"Ref": "Z"}}}}}}, {}),
    # text assembled by Fn::Join
    ({"Resources": {"B": {"Type": "AWS::S3::Bucket", "Properties": {"Tags": [{"Key": "k", "Value": {"Fn::Join": ["", ["TR", "UE"]]}}]}}}}, {}),
]


def run(report, tier, seed, driver, proofs_ok):
    rng = common.rng_for("C03", seed)
    thorough = tier == "thorough"
    n = 8000 if thorough else 400
    report.rule = (
        "cases = (template, extra_params) from the whole-template generator (all sixteen functions in typed and generic "
        "positions, conditions, parameters of every kind incl. boolean-looking and SSM-looking values). For each: walk of the "
        "resolved object graph for FunctionDict instances and function-shaped dicts; every condition a bool; the resolved model "
        "resolved again with the same parameters must equal itself. distinct_nontrivial = distinct templates that resolve and "
        "contain at least one function."
    )
    cases = [(t, e) for t, e in CORPUS] + [tmpl.gen_template(rng, max_depth=3) for _ in range(n)]
    second = []  # (template, extra, model op for the second pass, implementation stable?)
    unstable = []  # first passes that are not fixed points, with the model op of the first pass
    for t, extra in cases:
        try:
            m = tmpl.parse(t)
        except Exception as e:
            report.count("does-not-parse:" + common.exc_class(e))
            continue
        try:
            m1 = common.with_timeout(m.resolve, 20.0, copy.deepcopy(extra))
        except (Exception, common.WallClockExceeded) as e:
            report.count("does-not-resolve:" + common.exc_class(e))
            report.case({"template": "…"}, None)
            continue
        has_fn = '"Fn::' in common.jdump(t) or '"Ref"' in common.jdump(t)
        report.case({"template": t, "extra": extra}, common.jdump(t) if has_fn else None, sample=has_fn and len(common.jdump(t)) < 600 and rng.random() < 0.03)
        left = find_functions(m1.Resources, ("Resources",)) + find_functions(m1.Conditions, ("Conditions",))
        if left:
            report.violation("oracle", "function-object-remains-after-resolve", op={"template": t, "extra": extra, "paths": [list(map(str, p)) for p in left[:3]]},
                             oracle="walk of the resolved object graph (C03_concrete)")
        bad = {k: v for k, v in m1.Conditions.items() if not isinstance(v, bool)}
        if bad:
            report.violation("oracle", "condition-not-a-boolean-after-resolve", op={"template": t, "extra": extra}, impl={k: repr(v) for k, v in bad.items()})
        try:
            m2 = common.with_timeout(m1.resolve, 20.0, copy.deepcopy(extra))
        except (Exception, common.WallClockExceeded) as e:
            report.violation("oracle", "second-resolve-raises-" + common.exc_class(e), op={"template": t, "extra": extra}, impl={"message": str(e)[:200]})
            continue
        try:
            # stability at the level of values (what the model speaks about): dumps equal modulo the typed values re-validation restores
            value_stable = untyped(common.canon(m2.model_dump()["Resources"])) == untyped(common.canon(m1.model_dump()["Resources"]))
            second.append((t, extra, tmpl.model_op(m1, extra), value_stable, common.canon(m1.model_dump()["Resources"])))
        except Exception as e:
            report.count("second-pass-op-not-encodable:" + common.exc_class(e))
        if m2 != m1:
            d1, d2 = common.canon(m1.model_dump()["Resources"]), common.canon(m2.model_dump()["Resources"])
            diff = first_diff(d1, d2) or first_diff(common.canon(m1.model_dump()), common.canon(m2.model_dump()))
            what = "resolve-is-not-a-fixed-point"
            sub = "other"
            if untyped(d1) == untyped(d2) and untyped(common.canon(m1.model_dump())) == untyped(common.canon(m2.model_dump())):
                # the same values: only the class of a model / the type of a leaf differs (an object no property model accepted
                # at first is accepted by one once its members are concrete text)
                from .c15 import first_diff as tdiff, tcanon

                td = tdiff(tcanon(m1), tcanon(m2))
                # a model class changes (Generic -> Tag / Policy …: finding D35b), or only the type of a leaf does
                sub = "same-values-different-classes-or-leaf-types" if (td and td[0] and td[0][-1] == "__class__") else "same-values-different-leaf-types"
            elif diff:
                a, b = diff[1], diff[2]
                if isinstance(a, str) and isinstance(b, str) and a.lower() == b and a != b:
                    sub = "boolean-looking-text-lowercased-on-second-pass"
                elif isinstance(a, str) and "{{resolve:ssm:" in a:
                    sub = "ssm-reference-resolved-on-second-pass"
            unstable.append((t, extra, what + ":" + sub, diff, tmpl.model_op(m, extra), d1))
    # an unstable first pass is the recorded finding only when the model (the specified semantics of each function)
    # produces the same first pass: text that a function is *specified* to return as is. A first pass that differs from
    # the model's is something else (e.g. a placeholder value no longer normalised) and is reported on its own.
    firsts = driver.run([op for _, _, _, _, op, _ in unstable]) if unstable else []
    for (t, extra, what, diff, _, d1), out in zip(unstable, firsts):
        via = via_of(t, extra, diff)
        if not out.get("outside_domain") and "resources" in out and not same_first_pass(common.canon(common.dec(out["resources"])), d1):
            via = "first-pass-differs-from-model"
        report.violation("oracle", what, op={"template": t, "extra": extra}, impl={"path": diff[0] if diff else None, "first": diff[1] if diff else None, "second": diff[2] if diff else None},
                         oracle="m.resolve(p).resolve(p) == m.resolve(p)", via=via)
    # correspondence of the second pass: the model, run on the dump of the resolved model, is stable exactly when the
    # implementation is (C03_idem is a statement about the model's stable values)
    outs = driver.run([op for _, _, op, _, _ in second])
    for (t, extra, op, impl_stable, d1), out in zip(second, outs):
        if out.get("outside_domain") or "error" in out:
            report.count("second-pass-outside-model-domain")
            continue
        # the implementation re-validates the second pass's text into the typed values (dates, networks, booleans, numbers) it came from
        model_stable = untyped(common.canon(common.dec(out["resources"]))) == untyped(d1)
        report.count("second-pass-compared:" + ("stable" if impl_stable else "unstable"))
        if model_stable != impl_stable:
            report.violation("correspondence", "second-pass-stability-differs", op={"template": t, "extra": extra},
                             impl={"stable": impl_stable}, model={"stable": model_stable})
    report.notes += [
        "Mappings and parameter values contain no function objects (CloudFormation's own rule; the excluded point is recorded in DESIGN.md)",
    ]


def untyped(x):
    if isinstance(x, tuple) and len(x) == 3 and x[0] == "leaf":
        return x[2]
    if isinstance(x, tuple) and len(x) == 2 and x[0] == "f":
        return x[1]
    if isinstance(x, bool):
        return "true" if x else "false"
    if isinstance(x, (int, float)):
        return str(x)
    if isinstance(x, dict):
        return {k: untyped(v) for k, v in x.items()}
    if isinstance(x, list):
        return [untyped(v) for v in x]
    return x


def same_first_pass(model, impl):
    """the model's first pass against the implementation's, which has been through the final re-validation: a typed field
    holds what pydantic made of the value (a boolean or a number stored in a mapping arrives in a text field as str(value))"""
    if isinstance(model, bool) and isinstance(impl, str):
        return impl.lower() == ("true" if model else "false")
    if isinstance(model, (int, float)) and not isinstance(model, bool) and isinstance(impl, str):
        return impl == str(model)
    if isinstance(model, dict) and isinstance(impl, dict):
        # optional fields the typed model fills in with None are not in the resolver's output
        a = {k: v for k, v in model.items() if v is not None}
        b = {k: v for k, v in impl.items() if v is not None}
        return set(a) == set(b) and all(same_first_pass(a[k], b[k]) for k in a)
    if isinstance(model, list) and isinstance(impl, list):
        return len(model) == len(impl) and all(same_first_pass(a, b) for a, b in zip(model, impl))
    return untyped(model) == untyped(impl)


SSM_TEXT = "{{resolve:ssm:"


def via_of(t, extra, diff):
    """how the unstable text came about (tells the recorded finding from anything new): the template is walked along
    the path of the first difference down to the expression that produced the text"""
    if not diff:
        return "unknown"
    path, first = diff[0], diff[1]
    cur = t.get("Resources", {})
    for seg in path:
        if isinstance(cur, dict) and len(cur) == 1 and (next(iter(cur)).startswith("Fn::") or next(iter(cur)) in ("Ref", "Condition")):
            break
        if isinstance(cur, dict) and seg in cur:
            cur = cur[seg]
        elif isinstance(cur, list) and seg.isdigit() and int(seg) < len(cur):
            cur = cur[int(seg)]
        else:
            return "unknown"
    ssm_fetched = isinstance(first, str) and any(isinstance(v, str) and v == first for v in (extra or {}).values())
    if isinstance(cur, str):
        return "ssm-value" if cur.startswith(SSM_TEXT) and ssm_fetched else "literal"
    if isinstance(cur, dict) and len(cur) == 1:
        name = next(iter(cur))
        if name in ("Ref", "Fn::ImportValue") and isinstance(cur[name], str):
            decl = (t.get("Parameters") or {}).get(cur[name], {})
            value = (extra or {}).get(cur[name], decl.get("Default") if isinstance(decl, dict) else None)
            if isinstance(value, str) and value.startswith(SSM_TEXT) and ssm_fetched:
                return "ssm-value"
            return "reference"
        return "function-output"
    return "unknown"


def first_diff(a, b, path=()):
    if type(a) != type(b):
        return (list(map(str, path)), a, b)
    if isinstance(a, dict):
        for k in a:
            if k not in b:
                return (list(map(str, path + (k,))), a[k], None)
            r = first_diff(a[k], b[k], path + (k,))
            if r:
                return r
        for k in b:
            if k not in a:
                return (list(map(str, path + (k,))), None, b[k])
        return None
    if isinstance(a, list):
        if len(a) != len(b):
            return (list(map(str, path)), a, b)
        for i, (x, y) in enumerate(zip(a, b)):
            r = first_diff(x, y, path + (i,))
            if r:
                return r
        return None
    return None if a == b else (list(map(str, path)), a, b)
