"""C11 — each IAM condition operator performs its documented comparison (single key, single value).
C12 — condition blocks combine operators, keys, values and qualifiers (shares `run_blocks`)."""
from .. import common, gencond


def evaluate(blocks_ctx, driver, report, prop):
    """blocks_ctx: list of (raw block, ctx). Returns list of (raw, ctx, impl result, model result, tblock)."""
    from pycfmodel.model.resources.properties.statement_condition import StatementCondition

    ops, rows = [], []
    for raw, ctx_fn in blocks_ctx:
        try:
            cond = StatementCondition.model_validate(raw)
        except Exception as e:
            report.count("block-rejected:" + common.exc_class(e))
            continue
        tb = gencond.typed_block(cond)
        ctx = ctx_fn(tb) if callable(ctx_fn) else ctx_fn
        # names as written by the user (with colons), values as typed by the model
        names = {n.replace(":", ""): n for n in raw}
        wire_block = [[names.get(n, n), [[k, gencond.to_cv(v)] for k, v in keys]] for n, keys in tb]
        ops.append({"op": "cond", "block": wire_block, "ctx": [[k, gencond.to_cv(v)] for k, v in ctx.items()]})
        # the same texts are also compiled by action expansion (case-insensitively) in any real use of the library:
        # a comparison must not depend on that having happened before
        from pycfmodel.utils import regex_from_cf_string

        for _, keys in tb:
            for _, v in keys:
                for text in (v if isinstance(v, list) else [v]):
                    if isinstance(text, str) and len(text) < 200:
                        try:
                            regex_from_cf_string(text)
                        except Exception:
                            pass
        try:
            r = cond(dict(ctx))
            io = {"result": r if r is None else bool(r)}
            # the evaluator is built on the first call and kept: the second call on an equal context must agree
            r2 = cond(dict(ctx))
            if (r2 if r2 is None else bool(r2)) != io["result"]:
                report.violation("oracle", "second-call-of-the-same-condition-differs", op={"block": raw, "ctx": {k: show(v) for k, v in ctx.items()}},
                                 impl={"first": io["result"], "second": r2}, oracle="a condition's result is a function of the block and the context (C12_true_iff)")
        except BaseException as e:  # the property says: never raises
            io = {"raised": common.exc_class(e)}
        rows.append((raw, ctx, io, cond, tb))
    model = driver.run(ops) if (driver is not None and ops) else [None] * len(ops)
    out = []
    for (raw, ctx, io, cond, tb), op, mo in zip(rows, ops, model):
        if mo is not None and "driver_error" in mo:
            raise common.InfraError(f"{mo} on {op}")
        out.append((raw, ctx, io, mo, tb, cond, op))
    return out


def show(v):
    return common.jdump(gencond.to_cv(v))


def run(report, tier, seed, driver, proofs_ok):
    rng = common.rng_for("C11", seed)
    thorough = tier == "thorough"
    per_op = 400 if thorough else 40
    report.rule = (
        "cases = (base operator, policy value, context value), single key and single value, for each of the 27 base operators: "
        "context values generated relative to the policy value (equal, adjacent ±1 / ±1µs / case-swapped / wildcard "
        "instantiations, sub-/supernets and other IP version, unrelated, ill-typed, missing). The negated operator is "
        "evaluated on the same operands (duality oracle on the implementation). distinct_nontrivial = distinct (operator, "
        "policy, context) triples whose context value has the operator's type."
    )
    cases = []
    for base in gencond.BASE_OPS:
        for _ in range(per_op):
            pv = gencond.policy_raw(rng, base)
            raw = {base: {"k": pv}}

            def ctx_fn(tb, base=base):
                typed = tb[0][1][0][1]
                if rng.random() < 0.06:
                    return {}
                return {"k": gencond.ctx_value(rng, base, typed)}

            cases.append((raw, ctx_fn))
    # wildcard runs: `?` still demands one character when it stands next to `*` (shortest candidates and one longer)
    for base in ("StringLike", "StringNotLike", "ArnLike", "ArnNotLike"):
        for pat, cands in (("a?*", ["a", "ab", "abc"]), ("*?", ["", "x"]), ("?*", ["", "x"]), ("?*?", ["x", "xy"]), ("a*?c", ["ac", "abc", "axyc"]), ("a**?", ["a", "ab"]),
                           ("??", ["a", "ab", "abc"]), ("key-?*", ["key-", "key-1"]), ("a[b]c", ["abc", "a[b]c"]), ("a.c", ["abc", "a.c"])):
            for cand in cands:
                cases.append(({base: {"k": pat}}, {"k": cand}))
    results = evaluate(cases, driver, report, "C11")
    for raw, ctx, io, mo, tb, cond, op in results:
        base = tb[0][0]
        typed = tb[0][1][0][1]
        cv = ctx.get("k", "<missing>")
        well_typed = cv != "<missing>" and type(cv) is type(typed) or (isinstance(cv, int) and isinstance(typed, int))
        report.case({"op": base, "policy": show(typed), "ctx": show(cv) if cv != "<missing>" else cv},
                    (base, show(typed), show(cv) if cv != "<missing>" else cv) if well_typed else None, sample=well_typed and rng.random() < 0.02)
        report.count("op:" + base)
        report.count("outcome:" + str(io.get("result", "raised")))
        if gencond.family(base) == "ip":
            import ipaddress

            rawv = raw[base]["k"]
            try:
                want = ipaddress.ip_network(rawv, strict=False)
            except ValueError:
                want = None
            if want is not None and typed != want:
                report.violation("oracle", "ip-policy-value-not-parsed-as-the-network-it-denotes", op={"block": raw}, impl={"typed": repr(typed)},
                                 oracle="a CIDR written under IpAddress/NotIpAddress is a value of the operator's type; kept as text it makes both operators constantly false")
        if mo is None or "outside_domain" in mo:
            continue
        if io != mo:
            report.disagreements_checked += 1
            what = f"{base}-raises" if "raised" in io else f"{base}-comparison-differs"
            report.violation("correspondence+oracle", what, op={"op": "cond", "block": raw, "ctx": {"k": show(cv)}, "wire": op}, impl=io, model=mo,
                             oracle="IamCond.evalBase states the documented comparison of each operator (C11_* theorems)")
        # duality on the implementation alone
        if base in gencond.NEGATED and well_typed and io.get("result") is not None:
            from pycfmodel.model.resources.properties.statement_condition import StatementCondition

            pos = StatementCondition.model_validate({gencond.NEGATED[base]: raw[base]})(dict(ctx))
            if pos is not None and bool(pos) == bool(io["result"]):
                report.violation("oracle", f"{base}-is-not-the-negation-of-{gencond.NEGATED[base]}", op={"block": raw, "ctx": {"k": show(cv)}},
                                 impl={"negated": io["result"], "positive": pos})
    report.notes += [
        "Unicode case folding / NFKD of each string is supplied by the harness (Python's own), the model compares the supplied folds",
        "policy values are the typed values the library parsed (int, datetime, network, bytes, bool); parsing itself is C15/C19 territory",
    ]
