"""C06 — transformations are pure and repeatable.
Histories of API calls over a small world of *shared* argument objects (templates, extra_params dicts, evaluation
contexts), receivers (parsed / resolved / expanded models) and the class-level defaults. After every call a deep,
type-sensitive snapshot of every object of the world is compared with the snapshot before it (frame), the result is
compared with the result of the same call made first thing in a fresh world (repeatability), and results of
resolve / expand_actions must be new objects sharing no mutable part with the receiver. The static side of the tie
(write sites extracted from the source into Generated/Effects.lean, theorem C06_sites) is in harness/extract.py."""
import copy
import threading

from .. import common, gen, gencond, tmpl
from .c15 import tcanon


def snap(x):
    """deep, type-sensitive, order-sensitive snapshot of plain data"""
    if isinstance(x, dict):
        return ("dict", tuple((k, snap(v)) for k, v in x.items()))
    if isinstance(x, (list, tuple)):
        return (type(x).__name__, tuple(snap(v) for v in x))
    if isinstance(x, (bytes, bytearray)):
        return (type(x).__name__, bytes(x))
    return (type(x).__name__, repr(x))


def msnap(m):
    # pydantic's repr names every class and shows every leaf with its type (True vs 1, IPv4Network('…'), b'…')
    return repr(m)


class World:
    """the caller-owned objects, shared by all calls of a history"""

    def __init__(self, rng, n_templates=2):
        from pycfmodel.model.cf_model import CFModel

        self.CFModel = CFModel
        self.templates, self.extras, self.contexts, self.models, self.conds = [], [], [], [], []
        self.expanded = set()
        for i in range(n_templates):
            if i % 2 == 0:
                t, extra = tmpl.gen_template(rng, max_depth=2, cyclic_ok=False)
            else:
                res = {}
                for j in range(rng.randrange(1, 3)):
                    res[f"I{j}"], _ = gen.gen_iam_resource(rng, tag=f"I{j}", with_condition=True)
                res["G"] = gen.gen_generic_action_resource(rng)
                t, extra = {"Parameters": {"Env": {"Type": "String", "Default": "dev"}, "Names": {"Type": "CommaDelimitedList", "Default": "a,b"}}, "Resources": res}, {"Env": "prod", "Unused": "x"}
            self.templates.append(t)
            self.extras.append(extra)
        self.extras.append({})
        # the same wildcard text as an action pattern and as a StringLike / ArnLike operand (the two uses differ in case rules)
        pat = rng.choice(["s3:getobject*", "ec2:describe*", "iam:Pass?ole", "sqs:*"])
        hit = next((a for a in __import__("pycfmodel.cloudformation_actions", fromlist=["x"]).CLOUDFORMATION_ACTIONS if __import__("re").fullmatch(pat.replace("*", ".*").replace("?", "."), a, 2)), pat)
        self.templates.append({"Resources": {"Ov": {"Type": "AWS::IAM::ManagedPolicy", "Properties": {"PolicyDocument": {"Statement": [
            {"Effect": "Allow", "Action": pat, "Resource": "*", "Condition": {"StringLike": {"aws:PrincipalTag/op": pat}}},
            # Action (a list) and NotAction together, Resource and NotResource together: queries that merge the two lists
            {"Effect": "Allow", "Action": ["s3:GetObject", "s3:ListBucket"], "NotAction": ["iam:*", "kms:Decrypt"], "Resource": ["arn:aws:s3:::a"], "NotResource": ["arn:aws:s3:::b"],
             "Principal": {"AWS": ["arn:aws:iam::123456789012:root"]}, "NotPrincipal": {"AWS": ["arn:aws:iam::111122223333:user/alice"]}}]}}}}})
        # two models whose scalars are equal as Python values but are different values of a template (True / 1 / 1.0, False / 0 / 0.0):
        # anything remembered across calls under such a key shows when they are resolved in different orders
        self.templates.append({"Resources": {"Flag": {"Type": "Custom::Flag", "Properties": {"Enabled": True, "Off": False, "Join": {"Fn::Join": [":", ["b", True, False]]}}}}})
        self.templates.append({"Resources": {"Counter": {"Type": "Custom::Counter", "Properties": {"Weight": 1.0, "Ratio": 0.0, "One": 1, "Zero": 0, "Join": {"Fn::Join": [":", ["w", 1.0, 0.0, 1, 0]]}}}}})
        # a template that parses but whose resolved form no longer validates (the properties of a modelled type become text):
        # a call that fails must leave the world as it found it, too
        self.templates.append({"Parameters": {"RoleProperties": {"Type": "String", "Default": "not-an-object"}},
                               "Resources": {"Role": {"Type": "AWS::IAM::Role", "Properties": {"Ref": "RoleProperties"}}}})
        # ... and one that does not parse at all (a modelled type without its required properties)
        self.templates.append({"Resources": {"Role": {"Type": "AWS::IAM::Role", "Properties": {"RoleName": "no-trust-policy"}}}})
        from pycfmodel.model.resources.properties.statement_condition import StatementCondition as _SC

        self.conds.append(_SC.model_validate({"StringLike": {"aws:PrincipalTag/op": pat}}))
        self.contexts.append({"aws:PrincipalTag/op": hit.swapcase()})
        self.contexts.append({"aws:PrincipalTag/op": hit})
        for _ in range(3):
            blk = gencond.gen_block(rng)
            try:
                from pycfmodel.model.resources.properties.statement_condition import StatementCondition

                c = StatementCondition.model_validate(copy.deepcopy(blk))
            except Exception:
                continue
            self.conds.append(c)
            self.contexts.append(gencond.gen_context(rng, gencond.typed_block(c)))
        self.contexts.append({})

    def class_level(self):
        """every module-level and class-level mutable container (and flag) of the library's modules, by name"""
        import sys

        out = []
        for mname in sorted(m for m in sys.modules if m == "pycfmodel" or m.startswith("pycfmodel.")):
            mod = sys.modules[mname]
            for name, val in sorted(vars(mod).items(), key=lambda kv: kv[0]):
                if name.startswith("__"):
                    continue
                if isinstance(val, (dict, list, set, frozenset, bytearray)):
                    out.append((mname, name, self._digest(val)))
                elif isinstance(val, type) and getattr(val, "__module__", None) == mname:
                    for attr, cv in sorted(vars(val).items(), key=lambda kv: kv[0]):
                        if attr.startswith("__") or attr in ("model_fields", "model_computed_fields", "model_config"):
                            continue
                        if isinstance(cv, (dict, list, set, frozenset, bool, int, str)) and not attr.startswith("_abc"):
                            out.append((mname, name + "." + attr, self._digest(cv)))
        return tuple(out)

    @staticmethod
    def _digest(val):
        if isinstance(val, (list, tuple)) and len(val) > 2000:
            return (type(val).__name__, len(val), hash(tuple(map(str, val))))
        if isinstance(val, (set, frozenset)):
            return (type(val).__name__, len(val), hash(tuple(sorted(map(repr, val)))))
        if isinstance(val, dict):
            return ("dict", len(val), hash(tuple((repr(k), repr(v)) for k, v in val.items())))
        return (type(val).__name__, repr(val)[:2000])

    def snapshot(self, only_model=None):
        """every object of the world; `only_model` restricts the (expensive) receivers to the one a call is made on —
        all of them are compared at the start and the end of each history"""
        return {
            "template": [snap(t) for t in self.templates],
            "extra_params": [snap(e) for e in self.extras],
            "context": [snap(c) for c in self.contexts],
            "model": [msnap(m) if only_model is None or i == only_model else None for i, m in enumerate(self.models)],
            "condition": [common.jdump(tcanon(c)) for c in self.conds],
            "class-level": self.class_level(),
        }


def docs_of(m):
    out = []
    for name, r in m.Resources.items():
        for d in getattr(r, "policy_documents", []) or []:
            out.append((name, d))
    return out


def do_call(w, call):
    """perform one API call on the shared objects of the world; returns a canonical result"""
    kind = call[0]
    if kind == "parse":
        from pycfmodel import parse

        m = parse(w.templates[call[1]])
        return ("model", msnap(m)), m
    if kind == "resolve":
        m = w.models[call[1]]
        r = m.resolve(w.extras[call[2]]) if call[2] is not None else m.resolve()
        return ("model", msnap(r)), r
    if kind == "expand":
        m = w.models[call[1]]
        r = m.expand_actions()
        return ("model", msnap(r)), r
    if kind == "queries":
        import re

        m = w.models[call[1]]
        out = []
        # policy_documents / all_statement_conditions walk `model_fields_set`, a Python set: the order of their results is the
        # iteration order of that set (which a copy of the object need not share) and is not part of the result compared
        for name, r in m.Resources.items():
            out.append((name, sorted(str(c and common.jdump(tcanon(c))) for c in (r.all_statement_conditions if hasattr(r, "all_statement_conditions") else []))))
        per_doc = []
        for name, d in docs_of(m):
            pd = d.policy_document
            try:
                every = re.compile(".*")
                per_stmt = []
                for st in pd.statement_as_list():
                    # every read-only query of a statement, twice: a query must not change what the next one returns
                    for _ in range(2):
                        per_stmt.append((sorted(map(str, st.get_action_list())), sorted(map(str, st.get_resource_list())), sorted(map(str, st.actions_with(every))),
                                         sorted(map(str, st.resources_with(every))), sorted(map(str, st.principals_with(every))), sorted(map(str, st.non_whitelisted_principals([])))))
                per_doc.append((name, d.name, per_stmt, len(pd.allowed_actions_with(every)), sorted(map(str, pd.non_whitelisted_allowed_principals([]))), sorted(pd.get_allowed_actions()), sorted(pd.get_iam_actions()), sorted(str(p) for p in pd.allowed_principals_with(re.compile(".*"))),  # built from a set: its order is the hash seed's
                            len(pd.statements_with(re.compile(".*"))), [sorted(map(str, s.get_principal_list())) for s in pd.statement_as_list()]))
            except Exception as e:
                per_doc.append((name, "raises", common.exc_class(e)))
        out += sorted(per_doc, key=common.jdump)
        return ("queries", common.jdump(out)), None
    if kind == "cond":
        c = w.conds[call[1]]
        return ("cond", repr(c(w.contexts[call[2]]))), None
    if kind == "filter":
        m = w.models[call[1]]
        return ("filter", sorted(m.resources_filtered_by_type(call[2]))), None
    raise ValueError(kind)


def mutable_ids(x, acc, path=()):
    """id -> path of every mutable container / model reachable from x"""
    from pydantic import BaseModel

    if isinstance(x, BaseModel):
        acc[id(x)] = path
        for n in type(x).model_fields:
            mutable_ids(getattr(x, n), acc, path + (n,))
        for k, v in (x.model_extra or {}).items():
            mutable_ids(v, acc, path + ("+" + k,))
    elif isinstance(x, dict):
        acc[id(x)] = path
        for k, v in x.items():
            mutable_ids(v, acc, path + (str(k),))
    elif isinstance(x, list):
        acc[id(x)] = path
        for i, v in enumerate(x):
            mutable_ids(v, acc, path + (str(i),))
    return acc


def shared_parts(a, b):
    ia, ib = mutable_ids(a, {}), mutable_ids(b, {})
    return [("/".join(ia[i]), "/".join(ib[i])) for i in set(ia) & set(ib)]


def gen_call(rng, w):
    r = rng.random()
    if not w.models or r < 0.12:
        return ("parse", rng.randrange(len(w.templates)))
    mi = rng.randrange(len(w.models))
    if r < 0.45:
        return ("resolve", mi, rng.choice([None] + list(range(len(w.extras)))))
    if r < 0.6:
        # expanding an already expanded model matches tens of thousands of names against the whole catalogue each
        return ("expand", rng.choice([i for i in range(len(w.models)) if i not in w.expanded] or [0]))
    if r < 0.78:
        # (as for expand: the queries re-match every name of an expanded NotAction against the whole catalogue)
        return ("queries", rng.choice([i for i in range(len(w.models)) if i not in w.expanded] or [0]))
    if r < 0.9 and w.conds:
        return ("cond", rng.randrange(len(w.conds)), rng.randrange(len(w.contexts)))
    return ("filter", mi, rng.choice([("AWS::IAM::Role",), ("AWS::S3::Bucket", "Custom::Thing"), ()]))


def diff_keys(a, b):
    out = []
    for k in a:
        if a[k] != b[k]:
            if k == "class-level":
                da, db = {x[:2]: x[2] for x in a[k]}, {x[:2]: x[2] for x in b[k]}
                out += [f"class-level[{m}.{n}]" for (m, n) in sorted(set(da) | set(db)) if da.get((m, n)) != db.get((m, n))]
                continue
            if isinstance(a[k], list):
                out += [f"{k}[{i}]" for i, (x, y) in enumerate(zip(a[k], b[k])) if x != y] or [k]
            else:
                out.append(k)
    return out


def run_history(report, rng, length, label):
    """returns the world and the list of (call, result) actually performed"""
    w = World(rng)
    # receivers: every template parsed once (fresh copies), plus a resolved and an expanded one
    for t in w.templates:
        try:
            w.models.append(tmpl.parse(t))
        except Exception:
            pass
    if not w.models:
        report.count("world-without-models")
        return None, []
    for m in list(w.models)[:1]:
        try:
            w.models.append(m.resolve(copy.deepcopy(w.extras[0])))
            w.models.append(m.expand_actions())
            w.expanded.add(len(w.models) - 1)
        except Exception:
            pass
    # reference results: each call made first thing, on deep copies of its arguments and receiver
    calls = [gen_call(rng, w) for _ in range(length)]
    # the same call several times, and the same extra_params object with several models
    calls += [c for c in calls if c[0] in ("resolve", "cond")][:4]
    rng.shuffle(calls)
    ref = {}
    for c in set(calls):
        # an equal fresh world: deep copies of exactly the objects the call touches
        w2 = copy.copy(w)
        w2.templates, w2.extras, w2.contexts = copy.deepcopy(w.templates), copy.deepcopy(w.extras), copy.deepcopy(w.contexts)
        w2.models = list(w.models)
        w2.conds = list(w.conds)
        if c[0] in ("resolve", "expand", "queries", "filter"):
            w2.models[c[1]] = w.models[c[1]].model_copy(deep=True)
        if c[0] == "cond":
            w2.conds[c[1]] = type(w.conds[c[1]]).model_validate(w.conds[c[1]].model_dump())
        try:
            ref[c] = common.with_timeout(lambda: do_call(w2, c)[0], 60.0)
        except (Exception, common.WallClockExceeded) as e:
            ref[c] = ("raises", common.exc_class(e))
    done = []
    start = w.snapshot()
    for idx, c in enumerate(calls):
        recv_i = c[1] if c[0] in ("resolve", "expand", "queries", "filter") else -1
        before = w.snapshot(only_model=recv_i)
        try:
            res, obj = common.with_timeout(lambda: do_call(w, c), 60.0)
        except (Exception, common.WallClockExceeded) as e:
            res, obj = ("raises", common.exc_class(e)), None
        after = w.snapshot(only_model=recv_i)
        report.count(f"call:{c[0]}")
        hist = [list(map(str, x)) for x in calls[: idx + 1]]
        changed = diff_keys(before, after)
        if changed:
            what = "call-modifies-" + changed[0].split("[")[0] + ":" + c[0]
            report.violation("oracle", what, op={"history": hist, "templates": w.templates, "extras": [e for e in w.extras], "changed": changed}, impl={"call": list(map(str, c))},
                             oracle="deep snapshot of every argument, receiver and class-level default before/after the call (C06_frame)", label=label)
        if res != ref[c]:
            report.violation("oracle", "result-depends-on-history:" + c[0], op={"history": hist, "templates": w.templates, "extras": w.extras}, impl={"call": list(map(str, c)), "fresh": str(ref[c])[:200000], "after_history": str(res)[:200000]},
                             oracle="the same call made first thing in an equal fresh world (C06_repeatable)", label=label)
        if obj is not None and c[0] in ("resolve", "expand"):
            recv = w.models[c[1]]
            if obj is recv:
                report.violation("oracle", f"{c[0]}-returns-its-receiver", op={"history": hist}, label=label)
            same_res = [k for k in obj.Resources if k in recv.Resources and obj.Resources[k] is recv.Resources[k]]
            if same_res or obj.Resources is recv.Resources:
                report.violation("oracle", f"{c[0]}-result-holds-the-receiver's-resource-objects", op={"history": hist, "templates": w.templates}, impl={"resources": same_res[:5]}, label=label)
            # deeper sharing (pydantic's python-mode dump leaves function objects of network / bool typed fields as
            # they are, and validation keeps model instances): recorded, not a violation of the property as stated
            for a, b in shared_parts(obj, recv)[:50]:
                report.count("shared-leaf-object:" + a.split("/")[-1])
            if c[0] == "resolve" and c[2] is not None and shared_parts(obj, w.extras[c[2]]):
                report.violation("oracle", "resolve-result-shares-mutable-parts-with-extra_params", op={"history": hist, "templates": w.templates, "extras": w.extras}, label=label)
        done.append((c, res))
        report.case({"call": list(map(str, c))}, (label, idx, str(c)), sample=rng.random() < 0.002)
    changed = diff_keys(start, w.snapshot())
    if changed:
        report.violation("oracle", "history-modifies-" + changed[0].split("[")[0], op={"history": [list(map(str, x)) for x in calls], "templates": w.templates, "extras": w.extras, "changed": changed},
                         oracle="deep snapshot of the whole world at the start and the end of the history (C06_frame)", label=label)
    return w, done


def run_threads(report, rng, n_threads, per_thread):
    """stress (testing, not proof): the same calls from several threads on the same objects"""
    w = World(rng)
    for t in w.templates:
        try:
            w.models.append(tmpl.parse(t))
        except Exception:
            pass
    if not w.models:
        return
    calls = [gen_call(rng, w) for _ in range(per_thread)]
    ref = {}
    for c in set(calls):
        try:
            ref[c] = do_call(w, c)[0]
        except Exception as e:
            ref[c] = ("raises", common.exc_class(e))
    before = w.snapshot()
    bad = []

    def work(k):
        order = list(calls)
        rng2 = common.rng_for("C06t", k)
        rng2.shuffle(order)
        for c in order:
            try:
                r = do_call(w, c)[0]
            except Exception as e:
                r = ("raises", common.exc_class(e))
            if r != ref[c]:
                bad.append((k, c, r))

    ts = [threading.Thread(target=work, args=(k,)) for k in range(n_threads)]
    for t in ts:
        t.start()
    for t in ts:
        t.join()
    report.count("threaded-calls", n_threads * len(calls))
    if bad:
        k, c, r = bad[0]
        report.violation("oracle", "concurrent-result-differs-from-sequential:" + c[0], op={"call": list(map(str, c)), "templates": w.templates, "extras": w.extras}, impl={"thread": k, "got": str(r)[:300], "sequential": str(ref[c])[:200000]})
    changed = diff_keys(before, w.snapshot())
    if changed:
        report.violation("oracle", "concurrent-calls-modify-" + changed[0].split("[")[0], op={"templates": w.templates, "changed": changed})


def order_worker(seed, perm):
    """(subprocess entry) the calls of one seeded world, made in the order given by `perm`, results per call"""
    import json
    import logging
    import sys

    logging.disable(logging.CRITICAL)
    rng = common.rng_for("C06o", seed)
    w = World(rng)
    for t in w.templates:
        try:
            w.models.append(tmpl.parse(t))
        except Exception:
            pass
    calls = []
    for mi in range(len(w.models)):
        calls += [("expand", mi), ("queries", mi), ("resolve", mi, 0)]
    for ci in range(len(w.conds)):
        for xi in range(len(w.contexts)):
            calls.append(("cond", ci, xi))
    order = list(range(len(calls)))
    common.rng_for("C06p", perm).shuffle(order)
    out = {}
    for i in order:
        try:
            out[str(calls[i])] = str(do_call(w, calls[i])[0])
        except Exception as e:
            out[str(calls[i])] = "raises " + common.exc_class(e)
    import hashlib

    sys.stdout.write(json.dumps({k: hashlib.sha256(v.encode()).hexdigest()[:16] + ":" + v[:120] for k, v in out.items()}))


def run_orders(report, seed, n_orders):
    """the same calls in different orders, each order in a fresh interpreter (module-level state starts empty every time):
    every call must return the same in every order"""
    import json
    import subprocess

    outs = []
    for perm in range(n_orders):
        p = subprocess.run(["/venv/bin/python", "-c", f"import sys; sys.path.insert(0, {common.ROOT!r}); sys.path.insert(0, {common.REPO!r}); from harness.props import c06; c06.order_worker({seed}, {perm})"],
                           stdout=subprocess.PIPE, stderr=subprocess.DEVNULL, timeout=600, cwd=common.ROOT)
        if p.returncode != 0 or not p.stdout:
            raise common.InfraError("order worker failed")
        outs.append(json.loads(p.stdout))
    report.count("fresh-process-orders", n_orders)
    for k in outs[0]:
        vals = {o.get(k) for o in outs}
        report.count("fresh-process-call")
        if len(vals) > 1:
            report.violation("oracle", "result-depends-on-call-order-across-fresh-processes:" + k.split("'")[1], op={"call": k, "world_seed": seed, "orders": list(range(n_orders))},
                             impl={"results": sorted(map(str, vals))[:3]}, oracle="the same call in differently ordered histories, each in a fresh interpreter (C06_repeatable)")


def run(report, tier, seed, driver, proofs_ok):
    rng = common.rng_for("C06", seed)
    thorough = tier == "thorough"
    report.rule = (
        "histories = random sequences of parse / resolve / expand_actions / policy queries / condition calls / type filters over one world of "
        "shared objects (2 templates, 3 extra_params dicts incl. one naming template parameters and one unused key, 3 condition blocks with "
        "contexts, parsed + resolved + expanded receivers); repeated calls and re-use of the same extra_params with several models are forced. "
        "Per call: deep type-sensitive snapshot of every template, extra_params, context, receiver, condition and class-level default before/after; "
        "result against the same call made first thing in an equal fresh world; results of resolve/expand_actions share no mutable object with "
        "receiver or extra_params. distinct_nontrivial = distinct (history, position, call). Thread stress (testing) in both tiers, larger in thorough."
    )
    for h in range(60 if thorough else 8):
        run_history(report, rng, 40 if thorough else 18, f"h{h}")
    for ws in range(8 if thorough else 2):
        run_orders(report, seed * 100 + ws, 4 if thorough else 3)
    for k in range(6 if thorough else 1):
        run_threads(report, rng, 8 if thorough else 4, 12 if thorough else 6)
    from .. import effects

    sites, flows = effects.extract()
    report.count("write-sites-in-source", len(sites))
    report.count("write-sites-not-provably-local", sum(1 for x in sites if x[1] != "fresh"))
    report.notes += ["write sites not provably local (function, kind, name, operation, line): " + "; ".join(f"{q.split('pycfmodel.')[-1]}:{k}:{r}:{op}@{ln}" for q, k, r, op, ln in sites if k != "fresh"),
                     "argument flows into writing parameters: " + "; ".join(f"{c.split('.')[-1]}→{q.split('.')[-1]}({p})={k}" for q, p, c, k, r in flows)]
    report.notes += ["thread interleavings inside CPython / pydantic-core are exercised by the stress run only (testing); the theorem covers the abstract interleaving of write-free steps"]
