"""C09 — action expansion obeys set laws over the catalogue, the same in every API.
The driver runs the specification (`expand`, `expandNot` and the closed forms proved equal to the
statement- and policy-level algorithms); the implementation is called through its four APIs."""
from .. import common, gen



class Impl:
    def __init__(self):
        import pycfmodel.action_expander as ae
        from pycfmodel.model.cf_model import CFModel
        from pycfmodel.model.resources.properties.policy_document import PolicyDocument
        from pycfmodel.model.resources.properties.statement import Statement

        self.ae, self.Statement, self.PolicyDocument, self.CFModel = ae, Statement, PolicyDocument, CFModel

    def module(self, value, neg):
        return list(self.ae._expand_actions(value, not_action=neg))

    def statement(self, action, notaction):
        kw = {"Effect": "Allow"}
        if action is not None:
            kw["Action"] = action
        if notaction is not None:
            kw["NotAction"] = notaction
        return list(self.Statement(**kw).get_expanded_action_list())

    def policy(self, stmts, api):
        raw = []
        for s in stmts:
            d = {"Effect": "Allow" if s["allow"] else "Deny"}
            if s["action"] is not None:
                d["Action"] = s["action"]
            if s["notaction"] is not None:
                d["NotAction"] = s["notaction"]
            raw.append(d)
        pd = self.PolicyDocument(Statement=raw)
        return list(pd.get_allowed_actions() if api == "allowed" else pd.get_iam_actions())

    def model_level(self, action, notaction):
        st = {"Effect": "Allow", "Resource": "*"}
        if action is not None:
            st["Action"] = action
        if notaction is not None:
            st["NotAction"] = notaction
        t = {"Resources": {"P": {"Type": "AWS::IAM::ManagedPolicy", "Properties": {"PolicyDocument": {"Statement": [st]}}}}}
        m = self.CFModel(**t).expand_actions()
        s = m.Resources["P"].Properties.PolicyDocument.Statement[0]
        return (None if s.Action is None else list(s.Action)), (None if s.NotAction is None else list(s.NotAction))


def run_impl(fn, *a):
    try:
        return gen.list_result(fn(*a))
    except Exception as e:
        return {"raised": common.exc_class(e)}


def as_list(v):
    return [v] if isinstance(v, str) else list(v)


def run(report, tier, seed, driver, proofs_ok):
    impl = Impl()
    rng = common.rng_for("C09", seed)
    thorough = tier == "thorough"
    n = 4000 if thorough else 120
    report.rule = (
        "cases = (api, Action/NotAction value); values are single patterns or lists of 0–6 patterns drawn from exact "
        "catalogue entries (also case-swapped), service and prefix wildcards, ? substitutions, *, non-matching and "
        "regex-looking patterns, with overlapping supersets and duplicates; apis: module (_expand_actions), statement "
        "(get_expanded_action_list), model (CFModel.expand_actions), allowed / iam (PolicyDocument queries over 1–4 "
        "statements of mixed effect). Results compared by length + two rolling hashes + first/last 3 entries. "
        "distinct_nontrivial = distinct (api, value) whose expansion is neither empty nor the whole catalogue."
    )
    ops, cases = [], []

    def add(api, payload, impl_thunk):
        ops.append(dict({"op": "expand", "api": api}, **payload))
        cases.append((api, payload, impl_thunk))

    corpus = [
        (None, ["s3:*", "ec2:*"]),  # D9: list under NotAction
        (None, []),  # empty NotAction list
        ("s3:Get.*", None),
        (["s3:getobject", "S3:GETOBJECT"], None),
        ("*", "*"),
    ]
    # the model-level API (CFModel.expand_actions) on the empty values: it must agree with the other three
    for v, neg in (([], True), ([], False), ("", False), ("", True), (["s3:getobject"], True), (["iam:passrole", "S3:GETOBJECT", "ec2:Run*"], False)):
        def thunk0(v=v, neg=neg):
            ra, rb = impl.model_level(None if neg else v, v if neg else None)
            return rb if neg else ra

        add("module", {"value": v, "not": neg}, thunk0)
    for action, notaction in corpus:
        add("statement", {"action": action, "notaction": notaction}, (lambda a=action, b=notaction: impl.statement(a, b)))
        if notaction is not None:
            add("module", {"value": notaction, "not": True}, (lambda b=notaction: impl.module(b, True)))

    for i in range(n):
        v = gen.gen_action_value(rng)
        k = rng.randrange(10)
        if k < 3:
            neg = rng.random() < 0.5
            add("module", {"value": v, "not": neg}, (lambda v=v, neg=neg: impl.module(v, neg)))
        elif k < 6:
            r = rng.random()
            a, b = (v, None) if r < 0.4 else ((None, v) if r < 0.8 else (v, gen.gen_action_value(rng)))
            add("statement", {"action": a, "notaction": b}, (lambda a=a, b=b: impl.statement(a, b)))
        elif k < 7:
            neg = rng.random() < 0.5
            a, b = (None, v) if neg else (v, None)

            def thunk(a=a, b=b, neg=neg):
                ra, rb = impl.model_level(a, b)
                return rb if neg else ra

            add("module", {"value": v, "not": neg}, thunk)
        else:
            stmts = []
            for _ in range(rng.randrange(1, 5)):
                r = rng.random()
                w = gen.gen_action_value(rng)
                if rng.random() < 0.35:
                    # iam actions next to actions that sort before and after them, in several statements
                    w = rng.choice(["iam:GetRole", ["ec2:RunInstances", "iam:DeleteRole"], ["iam:Pass*", "s3:GetObject"], "iam:*", ["a4b:*", "iam:Get*", "zocalo:*"], "*"])
                stmts.append({"allow": rng.random() < 0.6, "action": w if r < 0.6 else None, "notaction": None if r < 0.6 else w})
            api = "allowed" if k < 9 else "iam"
            add(api, {"stmts": stmts}, (lambda s=stmts, api=api: impl.policy(s, api)))

    model = driver.run(ops) if driver is not None else [None] * len(ops)
    total = len(gen.catalogue())
    for (api, payload, thunk), op, mo in zip(cases, ops, model):
        io = run_impl(thunk)
        nontrivial = None
        if "n" in io and 0 < io["n"] < total:
            nontrivial = (api, common.jdump(payload))
        report.case(op, nontrivial, sample=(nontrivial is not None and api != "module"))
        report.count(f"api:{api}")
        report.count("outcome:" + ("raised" if "raised" in io else ("empty" if io["n"] == 0 else ("all" if io["n"] == total else "proper"))))
        if mo is None:
            continue
        if "driver_error" in mo:
            raise common.InfraError(f"driver error on {op}: {mo}")
        if "outside_domain" in mo:
            report.count("outside_domain")
            continue
        if io != mo:
            report.disagreements_checked += 1
            what = classify(api, payload, io, mo)
            report.violation(
                "correspondence+oracle",
                what,
                op=op,
                impl=io,
                model=mo,
                oracle="the driver runs the specification (membership laws C09_expand_mem / C09_not_mem; closed forms proved equal to the statement- and policy-level algorithms); the implementation's result differs",
            )

    # direct oracles on the implementation alone: partition and union laws, API agreement
    for i in range(30 if thorough else 6):
        v = gen.gen_action_value(rng)
        try:
            pos, neg = impl.module(v, False), impl.module(v, True)
        except Exception:
            continue
        report.case({"oracle": "partition", "value": v}, ("partition", common.jdump(v)))
        if sorted(set(pos) | set(neg)) != sorted(gen.catalogue()) or set(pos) & set(neg):
            report.violation("oracle", "action-notaction-do-not-partition-catalogue", op={"value": v}, impl={"pos": len(pos), "neg": len(neg)})
        if pos != sorted(set(pos)) or neg != sorted(set(neg)):
            report.violation("oracle", "expansion-not-sorted-or-has-duplicates", op={"value": v})
        try:
            st = impl.statement(None, v)
        except Exception as e:
            st = common.exc_class(e)
        if st != neg:
            report.violation("oracle", "statement-and-module-disagree-on-notaction", op={"value": v}, impl={"statement": gen.list_result(st) if isinstance(st, list) else st, "module": gen.list_result(neg)})

    catalogue_facts(report, driver)
    report.notes += [
        "unresolved function objects under Action/NotAction are outside the property (expansion is defined on action text)",
        "the three API algorithms are modelled in Lean (Actions.expandActions / stmtExpanded / allowedActions / iamActions) and proved equal to the specification the driver runs",
    ]


def classify(api, payload, io, mo):
    if "raised" in io:
        return f"{api}-raises-{io['raised']}"
    if api == "statement" and payload.get("notaction") is not None and isinstance(payload["notaction"], list):
        if len(payload["notaction"]) == 0:
            return "statement-notaction-empty-list-differs"
        if len(payload["notaction"]) > 1:
            return "statement-notaction-list-is-union-of-complements"
    if api in ("allowed", "iam"):
        return f"policy-{api}-differs"
    return f"{api}-expansion-differs"


def catalogue_facts(report, driver):
    """The regenerated table is the live catalogue (digest) and, directly on the implementation's table,
    the facts the Lean catalogue theorems state (used as the failing-input search when a chunk proof breaks)."""
    cat = gen.catalogue()
    if driver is not None:
        mo = driver.run([{"op": "catalogue"}])[0]
        if mo != gen.list_result(cat):
            report.violation("translator", "generated-catalogue-differs-from-live-catalogue", op={"op": "catalogue"}, impl=gen.list_result(cat), model=mo, found_input=False)
    import re

    bad = []
    for i, a in enumerate(cat):
        if not isinstance(a, str) or not re.fullmatch(r"[a-z0-9-]+:[A-Za-z0-9-]+", a):
            bad.append(("form", i, a))
        if i and isinstance(a, str) and isinstance(cat[i - 1], str) and not (cat[i - 1] < a):
            bad.append(("order", i, [cat[i - 1], a]))
    seen = {}
    for i, a in enumerate(cat):
        k = str(a).lower()
        if k in seen:
            bad.append(("duplicate-ignoring-case", i, [cat[seen[k]], a]))
        seen[k] = i
    report.case({"oracle": "catalogue-facts", "entries": len(cat)}, ("catalogue", len(cat)))
    for kind, i, a in bad[:5]:
        report.violation("oracle", f"catalogue-{kind}", op={"index": i, "entry": a}, oracle="direct check of CLOUDFORMATION_ACTIONS")
    report.extra["catalogue_entries"] = len(cat)
