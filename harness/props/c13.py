"""C13 — every embedded policy document is discoverable, exactly once.
(a) correspondence: the typed value tree of each parsed resource's properties → `Discover.policyDocuments`
    (proved complete, exact and duplicate-free over the tree) vs `resource.policy_documents`;
(b) planted-document oracle on the raw JSON: documents with unique Sids planted at random paths of generic and
    modelled resources must come back exactly once, with their PolicyName when wrapped."""
import copy
import json

from .. import common, gen


def tv(x, ids):
    from pycfmodel.model.generic import Generic
    from pycfmodel.model.resources.properties.policy import Policy
    from pycfmodel.model.resources.properties.policy_document import PolicyDocument
    from pycfmodel.model.utils import OptionallyNamedPolicyDocument

    def ident(o):
        return ids.setdefault(id(o), len(ids))

    if isinstance(x, PolicyDocument):
        return {"doc": ident(x)}
    if isinstance(x, Policy):
        return {"policy": [str(x.PolicyName), ident(x.PolicyDocument)]}
    if isinstance(x, OptionallyNamedPolicyDocument):
        return {"named": [x.name, ident(x.policy_document)]}
    if isinstance(x, list):
        return {"list": [tv(v, ids) for v in x]}
    if isinstance(x, Generic):
        return {"generic": [[k, tv(field_value(x, k), ids)] for k in x.model_fields_set]}
    return "other"


def field_value(model, k):
    """the stored value of a property (a property may be named like an attribute of the model class)"""
    extra = model.model_extra or {}
    return extra[k] if k in extra else getattr(model, k)


def top_wrapper_of(res):
    p = res.get("Properties")
    return isinstance(p, dict) and "PolicyName" in p and "PolicyDocument" in p


def sids_of(pd):
    try:
        return tuple(sorted(str(s.Sid) for s in pd.statement_as_list()))
    except Exception:
        return ("<unreadable>",)


def plant(rng, docs, depth=0):
    """a JSON value embedding each of `docs` (a list of (name or None, document)) at a random place"""
    if not docs:
        return rng.choice(["x", 5, {"k": "v"}, ["a"], None, True])
    if len(docs) == 1 and (depth >= 4 or rng.random() < 0.4):
        name, d = docs[0]
        if name is not None:
            return {"PolicyName": name, "PolicyDocument": d}
        return d
    k = rng.randrange(3)
    parts = [[] for _ in range(rng.randrange(1, 4))]
    for d in docs:
        rng.choice(parts).append(d)
    if k == 0:
        return [plant(rng, p, depth + 1) for p in parts]
    obj = {}
    for i, p in enumerate(parts):
        # (the last four are also names of methods of pydantic's BaseModel: a property may be called anything)
        key = rng.choice(["PolicyDocument", "Policies", "Config", "Nested", "Items", "AccessPolicy", "copy", "json", "schema", "dict"]) + (str(i) if i else "")
        obj[key] = plant(rng, p, depth + 1)
    if rng.random() < 0.3:
        obj["Other"] = rng.choice(["text", 3, ["a", "b"]])
    return obj


def run(report, tier, seed, driver, proofs_ok):
    from pycfmodel import parse

    rng = common.rng_for("C13", seed)
    thorough = tier == "thorough"
    n = 6000 if thorough else 300
    report.rule = (
        "cases = resources: (a) unmodelled types whose Properties embed 0–4 policy documents (unique Sids; bare or in a "
        "{PolicyName, PolicyDocument} wrapper; single statement or list) at random paths of objects, lists and lists of lists, "
        "optionally with one subtree JSON-encoded as a string property; (b) the IAM-bearing modelled types. For each parsed "
        "resource the typed value tree is sent to Discover.policyDocuments and compared with resource.policy_documents (by "
        "object identity, as multisets), and the planted documents must come back exactly once with their names; "
        "all_statement_conditions must be the Condition blocks of those documents. distinct_nontrivial = distinct resources "
        "with at least one planted document."
    )
    cases = []
    for i in range(n):
        if rng.random() < 0.7:
            nd = rng.choice([0, 1, 1, 2, 3, 4])
            docs = []
            for j in range(nd):
                d = gen.gen_policy_document(rng, sid_prefix=f"r{i}d{j}s", with_condition=True)
                docs.append((f"name{j}" if rng.random() < 0.4 else None, d))
            inside_doc = False
            if nd >= 2 and rng.random() < 0.12:
                # a document inside an unmodelled member of another document (PolicyDocument accepts extra members)
                docs[0][1]["Extra"] = plant(rng, [docs[1]], depth=3)
                inside_doc = True
            props = copy.deepcopy(plant(rng, [d for j, d in enumerate(docs) if not (inside_doc and j == 1)]))
            if not isinstance(props, dict) or "Statement" in props:
                # a resource's Properties object is never itself a policy document
                props = {"Holder": props}
            encoded = False
            # a resource whose Properties are themselves {PolicyName, PolicyDocument}: the Properties object is not a
            # wrapper *inside* the properties, the name is not constrained there
            if set(props) >= {"PolicyName", "PolicyDocument"}:
                docs = [(None if d is props["PolicyDocument"] or d == props["PolicyDocument"] else nm, d) for nm, d in docs]
                top_wrapper = True
            else:
                top_wrapper = False
            if inside_doc:
                encoded = "inside-document"
            elif docs and rng.random() < 0.25:
                key = rng.choice(list(props))
                shape = "document" if (isinstance(props[key], dict) and ("Statement" in props[key] or set(props[key]) >= {"PolicyName", "PolicyDocument"})) else (
                    "list" if isinstance(props[key], list) else ("object-containing-document" if isinstance(props[key], dict) else "scalar"))
                # JSON text as people write it: compact, pretty-printed, with blanks / a newline around it
                style = rng.randrange(4)
                text = json.dumps(props[key], indent=2) if style == 1 else json.dumps(props[key])
                if style == 2:
                    text = rng.choice([" ", "\n", "\t", "  \n "]) + text
                elif style == 3:
                    text = text + rng.choice([" ", "\n"])
                props[key] = text
                encoded = shape
            cases.append(({"Type": rng.choice(["Custom::Thing", "AWS::Logs::ResourcePolicy", "AWS::ECR::Repository"]), "Properties": props}, docs, encoded))
        elif rng.random() < 0.35:
            # modelled types whose properties have generic-typed option blocks: documents planted there are embedded too
            extra_docs = [(None, gen.gen_policy_document(rng, sid_prefix=f"g{i}d{j}s", with_condition=True)) for j in range(rng.randrange(1, 3))]
            kind = rng.randrange(3)
            if kind == 0:
                base = gen.gen_policy_document(rng, sid_prefix=f"g{i}base", with_condition=True)
                r = {"Type": "AWS::OpenSearchService::Domain", "Properties": {"DomainName": "d", "AccessPolicies": base, rng.choice(["LogPublishingOptions", "AdvancedOptions", "ClusterConfig", "VPCOptions"]): plant(rng, extra_docs, depth=2)}}
                docs = [(None, base)] + extra_docs
            elif kind == 1:
                base = gen.gen_policy_document(rng, sid_prefix=f"g{i}base", with_condition=True)
                r = {"Type": "AWS::Elasticsearch::Domain", "Properties": {"DomainName": "d", "AccessPolicies": base, rng.choice(["LogPublishingOptions", "EBSOptions", "SnapshotOptions"]): plant(rng, extra_docs, depth=2)}}
                docs = [(None, base)] + extra_docs
            else:
                r = {"Type": "AWS::S3::Bucket", "Properties": {"BucketName": "b", rng.choice(["NotificationConfiguration", "LifecycleConfiguration", "LoggingConfiguration"]): plant(rng, extra_docs, depth=2)}}
                docs = list(extra_docs)
            last = list(r["Properties"])[-1]
            v = r["Properties"][last]
            if not isinstance(v, dict) or "Statement" in v or set(v) >= {"PolicyName", "PolicyDocument"}:
                # like a resource's Properties object, the value of a generic-typed field is a generic object, never itself a document
                r["Properties"][last] = {"Holder": v}
            cases.append((copy.deepcopy(r), docs, False))
        else:
            r, ds = gen.gen_iam_resource(rng, tag=f"m{i}", with_condition=True)
            names = None
            cases.append((r, [(None, d) for d in ds], False))
    ops, rows = [], []
    for res, docs, encoded in cases:
        try:
            m = parse({"Resources": {"R": copy.deepcopy(res)}})
            r = m.Resources["R"]
        except Exception as e:
            report.count("does-not-parse:" + common.exc_class(e))
            continue
        try:
            found = r.policy_documents
            conds = r.all_statement_conditions
        except Exception as e:
            report.violation("oracle", "policy_documents-raises-" + common.exc_class(e), op={"resource": res})
            continue
        ids = {}
        props = r.Properties
        fields = {"generic": [[k, tv(field_value(props, k), ids)] for k in (props.model_fields_set if props is not None else [])]}
        impl_found = sorted([[None if f.name is None else str(f.name), ids.setdefault(id(f.policy_document), len(ids))] for f in found], key=lambda x: (x[1], str(x[0])))
        generic_route = type(r).policy_documents is type(r).__mro__[-4].policy_documents if False else (type(r).__name__ in ("GenericResource", "KMSKey", "ESDomain", "OpenSearchDomain"))
        rows.append((res, docs, encoded, found, conds, impl_found, generic_route))
        ops.append({"op": "discover", "fields": fields})
    model = driver.run(ops) if (driver is not None and ops) else [None] * len(ops)
    for (res, docs, encoded, found, conds, impl_found, generic_route), op, mo in zip(rows, ops, model):
        report.case({"resource": res}, common.jdump(res) if docs else None, sample=bool(docs) and len(common.jdump(res)) < 500)
        report.count("type:" + res["Type"])
        report.count("documents:%d" % len(docs))
        if encoded == "inside-document":
            report.count("document-inside-document")
        elif encoded:
            report.count("json-string-encoded")
        if mo is not None and "driver_error" in mo:
            raise common.InfraError(str(mo))
        if mo is not None and generic_route:
            mf = sorted([[a, b] for a, b in mo["found"]], key=lambda x: (x[1], str(x[0])))
            if mf != impl_found:
                report.disagreements_checked += 1
                report.violation("correspondence+oracle", "collector-differs-on-typed-tree", op={"resource": res, "tree": op["fields"]}, impl=impl_found, model=mf,
                                 oracle="Discover.policyDocuments (C13_complete, C13_once)")
        # planted-document oracle
        want = sorted(((name, tuple(sorted(str(s.get("Sid")) for s in (d["Statement"] if isinstance(d["Statement"], list) else [d["Statement"]])))) for name, d in docs), key=str)
        if res["Type"] == "AWS::IAM::Role":
            pass  # trust policy is exposed by its own accessor; `docs` lists only Policies
        got = sorted((((None if f.name is None else str(f.name)), sids_of(f.policy_document)) for f in found), key=str)
        # modelled types name their single document after PolicyName / ManagedPolicyName where they have one
        if res["Type"] in ("AWS::IAM::Policy", "AWS::IAM::ManagedPolicy", "AWS::IAM::Role", "AWS::IAM::User", "AWS::IAM::Group"):
            got_cmp, want_cmp = sorted(g[1] for g in got), sorted(w[1] for w in want)
        else:
            got_cmp, want_cmp = got, want
        if got_cmp != want_cmp:
            missing = [w for w in want_cmp if w not in got_cmp]
            extra = [g for g in got_cmp if g not in want_cmp]
            what = "embedded-document-not-returned" if missing else ("document-returned-more-than-once-or-spurious" if extra else "documents-differ")
            if encoded == "inside-document" and missing:
                what = "document-inside-an-unmodelled-member-of-a-policy-document-not-returned"
            elif encoded and missing:
                what = "document-in-json-string-property-not-returned"
            if top_wrapper_of(res) and sorted(g[1] for g in got_cmp) == sorted(w[1] for w in want_cmp):
                report.count("top-level-wrapper-name-unconstrained")
                continue
            report.violation("oracle", what, op={"resource": res}, impl={"returned": got_cmp}, model={"planted": want_cmp},
                             oracle="planted documents with unique Sids must come back exactly once (with PolicyName when wrapped)",
                             detail={"missing": missing[:3], "extra": extra[:3], "encoded": encoded},
                             json_string_shape=encoded if isinstance(encoded, str) else "none")
        # statement conditions
        want_conds = []
        for f in found:
            for s in f.policy_document.statement_as_list():
                if s.Condition:
                    want_conds.append(id(s.Condition))
        if [id(c) for c in conds] != want_conds:
            report.violation("oracle", "all_statement_conditions-differs-from-the-conditions-of-the-returned-documents", op={"resource": res})
    report.notes += [
        "the generic casting that turns raw JSON into the typed tree is exercised by the planted-document oracle, not modelled (see C18)",
        "order of the returned list follows the iteration order of a Python set of field names and is not compared",
        "a document IAM accepts but the library's PolicyDocument model rejects is cast to a generic object and not returned (recorded excluded point)",
    ]
