"""C04 — parameter binding precedence, list parameters, SSM references and NoEcho masking."""
import copy
import itertools
import json

from .. import common, tmpl
from .c02 import run_cases

TYPES = ["String", "Number", "List<Number>", "CommaDelimitedList", "AWS::SSM::Parameter::Value<String>"]
DEFAULTS = ["<absent>", "", "text", "a,b", 0, 5, True, "7"]
NOECHO = ["<absent>", True, False, "true"]
SUPPLIED = [None, "", "text", "x,y,z", 0, 7, "8"]


def run(report, tier, seed, driver, proofs_ok):
    from pycfmodel.model.parameter import Parameter
    from pycfmodel.model.cf_model import CFModel

    rng = common.rng_for("C04", seed)
    thorough = tier == "thorough"
    report.rule = (
        "(a) exhaustive table Type × Default × NoEcho × supplied value through Parameter.get_ref_value vs Template.refValue "
        f"({len(TYPES) * len(DEFAULTS) * len(NOECHO) * len(SUPPLIED)} rows, every run; each again with AllowedValues / AllowedPattern / length constraints the value does and does not meet); (b) generated templates whose parameters are declared / "
        "undeclared / defaulted / overridden / value-less / list-typed / NoEcho, with pseudo-parameter overrides and SSM keys, "
        "through CFModel.resolve vs Template.resolveT; (c) NoEcho: the same template resolved with two different random "
        "secrets must give equal models, and the secret text must not occur in the serialised resolved model outside the "
        "Parameters section; (d) has_hardcoded_credentials on Authentication metadata (one block, and three blocks naming the same field "
        "in every arrangement of absent / NoEcho marker / literal) and IAM user login profiles vs the model. "
        "distinct_nontrivial = distinct table rows + distinct templates with at least one reference."
    )
    # (a) exhaustive table
    rows, ops = [], []
    for ty, df, ne, sup in itertools.product(TYPES, DEFAULTS, NOECHO, SUPPLIED):
        decl = {"Type": ty}
        if df != "<absent>":
            decl["Default"] = df
        if ne != "<absent>":
            decl["NoEcho"] = ne
        rows.append((decl, sup))
        # the declaration's constraints (AllowedValues, AllowedPattern, lengths) are CloudFormation's to enforce at deploy
        # time: they never change which value a reference resolves to
        if sup is not None:
            rows.append((dict(decl, AllowedValues=["never-this"], AllowedPattern="^z+$", MaxLength=1, ConstraintDescription="c"), sup))
            rows.append((dict(decl, AllowedValues=[sup, 80, "80"]), sup))
        elif df != "<absent>":
            rows.append((dict(decl, AllowedValues=["never-this"]), sup))
    for decl, sup in rows:
        p = Parameter(**decl)
        ops.append(dict({"op": "param", "provided": common.enc(sup)}, **tmpl.decl_of(p)))
    model = driver.run(ops) if driver is not None else [None] * len(ops)
    for (decl, sup), op, mo in zip(rows, ops, model):
        p = Parameter(**decl)
        try:
            v = p.get_ref_value(sup)
            io = {"ref": common.canon(v)} if v is not None else {"ref": None, "is_none": True}
        except Exception as e:
            io = {"raised": common.exc_class(e)}
        report.case({"decl": decl, "supplied": sup}, ("row", common.jdump(decl), common.jdump(sup)), sample=(decl.get("NoEcho") is True and sup is not None))
        report.count("param-outcome:" + ("raised" if "raised" in io else ("none" if io.get("is_none") else type(v).__name__)))
        if mo is None:
            continue
        if "driver_error" in mo:
            raise common.InfraError(str(mo))
        if "outside_domain" in mo:
            report.count("outside-typed-fragment")
            continue
        if "ref" in mo and not mo.get("is_none"):
            mo = {"ref": common.dec(mo["ref"])}
        if io != mo:
            report.disagreements_checked += 1
            what = "get_ref_value-raises-" + io["raised"] if "raised" in io else "get_ref_value-differs"
            report.violation("correspondence+oracle", what, op={"op": "param", "decl": decl, "supplied": sup}, impl=io, model=mo,
                             oracle="Template.refValue (C04_precedence / C04_list_split / C04_noecho_markers / C04_total)")
    report.exhaustive = True
    report.extra["table_rows"] = len(rows)

    # (b) templates
    n = 6000 if thorough else 300
    cases = [tmpl.gen_template(rng, max_depth=2, cyclic_ok=False) for _ in range(n)]
    results = run_cases(report, driver, cases, "C04")
    for t, extra, io, mo, m2 in results:
        report.case({"template": "…", "extra": extra}, common.jdump([t["Parameters"], t["Resources"], extra]))
        if mo is None or "outside_domain" in mo:
            continue
        if "raised" in io and "resources" not in io:
            report.violation("oracle", "resolve-raises:" + io["raised"], op={"template": t, "extra": extra}, impl=io)
            continue
        mr, mc = common.dec(mo["resources"]), common.dec(mo["conditions"])
        if io.get("resources") != mr or io.get("conditions") != mc:
            report.disagreements_checked += 1
            bad = [k for k in mr if io.get("resources", {}).get(k) != mr[k]]
            report.violation("correspondence+oracle", "resolved-template-differs", op={"template": t, "extra": extra, "resource": bad[:1]},
                             impl={k: io.get("resources", {}).get(k) for k in bad[:1]} or io.get("conditions"),
                             model={k: mr[k] for k in bad[:1]} or mc,
                             oracle="Template.bind precedence (C04_bind_declared / C04_bind_undeclared) + Spec.resolve")

    # (c) NoEcho noninterference and secret search
    k = 0
    for i in range(400 if thorough else 40):
        t, extra = tmpl.gen_template(rng, max_depth=2, cyclic_ok=False)
        s1, s2 = "S3cr3t-%08x" % rng.getrandbits(32), "0ther-%08x" % rng.getrandbits(32)
        ne = {"Type": "String", "NoEcho": True}
        with_default = rng.random() < 0.3
        if with_default:
            ne["Default"] = s1
        t["Parameters"]["Secret"] = ne
        g_props = {"Password": {"Ref": "Secret"}, "Conn": {"Fn::Sub": "user:${Secret}@host"}, "J": {"Fn::Join": ["", ["p=", {"Ref": "Secret"}]]},
                   "B": {"Fn::Base64": {"Ref": "Secret"}}, "Sel": {"Fn::Select": [0, [{"Ref": "Secret"}]]}, "Sp": {"Fn::Split": ["-", {"Ref": "Secret"}]},
                   "If": {"Fn::If": ["IsProd", {"Ref": "Secret"}, "x"]}}
        t["Resources"]["Sec"] = {"Type": "Custom::Secretive", "Properties": g_props}
        t["Conditions"]["SecretIsX"] = {"Fn::Equals": [{"Ref": "Secret"}, s1]}
        outs = []
        for s in (s1, s2):
            ex = dict(extra)
            if not with_default or rng.random() < 0.5:
                ex["Secret"] = s
            try:
                m = tmpl.parse(t)
                m2 = m.resolve(copy.deepcopy(ex))
            except Exception as e:
                outs.append(("raised", common.exc_class(e)))
                continue
            dump = m2.model_dump()
            dump.pop("Parameters", None)
            text = json.dumps(common.enc(dump), ensure_ascii=False) + repr(m2.Resources) + repr(m2.Conditions)
            outs.append((dump, text, "Secret" in ex))
        k += 1
        report.case({"noecho": True}, ("noecho", i))
        if any(o[0] == "raised" for o in outs):
            continue
        for (dump, text, supplied), s in zip(outs, (s1, s2)):
            if s in text or (with_default and s1 in text):
                report.violation("oracle", "noecho-value-appears-in-resolved-model", op={"template": t, "secret": s},
                                 oracle="text search of the serialised resolved model (Parameters section excluded)")
        if outs[0][2] == outs[1][2] and common.canon(outs[0][0]) != common.canon(outs[1][0]):
            report.violation("oracle", "resolved-model-depends-on-noecho-value", op={"template": t, "secrets": [s1, s2]},
                             oracle="C04_noninterference: two supplied values of a NoEcho parameter must give equal resolved models")
    report.extra["noecho_templates"] = k

    # (d) credentials
    NE = Parameter.NO_ECHO_NO_DEFAULT
    vals = ["<absent>", NE, "AKIAEXAMPLE", "", None, 5]
    cred_cases = []
    for a, p, s in itertools.product(vals, vals[:4], vals[:4]):
        auth = {}
        for f, v in (("accessKeyId", a), ("password", p), ("secretKey", s)):
            if v != "<absent>":
                auth[f] = v
        cred_cases.append({"AWS::CloudFormation::Authentication": {"cred1": {"type": "S3"}, "cred2": auth}})
    # several blocks naming the same credential field: each block is judged on its own, in whatever order they come
    for f in ("accessKeyId", "password", "secretKey"):
        for v1, v2, v3 in itertools.product(["<absent>", NE, "hunter2"], repeat=3):
            blocks = {}
            for name, v in (("legacy", v1), ("repo", v2), ("mirror", v3)):
                b = {"type": "basic", "username": "deploy", "uris": ["http://repo.example/"]}
                if v != "<absent>":
                    b[f] = v
                blocks[name] = b
            cred_cases.append({"AWS::CloudFormation::Authentication": blocks})
    cred_cases += [None, {}, {"Other": 1}, {"AWS::CloudFormation::Authentication": {}}, {"AWS::CloudFormation::Authentication": {"c": {"accessKeyId": NE}}}]
    ops, impls = [], []
    from pycfmodel.model.resources.generic_resource import GenericResource
    from pycfmodel.model.resources.iam_user import IAMUser

    for md in cred_cases:
        r = GenericResource(Type="Custom::X", Metadata=md)
        try:
            io = {"hardcoded": bool(r.has_hardcoded_credentials())}
        except Exception as e:
            io = {"raised": common.exc_class(e)}
        impls.append(io)
        ops.append({"op": "creds", "metadata": common.enc(md)})
    for pw in ["<absent>", NE, "hunter2", "", {"Ref": "P"}]:
        dirty = {"AWS::CloudFormation::Authentication": {"S3Access": {"type": "S3", "accessKeyId": "AKIAEXAMPLE", "secretKey": "s3cr3t"}}}
        marker_only = {"AWS::CloudFormation::Authentication": {"c": {"accessKeyId": NE, "secretKey": NE}}}
        for md in (None, cred_cases[1], dirty, marker_only, cred_cases[len(cred_cases) // 2]):
            lp = {} if pw == "<absent>" else {"Password": pw}
            u = IAMUser(Type="AWS::IAM::User", Properties={"LoginProfile": lp}, Metadata=md)
            try:
                io = {"hardcoded": bool(u.has_hardcoded_credentials())}
            except Exception as e:
                io = {"raised": common.exc_class(e)}
            impls.append(io)
            ops.append({"op": "creds", "metadata": common.enc(md), "login_profile": common.enc(lp)})
    model = driver.run(ops) if driver is not None else [None] * len(ops)
    for op, io, mo in zip(ops, impls, model):
        report.case(op, ("creds", common.jdump(op)), sample=False)
        if mo is None or "outside_domain" in mo:
            continue
        if io != mo:
            report.disagreements_checked += 1
            report.violation("correspondence+oracle", "has_hardcoded_credentials-differs", op=op, impl=io, model=mo,
                             oracle="Template.hardcodedMeta / hardcodedUser (C04_credentials_iff)")
    report.notes += [
        "the Default of a NoEcho parameter stays inside the Parameters declaration of the resolved model (scope decision: that is the template's own text)",
        "values and defaults are scalars (str()/split of containers is outside the typed fragment)",
    ]
