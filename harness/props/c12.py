"""C12 — condition blocks combine operators, keys, values and qualifiers as IAM specifies."""
from .. import common, gencond
from .c11 import evaluate, show

CORPUS = [
    # D18: late-binding closures: two list-valued keys
    ({"StringEquals": {"a": ["1", "2"], "b": ["3", "4"]}}, {"a": "9", "b": "3"}),
    # D19: negated operator with several values must exclude all of them
    ({"StringNotEquals": {"a": ["1", "2"]}}, {"a": "1"}),
    ({"ForAllValues:StringEquals": {"a": ["1", "2"]}, "NumericLessThan": {"n": 5}}, {"a": ["1", "2", "1"], "n": 4}),
    ({"ForAnyValue:StringLike": {"a": ["x*", "y?"]}}, {"a": ["zz", "yq"]}),
    ({"StringEqualsIfExists": {"a": "1", "b": "2"}}, {"b": "2"}),
    ({"ForAllValues:StringEqualsIfExists": {"a": ["1"], "b": ["2"]}}, {"a": ["1"], "b": ["3"]}),
    ({"Null": {"a": "true"}, "Bool": {"b": "false"}}, {"a": None, "b": False}),
]


def run(report, tier, seed, driver, proofs_ok):
    rng = common.rng_for("C12", seed)
    thorough = tier == "thorough"
    n = 40000 if thorough else 2500
    report.rule = (
        "cases = (condition block, request context): 1–3 operators (any of the 159 field names, written with or without the "
        "colon), 1–3 keys per operator, scalar or 1–3 policy values per key, ForAllValues / ForAnyValue / IfExists; contexts "
        "generated relative to the block (matching / adjacent / unrelated / ill-typed scalar or list values, missing keys, "
        "None values). Direct oracle on the implementation: when every single-operator single-key part returns True/False, "
        "the block returns their conjunction. distinct_nontrivial = distinct (block, context) pairs with ≥2 keys or a "
        "qualifier or a value list."
    )
    cases = [(raw, ctx) for raw, ctx in CORPUS]
    for _ in range(n):
        raw = gencond.gen_block(rng)
        cases.append((raw, (lambda tb: gencond.gen_context(rng, tb))))
    results = evaluate(cases, driver, report, "C12")
    from pycfmodel.model.resources.properties.statement_condition import StatementCondition

    for raw, ctx, io, mo, tb, cond, op in results:
        nkeys = sum(len(k) for _, k in tb)
        interesting = nkeys >= 2 or any(isinstance(v, list) for _, ks in tb for _, v in ks) or any(n.startswith("For") or n.endswith("IfExists") for n, _ in tb)
        report.case({"block": raw, "ctx": {k: show(v) for k, v in ctx.items()}}, common.jdump(op) if interesting else None,
                    sample=interesting and rng.random() < 0.01)
        report.count("outcome:" + str(io.get("result", "raised")))
        report.count("operators:%d" % len(tb))
        if "raised" in io:
            report.violation("oracle", "condition-call-raises-" + io["raised"], op={"block": raw, "ctx": {k: show(v) for k, v in ctx.items()}}, impl=io,
                             oracle="calling a condition never raises (C12_never_raises)")
            continue
        if mo is not None and "outside_domain" not in mo and io != mo:
            report.disagreements_checked += 1
            what = classify(tb, io, mo)
            report.violation("correspondence+oracle", what, op={"op": "cond", "block": raw, "ctx": {k: show(v) for k, v in ctx.items()}, "wire": op},
                             impl=io, model=mo, oracle="IamCond.call: true iff every operator holds for every key (C12_true_iff)")
        # conjunction-of-parts oracle on the implementation alone
        collide = len({n.replace(":", "") for n in raw}) < len(raw)  # both spellings of one operator: the later one replaces the earlier
        if io.get("result") is not None and nkeys >= 2 and not collide:
            parts = []
            for name, keys in tb:
                for k, v in keys:
                    rawv = raw.get(name, raw.get(name.replace("ForAllValues", "ForAllValues:").replace("ForAnyValue", "ForAnyValue:"), {})).get(k)
                    if rawv is None:
                        parts = None
                        break
                    parts.append(StatementCondition.model_validate({name: {k: rawv}})(dict(ctx)))
                if parts is None:
                    break
            if parts and all(p is not None for p in parts) and bool(io["result"]) != all(parts):
                report.violation("oracle", "block-is-not-the-conjunction-of-its-parts", op={"block": raw, "ctx": {k: show(v) for k, v in ctx.items()}},
                                 impl={"block": io["result"], "parts": parts})
    report.notes += [
        "None vs False when one part is false and another raises follows Python's left-to-right short-circuit, which the model mirrors (operators in field-declaration order, keys in block order)",
    ]


def classify(tb, io, mo):
    multi_keys = any(len(ks) >= 2 for _, ks in tb)
    lists = any(isinstance(v, list) and len(v) >= 2 for _, ks in tb for _, v in ks)
    neg = any(n.replace("IfExists", "").replace("ForAllValues", "").replace("ForAnyValue", "") in gencond.NEGATED for n, _ in tb)
    if lists and neg:
        return "negated-operator-with-several-values"
    if multi_keys:
        return "several-keys-under-one-operator"
    return "block-result-differs"
