"""C07 — resolution is local and independent of declaration order.
Metamorphic oracle on the implementation (a template and its permuted / restricted / extended variants must
give each surviving resource the same resolved form) plus correspondence with Template.resolveT, which is proved
to depend on the environment only through lookups by name (C07_env_by_name) and on each resource alone
(C07_resource_local)."""
import copy

from .. import common, tmpl
from .c02 import run_cases


def shuffle_dict(rng, d):
    items = list(d.items())
    rng.shuffle(items)
    return dict(items)


def deep_shuffle(rng, x):
    if isinstance(x, dict):
        return shuffle_dict(rng, {k: deep_shuffle(rng, v) for k, v in x.items()})
    if isinstance(x, list):
        return [deep_shuffle(rng, v) for v in x]
    return x


def variants(rng, t):
    out = []
    v = copy.deepcopy(t)
    v["Resources"] = shuffle_dict(rng, v["Resources"])
    out.append(("resources-permuted", v, None))
    v = copy.deepcopy(t)
    for sec in ("Parameters", "Conditions", "Mappings"):
        v[sec] = shuffle_dict(rng, v.get(sec, {}))
    v["Mappings"] = {k: shuffle_dict(rng, {k2: shuffle_dict(rng, v2) for k2, v2 in m.items()}) for k, m in v["Mappings"].items()}
    out.append(("sections-permuted", v, None))
    v = copy.deepcopy(t)
    v["Resources"] = deep_shuffle(rng, v["Resources"])
    out.append(("object-keys-permuted", v, None))
    keys = list(t["Resources"])
    if len(keys) > 1:
        keep = rng.choice(keys)
        v = copy.deepcopy(t)
        v["Resources"] = {keep: v["Resources"][keep]}
        out.append(("other-resources-removed", v, [keep]))
    v = copy.deepcopy(t)
    v["Parameters"]["ZzUnused"] = {"Type": "String", "Default": "zz"}
    v["Mappings"]["ZzMap"] = {"a": {"b": "c"}}
    v["Conditions"]["ZzCond"] = {"Fn::Equals": ["a", "b"]}
    extra_res = {"Type": "Custom::Extra", "Properties": {"S": {"Fn::Sub": ["${Env}-${Name}-${Loc}", {"Env": "shadow", "Name": "shadow", "Loc": "l"}]}, "R": {"Ref": "Env"}}}
    v["Resources"] = dict([("Zz0", extra_res)] + list(v["Resources"].items()) + [("Zz1", copy.deepcopy(extra_res))])
    out.append(("unused-sections-and-resources-added", v, keys))
    return out


def run(report, tier, seed, driver, proofs_ok):
    rng = common.rng_for("C07", seed)
    thorough = tier == "thorough"
    n = 3000 if thorough else 150
    report.rule = (
        "cases = (template, variant) with variants: Resources permuted; Parameters/Conditions/Mappings (all three levels) "
        "permuted; every object's keys permuted at every depth; all other resources removed; an unused parameter, mapping, "
        "condition and two extra resources (whose Fn::Sub binds local variables named like parameters) added. Observable: "
        "the resolved dictionary of each surviving resource handed to re-validation and the condition table, compared as "
        "Python dicts between the template and its variant, and with Template.resolveT. distinct_nontrivial = distinct "
        "(template, variant kind) pairs whose base template resolves."
    )
    base = [tmpl.gen_template(rng, max_depth=3) for _ in range(n)]
    # corpus: a Fn::Sub variable map whose values mention the names of other variables of the same map
    for order in (["Env", "Name"], ["Name", "Env"]):
        loc = {"Env": "shadow", "Name": {"Fn::Join": ["-", ["app", {"Ref": "Env"}]]}}
        t = {"Parameters": {"Env": {"Type": "String", "Default": "prod"}}, "Mappings": {}, "Conditions": {},
             "Resources": {"Q": {"Type": "Custom::Q", "Properties": {"N": {"Fn::Sub": ["${Env}-${Name}", {k: loc[k] for k in order}]}}},
                           "P": {"Type": "Custom::P", "Properties": {"E": {"Ref": "Env"}}}}}
        base.insert(0, (t, {}))
    results = run_cases(report, driver, base, "C07")
    for t, extra, io, mo, m2 in results:
        report.case({"template": "…"}, None)
        if mo is not None and "outside_domain" not in mo and "resources" in io:
            if io["resources"] != common.dec(mo["resources"]) or io["conditions"] != common.dec(mo["conditions"]):
                report.disagreements_checked += 1
                report.violation("correspondence+oracle", "resolved-template-differs", op={"template": t, "extra": extra},
                                 impl=io["resources"], model=common.dec(mo["resources"]),
                                 oracle="Template.resolveT (proved local: C07_resource_local, C07_env_by_name)")
        if "resources" not in io:
            continue
        for kind, v, keep in variants(rng, t):
            try:
                io2, _, _ = tmpl.impl_tresolve(tmpl.parse(v), extra)
            except Exception as e:
                report.count("variant-does-not-parse:" + common.exc_class(e))
                continue
            report.case({"variant": kind}, (kind, common.jdump(t)), sample=False)
            report.count("variant:" + kind)
            if "resources" not in io2:
                report.violation("oracle", "variant-fails-to-resolve:" + kind, op={"template": t, "variant": v, "extra": extra}, impl=io2)
                continue
            names = keep if keep is not None else list(io["resources"])
            for name in names:
                a, b = io["resources"].get(name), io2["resources"].get(name)
                if a != b:
                    report.violation("oracle", "resource-changes-under:" + kind, op={"template": t, "variant": v, "extra": extra, "resource": name},
                                     impl={"original": a, "variant": b}, oracle="pairwise comparison of CFModel.resolve on a template and its variant")
                    break
            for c in io["conditions"]:
                if io2["conditions"].get(c) != io["conditions"][c]:
                    report.violation("oracle", "condition-changes-under:" + kind, op={"template": t, "variant": v, "extra": extra, "condition": c},
                                     impl={"original": io["conditions"][c], "variant": io2["conditions"].get(c)})
                    break
    report.notes += [
        "`adding unused parameters / mappings / conditions` is decided by the metamorphic oracle and the correspondence; the Lean theorems cover reordering, removal and addition of resources and reordering of sections",
    ]
