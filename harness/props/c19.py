"""C19 — malformed templates are rejected cleanly.
(a) every custom validator of the library, called directly on JSON values of every kind, against
    Validators.* (proved to let only ValueError escape: C19_exception_class);
(b) whole malformed templates through pycfmodel.parse in a sandboxed worker (memory limit, wall clock):
    the only admissible outcomes are a model or the library's ValidationError."""
import copy
import json

from .. import common, gen, sandbox, tmpl

SCALARS = [None, True, False, 0, 1, -5, 2**70, 1.5, "", "a", "true", "AWS::S3::Bucket", "aGVsbG8=", "not base64!", "é", "10.0.0.0/8", "::/0"]


def json_values(rng, n):
    out = list(SCALARS) + [[], ["a"], [1, 2], [["a"]], {}, {"a": 1}, {"Ref": "x"}, {"Fn::Sub": "${A}"}, {"a": {"b": []}}, [{"Ref": "x"}], ["AWS::S3::Bucket"], {"AWS::S3::Bucket": 1}]
    for _ in range(n):
        r = rng.random()
        if r < 0.4:
            out.append(rng.choice(SCALARS))
        elif r < 0.7:
            out.append([rng.choice(SCALARS) for _ in range(rng.randrange(0, 4))])
        else:
            out.append({rng.choice(["a", "Ref", "Fn::If", "Type", "b:c"]): rng.choice(SCALARS) for _ in range(rng.randrange(0, 3))})
    return out


def call(fn, *a):
    try:
        fn(*a)
        return "ok"
    except ValueError:
        return "ValueError"
    except BaseException as e:
        return common.exc_class(e)


def slot_cases(rng, n):
    """every typed slot of a statement / rule / bucket, holding in turn an intrinsic function (valid there), a value of the
    wrong kind, and — for condition blocks — both spellings of one operator with blocks that are not objects"""
    fns = [{"Ref": "P"}, {"Fn::If": ["C", "Allow", "Deny"]}, {"Fn::Sub": "${P}-x"}, {"Fn::Join": ["", ["a", {"Ref": "P"}]]}, {"Fn::FindInMap": ["M", "a", "b"]},
           {"Fn::GetAtt": ["R", "Arn"]}, {"Fn::Select": [0, ["a"]]}, {"Fn::ImportValue": "x"}, {"Condition": "C"}]
    wrong = [None, True, 5, 1.5, [], {}, [[]], {"a": "b"}, ["a", 5], "", "text", 2**70, " ", "\n", "\t ", "\u00a0", "[", "{", "-", "nul", "Custom::" + "Abcdefghij" * 5 + ".x", "[1" + "0" * 400 + ", \"x\"]", "[" + "9" * 350 + ", 1.5]", 10**400]
    out = []
    for _ in range(n):
        v = copy.deepcopy(rng.choice(fns + wrong if rng.random() < 0.8 else wrong))
        k = rng.randrange(5)
        if k == 0:
            st = {"Effect": "Allow", "Action": "s3:GetObject", "Resource": "*", "Principal": {"AWS": "*"}, "Sid": "s", "Condition": {"StringEquals": {"k": "v"}}}
            slot = rng.choice(["Effect", "Action", "Resource", "Principal", "Sid", "Condition", "NotAction", "NotResource", "NotPrincipal"])
            if slot == "Principal" and rng.random() < 0.5:
                st["Principal"] = {rng.choice(["AWS", "Service", "Federated", "CanonicalUser"]): v}
            else:
                st[slot] = v
            doc = {"Version": rng.choice(["2012-10-17", v]) if rng.random() < 0.2 else "2012-10-17", "Statement": rng.choice([[st], st])}
            res = rng.choice([{"Type": "AWS::IAM::ManagedPolicy", "Properties": {"PolicyDocument": doc}}, {"Type": "Custom::Holder", "Properties": {"Policy": {"PolicyDocument": doc}}},
                              {"Type": "AWS::IAM::Role", "Properties": {"AssumeRolePolicyDocument": doc, "Policies": [{"PolicyName": rng.choice(["n", v]) if rng.random() < 0.2 else "n", "PolicyDocument": doc}]}}])
        elif k == 1:
            op = rng.choice(["StringEquals", "ForAnyValue:StringEquals", "Bool", "IpAddress", "BinaryEquals", "DateLessThan", "NumericEquals", "Null", "ArnLike"])
            blk = {op: rng.choice([{"k": v}, v, {"k": [v, "x"]}])}
            if rng.random() < 0.4:
                # both spellings of one operator; either block may be anything
                a, b = "ForAnyValue:StringEquals", "ForAnyValueStringEquals"
                blk = {a: rng.choice([{"aws:TagKeys": ["t"]}, v]), b: rng.choice([v, {"k": "x"}])}
                if rng.random() < 0.5:
                    blk = dict(reversed(list(blk.items())))
            st = {"Effect": "Allow", "Action": "s3:*", "Resource": "*", "Condition": blk}
            res = rng.choice([{"Type": "AWS::SQS::QueuePolicy", "Properties": {"Queues": ["q"], "PolicyDocument": {"Statement": [st]}}}, {"Type": "Custom::Holder", "Properties": {"Statement": st}}])
        elif k == 2:
            rule = {"IpProtocol": "tcp", "FromPort": 22, "ToPort": 22, "CidrIp": "10.0.0.0/8"}
            rule[rng.choice(["IpProtocol", "FromPort", "ToPort", "CidrIp", "CidrIpv6", "Description", "SourceSecurityGroupId"])] = v
            res = rng.choice([{"Type": "AWS::EC2::SecurityGroup", "Properties": {"GroupDescription": "d", "SecurityGroupIngress": rng.choice([[rule], rule]), "SecurityGroupEgress": [rule]}},
                              {"Type": "AWS::EC2::SecurityGroupIngress", "Properties": dict(rule, GroupId="g")}, {"Type": "AWS::RDS::DBSecurityGroupIngress", "Properties": {"DBSecurityGroupName": "n", "CIDRIP": v}}])
        elif k == 3:
            props = {"BucketName": "b", "Tags": [{"Key": "k", "Value": "v"}], "PublicAccessBlockConfiguration": {"BlockPublicAcls": True}}
            slot = rng.choice(["BucketName", "Tags", "AccessControl", "PublicAccessBlockConfiguration", "VersioningConfiguration"])
            props[slot] = rng.choice([v, [{"Key": v, "Value": "v"}], {"BlockPublicAcls": v}]) if slot in ("Tags", "PublicAccessBlockConfiguration") else v
            res = {"Type": "AWS::S3::Bucket", "Properties": props}
        else:
            res = {"Type": "AWS::KMS::Key", "Properties": {"KeyPolicy": {"Statement": [{"Effect": "Allow", "Action": "kms:*", "Resource": "*", "Principal": "*"}]}, rng.choice(["EnableKeyRotation", "Enabled", "PendingWindowInDays", "Description", "MultiRegion"]): v}}
            if rng.random() < 0.3:
                res[rng.choice(["DependsOn", "Condition", "DeletionPolicy", "Metadata"])] = v
        out.append(("slot", {"Parameters": {"P": {"Type": "String", "Default": "p"}}, "Conditions": {"C": {"Fn::Equals": ["a", "a"]}}, "Mappings": {"M": {"a": {"b": "c"}}}, "Resources": {"R": res}}, 10.0))
    return out


def damage(rng, t):
    """one hostile change somewhere in an otherwise valid template"""
    t = copy.deepcopy(t)
    hostile = [None, True, 5, 1.5, "text", [], ["a"], {}, {"a": "b"}, [[]], {"Ref": "X"}, [{"a": 1}], "AWS::S3::Bucket", 2**70, -1, " ", "\n", "\t \n", [" "], {"k": "\n"},
               # long names with one odd character at the end (anything that scans them must do so in linear time), huge numbers
               "Custom::" + "CertificateValidationRequestor" * 2 + ".v2", "AWS::" + "A1" * 40 + "::" + "b" * 40 + "!", "a" * 60 + "\u00e9", 10**400, -(10**400),
               "[1" + "0" * 400 + ", \"x\"]", "[" + "9" * 350 + ", 1.5]", "[\"2020-01-01\", 1" + "0" * 400 + "]", "1" + "0" * 400, "1e400", "-1e400"]
    k = rng.randrange(12)
    res = t.get("Resources") or {}
    names = list(res)
    if k == 0 or not names:
        t[rng.choice(["Resources", "Parameters", "Conditions", "Mappings", "Outputs", "Metadata", "Transform", "AWSTemplateFormatVersion", "Description", "Rules", "Bogus"])] = rng.choice(hostile)
        return t
    r = res[rng.choice(names)]
    if k == 1:
        r["Type"] = rng.choice(hostile)
    elif k == 2:
        r["Properties"] = rng.choice(hostile)
    elif k == 3:
        r[rng.choice(["Condition", "DependsOn", "Metadata", "DeletionPolicy", "UpdatePolicy", "Bogus"])] = rng.choice(hostile)
    elif k == 4:
        res[rng.choice(names)] = rng.choice(hostile)
    else:
        # walk to a random place inside the resource and replace / insert
        cur, path = r, []
        for _ in range(rng.randrange(1, 7)):
            if isinstance(cur, dict) and cur:
                key = rng.choice(list(cur))
                if isinstance(cur[key], (dict, list)) and cur[key] and rng.random() < 0.8:
                    cur = cur[key]
                    continue
                if rng.random() < 0.5:
                    cur[key] = rng.choice(hostile)
                else:
                    cur[rng.choice(["Effect", "Action", "Principal", "Condition", "BinaryEquals", "IpAddress", "Bool", "CidrIp", "Type", "Statement", "Sid", "Fn::If", "Ref"])] = rng.choice(hostile)
                break
            if isinstance(cur, list) and cur:
                i = rng.randrange(len(cur))
                if isinstance(cur[i], (dict, list)) and cur[i] and rng.random() < 0.8:
                    cur = cur[i]
                    continue
                cur[i] = rng.choice(hostile)
                break
            break
    return t


def deep(kind, depth):
    v = "leaf"
    for _ in range(depth):
        v = {"k": v} if kind == "obj" else [v]
    return v


def run(report, tier, seed, driver, proofs_ok):
    import pycfmodel.model.generic as g
    import pycfmodel.model.types as ty
    from pycfmodel.model.base import FunctionDict
    from pycfmodel.model.resources.generic_resource import GenericResource
    from pycfmodel.model.resources.properties.statement_condition import StatementCondition
    from pycfmodel.model.resources.types import ResourceModels

    rng = common.rng_for("C19", seed)
    thorough = tier == "thorough"
    report.rule = (
        "(a) validator sites: check_type, validate_binary, FunctionDict.check_if_valid_function, Generic.casting, "
        "StatementCondition.remove_colon, SemiStrictBool, LooseIPv4Network/LooseIPv6Network called directly on JSON values of "
        "every kind (null, booleans, small / huge integers, floats, text, lists, objects, nested) in strict and non-strict "
        "mode; (b) malformed templates: a generated valid template with one hostile value (wrong container kind, non-string "
        "Type, ill-typed condition value, unknown section, hostile value at a validator site) at a random place, whole-template "
        "hostile values, and deep (to 3000 levels) / wide (to 200k members) / long-text inputs, through pycfmodel.parse in a "
        "sandboxed worker. distinct_nontrivial = distinct (site, value kind) pairs + distinct malformed templates."
    )
    modelled = sorted(k.model_fields["Type"].annotation.__args__[0] for k in ResourceModels.__args__[0].__args__)
    values = json_values(rng, 600 if thorough else 120)
    ops = []
    impls = []
    for v in values:
        for strict in (True, False):
            GenericResource._strict = strict
            try:
                io = {
                    "check_type": call(lambda: GenericResource(Type=copy.deepcopy(v))) if False else call(check_type_site, GenericResource, v),
                    "validate_binary": call(ty.validate_binary, v),
                    "check_function": call(FunctionDict.check_if_valid_function, copy.deepcopy(v)),
                    "generic_casting": call(g.Generic.casting, copy.deepcopy(v)),
                    "remove_colon": call(StatementCondition.remove_colon, copy.deepcopy(v)),
                    "semi_strict_bool": call(ty.SemiStrictBool, v),
                    "loose_network": call(ty.LooseIPv4Network, v),
                    "loose_network6": call(ty.LooseIPv6Network, v),
                }
            finally:
                GenericResource._strict = True
            impls.append((v, strict, io))
            ops.append({"op": "validators", "value": common.enc(v), "modelled": modelled, "strict": strict})
    model = driver.run(ops) if driver is not None else [None] * len(ops)
    for (v, strict, io), mo in zip(impls, model):
        report.case({"value": v, "strict": strict}, ("site", type(v).__name__, common.jdump(common.enc(v))[:60], strict), sample=False)
        for site, out in io.items():
            report.count(f"site:{site}:{out}")
            if out not in ("ok", "ValueError"):
                report.violation("oracle", f"validator-{site}-lets-{out}-escape", op={"site": site, "value": v, "strict": strict}, impl={"outcome": out},
                                 oracle="a custom validator must accept or raise ValueError (C19_exception_class)")
        if mo is None:
            continue
        if "driver_error" in mo:
            raise common.InfraError(str(mo))
        for site in ("check_type",):
            if io[site] != mo[site]:
                report.disagreements_checked += 1
                report.violation("correspondence+oracle", f"validator-{site}-differs", op={"site": site, "value": v, "strict": strict}, impl=io[site], model=mo[site],
                                 oracle="Validators.checkType (C19_check_type)")
        for site in ("validate_binary", "check_function", "generic_casting", "remove_colon", "semi_strict_bool", "loose_network"):
            clean_impl = io[site] in ("ok", "ValueError")
            clean_model = mo[site] in ("ok", "ValueError")
            if clean_impl != clean_model:
                report.disagreements_checked += 1
                report.violation("correspondence+oracle", f"validator-{site}-differs", op={"site": site, "value": v}, impl=io[site], model=mo[site])

    # (b) whole templates in the sandbox
    sb = sandbox.Sandbox()
    n = 3000 if thorough else 250
    cases = []
    for v in [None, True, 5, "text", [], ["a"], {}, {"Resources": None}, {"Resources": []}, {"Resources": {"R": None}}, {"Resources": {"R": []}}, {"Resources": {"R": {"Type": ["a"]}}},
              {"Resources": {"R": {"Type": {"a": 1}, "Properties": {}}}}, {"Resources": {"R": {"Type": "AWS::IAM::Policy", "Properties": {"PolicyName": "p", "PolicyDocument": {"Statement": [{"Effect": "Allow", "Action": "*", "Resource": "*", "Condition": {"BinaryEquals": {"k": 5}}}]}}}}}]:
        cases.append(("whole", v, 10.0))
    for i in range(n):
        t, _ = tmpl.gen_template(rng, max_depth=2)
        if rng.random() < 0.5:
            r, _ = gen.gen_iam_resource(rng, tag=f"x{i}", with_condition=True)
            t["Resources"]["Iam"] = r
        cases.append(("damaged", damage(rng, t), 10.0))
    cases += slot_cases(rng, 400 if thorough else 150)
    depths = [50, 200, 400, 600, 1000, 3000, 5000, 20000] if thorough else [50, 400, 1000, 5000]
    deep_ops = []
    for d in depths:
        for kind in ("obj", "arr"):
            for where in ("properties", "metadata", "type", "resource-condition", "resource-member", "resource", "modelled-property", "policy-action", "condition-value",
                          "parameter-default", "parameter-type", "conditions", "mappings", "outputs", "description", "function-body", "resources", "json-text", "ip-property", "ip-condition", "typed-leaf-slots"):
                deep_ops.append({"op": "parse_deep", "kind": kind, "depth": d, "where": where})
    for w in ([1000, 20000, 200000] if thorough else [1000, 20000]):
        cases.append(("wide-list", {"Resources": {"R": {"Type": "Custom::Wide", "Properties": {"P": ["x"] * w}}}}, 30.0))
        cases.append(("wide-resources", {"Resources": {f"R{i}": {"Type": "Custom::W"} for i in range(w // 10)}}, 30.0))
        cases.append(("long-text", {"Resources": {"R": {"Type": "Custom::Long", "Properties": {"P": "a" * (w * 5), "Q": "[" * w}}}}, 30.0))
    for op in deep_ops:
        out = sb.run(op, timeout=30.0)
        kind = f"deep-{op['kind']}-{op['where']}"
        oc = out["outcome"] if out["outcome"] != "raised" else out["class"]
        report.case(op, (kind, op["depth"]))
        report.count(f"parse:{kind}:{oc}")
        if out["outcome"] == "ok" or out.get("class") == "ValidationError":
            continue
        report.violation("oracle", f"parse-{oc}:{kind}", op=op, impl=out,
                         oracle="parse must return a model or raise the library's ValidationError for input of any nesting depth",
                         nesting_depth=op["depth"])
    for kind, t, budget in cases:
        out = sb.run({"op": "parse", "template": t}, timeout=budget)
        size = len(json.dumps(t)) if kind != "whole" else 0
        report.case({"kind": kind, "size": size}, (kind, common.jdump(t)[:200]) if kind != "damaged" else common.jdump(t), sample=(kind == "damaged" and out.get("class") == "ValidationError" and size < 700 and rng.random() < 0.1))
        oc = out["outcome"] if out["outcome"] != "raised" else out["class"]
        report.count(f"parse:{kind}:{oc}")
        if out["outcome"] == "ok" or out.get("class") == "ValidationError":
            if out.get("ms", 0) > 1000 * budget / 2:
                report.count("slow-but-finished")
            continue
        depth_info = None
        what = f"parse-{oc}" + (f":{kind}" if kind.startswith(("deep", "wide", "long")) else "")
        report.violation("oracle", what, op={"op": "parse", "kind": kind, "template": t if size < 4000 else f"<{kind} of {size} bytes>"}, impl=out,
                         oracle="parse must return a model or raise the library's ValidationError, within time and memory bounded by the input size",
                         nesting_depth=depth_info)
    sb.close()
    report.extra["sandbox_restarts"] = sb.restarts
    report.notes += [
        "stack depth, memory and wall time are runtime: exercised with deep / wide inputs under RLIMIT_AS and a wall clock, not proved (partial)",
        "pydantic-core's own handling of malformed input is trusted beyond what the malformed stream exercises",
    ]


def check_type_site(cls, v):
    """the `Type` before-validator as pydantic runs it"""
    import inspect

    fn = cls.check_type
    try:
        return fn(v, None)
    except TypeError as e:
        if "positional argument" in str(e) or "missing" in str(e):
            return inspect.unwrap(fn)(cls, v, None)
        raise
