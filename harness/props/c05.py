"""C05 — the analysis pipeline never fails on a valid, fully resolvable template.
Whole templates over the cross product of the constructs the property names are run through the full pipeline
(parse → resolve → expand_actions → every query on the parsed, resolved and expanded model → re-validation) in a
sandboxed worker under RLIMIT_AS and a wall clock derived from the size of the template. Which templates are
"valid and fully resolvable" is decided by the Lean model: the template is in scope when Template.resolveT is
defined on it (theorem C05_resolve_progress says this holds for every well-typed template). Time must not depend on
the magnitude of the values: every case is also run with its CIDR ranges widened to /0 and its numbers enlarged,
under the same budget."""
import copy
import json

from .. import common, gen, gencond, sandbox, tmpl
from . import c15


def cidr4(rng, width=None):
    w = rng.randrange(0, 33) if width is None else width
    return f"{rng.choice(['10.0.0.0', '0.0.0.0', '172.16.0.0', '192.168.1.0', '8.8.8.8'])}/{w}"


def cidr6(rng, width=None):
    w = rng.randrange(0, 129) if width is None else width
    return f"{rng.choice(['::', '2001:db8::', 'fe80::', 'fd00::'])}/{w}"


def generic_network_resource(rng):
    """unmodelled resources holding CIDR ranges of any width, singly, in lists and nested"""
    return {"Type": rng.choice(["AWS::EC2::NetworkAclEntry", "Custom::Firewall", "AWS::WAFv2::IPSet", "AWS::EC2::Route"]), "Properties": {
        "CidrBlock": cidr4(rng), "Ipv6CidrBlock": cidr6(rng),
        "Addresses": [cidr4(rng) for _ in range(rng.randrange(0, 5))] + [cidr6(rng) for _ in range(rng.randrange(0, 3))],
        "Nested": {"Sources": [{"Cidr": cidr4(rng), "Port": rng.choice([22, "22", 2**31, 10**12])}], "Mixed": [cidr4(rng), "sg-0123", 5, True]},
        "Wide": rng.choice(["0.0.0.0/0", "::/0", "10.0.0.0/1", ["0.0.0.0/0", "128.0.0.0/1"], ["::/0", "::/1"]]),
        "NestedText": rng.choice(["[" * d + "]" * d for d in (3, 200, 2000, 6000)] + ['{"a":' * d + "1" + "}" * d for d in (2, 1500)] + ["[1, 2", "{]", '"quoted"']),
    }}


def condition_resource(rng, i):
    """every operator family, incl. binary, dates and IP ranges of any width, in a modelled and in an unmodelled holder"""
    blk = gencond.gen_block(rng)
    if rng.random() < 0.4:
        blk["IpAddress"] = {"aws:SourceIp": rng.choice([cidr4(rng), [cidr4(rng), cidr6(rng)], "0.0.0.0/0"])}
    if rng.random() < 0.3:
        blk[rng.choice(["BinaryEquals", "ForAnyValue:BinaryEquals", "BinaryEqualsIfExists"])] = {"k": rng.choice(["QUJDRA==", ["QQ==", "QUI="], ""])}
    if rng.random() < 0.3:
        blk["DateGreaterThan"] = {"aws:CurrentTime": rng.choice(["2020-01-01T00:00:00Z", "2020-01-01", 1577836800, "1577836800"])}
    st = {"Effect": rng.choice(["Allow", "Deny"]), "Action": gen.gen_action_value(rng, allow_empty=False), "Resource": "*", "Principal": gen.gen_principal(rng), "Condition": blk}
    doc = {"Version": "2012-10-17", "Statement": [st]}
    if i % 2:
        return {"Type": "AWS::SQS::QueuePolicy", "Properties": {"Queues": ["q"], "PolicyDocument": doc}}
    return {"Type": "Custom::PolicyHolder", "Properties": {"Name": "n", "Policy": {"PolicyDocument": doc}, "Statement": st}}


def optional_props_resource(rng):
    """Fn::If / AWS::NoValue on optional properties of modelled resources"""
    nov = {"Ref": "AWS::NoValue"}
    iff = lambda a: {"Fn::If": [rng.choice(["IsProd", "IsDev"]), a, nov]}  # noqa: E731
    k = rng.randrange(4)
    if k == 0:
        return {"Type": "AWS::S3::Bucket", "Properties": {"BucketName": iff("b"), "AccessControl": nov, "Tags": iff([{"Key": "k", "Value": "v"}]),
                                                         "PublicAccessBlockConfiguration": iff({"BlockPublicAcls": True})}}
    if k == 1:
        return {"Type": "AWS::IAM::Role", "Properties": {"AssumeRolePolicyDocument": {"Statement": [{"Effect": "Allow", "Principal": {"Service": "ec2.amazonaws.com"}, "Action": "sts:AssumeRole"}]},
                                                       "Path": iff("/"), "ManagedPolicyArns": iff(["arn:aws:iam::aws:policy/ReadOnlyAccess"]), "Policies": nov, "RoleName": iff({"Fn::Sub": "${Env}-role"})}}
    if k == 2:
        return {"Type": "AWS::EC2::SecurityGroup", "Properties": {"GroupDescription": "d", "VpcId": iff("vpc-1"), "SecurityGroupIngress": [
            {"IpProtocol": "tcp", "FromPort": 22, "ToPort": 22, "CidrIp": iff(cidr4(rng)), "CidrIpv6": nov, "Description": iff("x")},
            iff({"IpProtocol": "-1", "CidrIpv6": cidr6(rng)})], "SecurityGroupEgress": nov}}
    return {"Type": "AWS::KMS::Key", "Properties": {"KeyPolicy": {"Statement": [{"Effect": "Allow", "Principal": "*", "Action": iff("kms:*"), "Resource": "*"}]}, "EnableKeyRotation": iff(True), "Description": nov}}


def list_param_resource(rng):
    """list-typed and value-less parameters, used where a list / a string is expected"""
    return {"Type": "Custom::Uses", "Properties": {"Subnets": {"Ref": "Subnets"}, "First": {"Fn::Select": [0, {"Ref": "Names"}]}, "Joined": {"Fn::Join": [",", {"Ref": "Names"}]},
                                                   "Ports": {"Ref": "Ports"}, "OnePort": {"Ref": "OnePort"}, "FirstZone": {"Fn::Select": [0, {"Ref": "Zones"}]}, "Missing": {"Ref": "NoValueList"}, "Plain": {"Ref": "NoValue"},
                                                   # the section of an Fn::If that is not taken need not make sense for this assignment (here: text used as an index)
                                                   "Az1": {"Fn::If": ["AlwaysTrue", {"Ref": "Env"}, {"Fn::Select": [{"Ref": "Env"}, ["a", "b"]]}]},
                                                   "Az2": {"Fn::If": ["AlwaysFalse", {"Fn::Select": [{"Ref": "Env"}, ["a", "b"]]}, {"Ref": "Env"}]},
                                                   "Each": [{"Ref": "Env"}, {"Fn::Sub": "${Env}-${AWS::Region}"}],
                                                   # numbers and booleans stored in a mapping, joined into text
                                                   "Desc": {"Fn::Join": ["", ["port ", {"Fn::FindInMap": ["Stages", rng.choice(["prod", "dev", {"Ref": "Env"}]), rng.choice(["Port", "Secure"])]}]]},
                                                   "Ports2": {"Fn::Join": [",", [{"Fn::FindInMap": ["Stages", "prod", "Port"]}, {"Ref": "Count"}, "x"]]}}}


PARAMS = {
    "Env": {"Type": "String", "Default": "dev"},
    "Names": {"Type": "CommaDelimitedList", "Default": "a,b,c"},
    "Subnets": {"Type": "List<AWS::EC2::Subnet::Id>", "Default": "subnet-1,subnet-2"},
    "Ports": {"Type": "List<Number>", "Default": "80,443"},
    "OnePort": {"Type": "List<Number>", "Default": 443},  # a single number, written as a number (YAML `Default: 443`)
    "Zones": {"Type": "CommaDelimitedList", "Default": 1},
    "NoValueList": {"Type": "CommaDelimitedList"},
    "NoValue": {"Type": "String"},
    "NoValueNumber": {"Type": "Number"},
    "Count": {"Type": "Number", "Default": 3},
    "Flag": {"Type": "String", "Default": "true", "AllowedValues": ["true", "false"]},
    "Secret": {"Type": "String", "NoEcho": True},
}


def gen_case(rng, i):
    res = {}
    kinds = []
    for j in range(rng.randrange(2, 6)):
        k = rng.randrange(9)
        if k == 0:
            r = generic_network_resource(rng)
        elif k == 1:
            r = condition_resource(rng, j)
        elif k == 2:
            r = optional_props_resource(rng)
        elif k == 3:
            r = list_param_resource(rng)
        elif k == 4:
            r = gen.gen_generic_action_resource(rng)
        elif k == 5:
            r = rng.choice(c15.typed_variants(rng))
        elif k == 6:
            vr = gen.valid_resources(rng)
            r = vr[rng.choice(sorted(vr))]
        elif k == 7:
            r, _ = gen.gen_iam_resource(rng, tag=f"I{j}", with_condition=True)
        else:
            r = {"Type": rng.choice(["Custom::Anything", "AWS::Lambda::Function", "AWS::ECS::TaskDefinition"]), "Properties": {f"P{x}": c15.gen_generic_value(rng) for x in range(rng.randrange(1, 4))}}
        kinds.append(k)
        res[f"R{j}"] = r
    t = {"AWSTemplateFormatVersion": "2010-09-09", "Description": "d", "Parameters": copy.deepcopy(PARAMS),
         "Conditions": {"IsProd": {"Fn::Equals": [{"Ref": "Env"}, "prod"]}, "IsDev": {"Fn::Not": [{"Condition": "IsProd"}]},
                        "AlwaysTrue": {"Fn::Equals": ["a", "a"]}, "AlwaysFalse": {"Fn::Equals": ["a", "b"]}},
         "Mappings": {"M": {"a": {"b": "c"}}, "Stages": {"prod": {"Port": 8443, "Secure": True}, "dev": {"Port": 8080, "Secure": False}}}, "Resources": res, "Outputs": {"O": {"Value": {"Ref": "R0"}}}}
    extra = rng.choice([{}, {"Env": "prod"}, {"Env": "prod", "Names": "x", "NoValue": "given", "Ports": "1,2,3"}, {"NoValueList": "p,q", "Unused": "u"}, {"Ports": 8443, "Count": 7}, {"Names": 5, "Env": "dev"}])
    if i % 5 == 4:
        # all sixteen functions, in the properties of unmodelled resources (any value fits there; whether the expression
        # itself is well typed is the model's verdict)
        t2, extra = tmpl.gen_template(rng, max_depth=3, cyclic_ok=True)
        generic = {k: v for k, v in t2["Resources"].items() if v["Type"] in ("Custom::Thing", "AWS::SSM::Parameter", "AWS::Lambda::Function")}
        t2["Resources"] = {**generic, **{k: v for k, v in list(res.items())[:3]}}
        for k, v in PARAMS.items():
            t2["Parameters"].setdefault(k, v)
        t2["Conditions"].setdefault("IsProd", t["Conditions"]["IsProd"])
        t2["Conditions"].setdefault("IsDev", t["Conditions"]["IsDev"])
        t2["Conditions"].setdefault("AlwaysTrue", t["Conditions"]["AlwaysTrue"])
        t2["Conditions"].setdefault("AlwaysFalse", t["Conditions"]["AlwaysFalse"])
        t2["Mappings"].update(t["Mappings"])
        t = t2
        kinds = kinds[:3] + ["functions"]
    return t, extra, kinds


def magnify(x):
    """the same template with every CIDR range widened to /0 (or /1) and every large number made larger"""
    import re

    if isinstance(x, dict):
        return {k: magnify(v) for k, v in x.items()}
    if isinstance(x, list):
        return [magnify(v) for v in x]
    if isinstance(x, str):
        if re.fullmatch(r"\d+\.\d+\.\d+\.\d+/\d+", x):
            return "0.0.0.0/0"
        if re.fullmatch(r"[0-9a-fA-F:]*:[0-9a-fA-F:]*/\d+", x):
            return "::/0"
        return x
    return x


def budget_s(t):
    """wall-clock budget from the size of the template: a constant, a term per character and a term per action pattern
    (each pattern is matched against the whole catalogue); no term for the magnitude of any value"""
    text = json.dumps(t)
    patterns = text.count('"Action"') + text.count('"NotAction"') + text.count(":*") + 1
    return 8.0 + 0.0005 * len(text) + 0.6 * patterns


CORPUS = [
    # D13: a wide CIDR range in an unmodelled resource (parse used to enumerate every address)
    ({"Resources": {"N": {"Type": "Custom::Net", "Properties": {"Cidrs": ["10.0.0.0/8", "0.0.0.0/0"], "One": "::/0"}}}}, {}),
    # D11: BinaryEquals in a modelled resource, then resolve
    ({"Resources": {"P": {"Type": "AWS::S3::BucketPolicy", "Properties": {"Bucket": "b", "PolicyDocument": {"Statement": [
        {"Effect": "Allow", "Action": "s3:GetObject", "Resource": "*", "Principal": "*", "Condition": {"BinaryEquals": {"k": "QUJDRA=="}}}]}}}}}, {}),
    # D10: a WAF rule's object-valued Action, then expand_actions
    ({"Resources": {"W": {"Type": "AWS::WAFv2::WebACL", "Properties": {"Rules": [{"Name": "r", "Action": {"Block": {}}}]}}}}, {}),
    # D5: list parameter without value
    ({"Parameters": {"L": {"Type": "CommaDelimitedList"}}, "Resources": {"C": {"Type": "Custom::X", "Properties": {"V": {"Ref": "L"}}}}}, {}),
    # a string property holding deeply nested JSON text: json.loads gives up (RecursionError), the text is a string
    ({"Resources": {"S": {"Type": "AWS::SSM::Parameter", "Properties": {"Name": "nested", "Type": "String", "Value": "[" * 5000 + "]" * 5000, "Other": '{"a":' * 3000 + "1" + "}" * 3000}}}}, {}),
    # D28: a single-member object named Condition holding a block (known finding)
    ({"Resources": {"G": {"Type": "Custom::Thing", "Properties": {"Condition": {"StringEquals": {"a": "b"}}}}}}, {}),
]


def run(report, tier, seed, driver, proofs_ok):
    rng = common.rng_for("C05", seed)
    thorough = tier == "thorough"
    n = 1500 if thorough else 110
    report.rule = (
        "cases = whole templates of 2–5 resources drawn from nine families (unmodelled resources with CIDR ranges of every width singly / in lists / "
        "nested; condition blocks over every operator incl. binary, dates, IP ranges in modelled and unmodelled holders; Fn::If / AWS::NoValue on "
        "optional properties of modelled resources; list-typed and value-less parameters; unmodelled properties named Action; every modelled type "
        "with every leaf type; IAM resources; arbitrary generic values), one case in five merged with the all-functions template generator, × "
        "parameter assignments; each also in a magnified variant (every CIDR range /0). In scope = Template.resolveT (Lean) is defined on the parsed "
        "template. Pipeline in a sandboxed worker (RLIMIT_AS 3 GiB): parse, resolve, expand_actions, all queries on the three models, re-validation; "
        "budget = 8 s + 0.5 ms/char + 0.6 s/action pattern. distinct_nontrivial = in-scope templates run."
    )
    sb = sandbox.Sandbox(mem_bytes=3 * 1024**3)
    cases = [(t, e, ["corpus"]) for t, e in CORPUS] + [gen_case(rng, i) for i in range(n)]
    # phase 1: which (template, variant) pairs are in scope — one batch for the model
    todo, ops = [], []
    for t, extra, kinds in cases:
        for variant, tv in (("as-written", t), ("magnified", magnify(t))):
            if variant == "magnified" and tv == t:
                continue
            item = {"t": tv, "extra": extra, "kinds": kinds, "variant": variant, "scope": True, "why": "", "op": None}
            if driver is not None:
                try:
                    m = common.with_timeout(tmpl.parse, 10.0, tv)
                    item["op"] = len(ops)
                    ops.append(tmpl.model_op(m, extra))
                except common.WallClockExceeded:
                    pass  # every family generates valid definitions: a parse that does not finish is a finding of phase 2
                except Exception as e:
                    # every family builds valid definitions: a template rejected at parse is a failure of the first stage
                    report.count("outcome:raised:parse")
                    report.violation("oracle", f"pipeline-raises-{common.exc_class(e)}:parse", op={"template": tv, "extra": extra, "variant": variant}, impl={"message": str(e)[:300]},
                                     oracle="parse of a template built from valid definitions", shape="other")
                    item["scope"], item["why"] = False, "does-not-parse:" + common.exc_class(e)
            todo.append(item)
    outs = driver.run(ops, timeout=1800) if ops else []
    for item in todo:
        if item["op"] is not None:
            mo = outs[item["op"]]
            if mo.get("outside_domain") or "driver_error" in mo or "error" in mo:
                item["scope"], item["why"] = False, "model-undefined"
        if not item["scope"] and item["why"] == "model-undefined" and has_condition_object(item["t"]):
            # the model reads {"Condition": {...}} as an ill-typed call of the Condition function; as a property of an
            # unmodelled resource it is plain data of a valid template: run it (recorded finding D28)
            item["scope"] = True
    # phase 2: the pipeline, sandboxed
    overruns = 0
    try:
        for item in todo:
            tv, extra, kinds, variant = item["t"], item["extra"], item["kinds"], item["variant"]
            if overruns >= 4:
                # each overrun costs its whole budget: after four the run stops exploring (the violations stand)
                report.count("not-run-after-repeated-budget-overruns")
                continue
            if not item["scope"]:
                report.count("out-of-scope:" + item["why"])
                continue
            b = budget_s(tv)
            text = common.jdump(tv)
            function_free = '"Fn::' not in text and '"Ref"' not in text
            res = sb.run({"op": "pipeline", "template": tv, "extra": extra, "expand": True, "queries_on_parsed": function_free}, timeout=b)
            for k in kinds:
                report.count(f"family:{k}")
            report.count("outcome:" + res["outcome"] + (":" + res.get("stage", "") if res["outcome"] != "ok" else ""))
            report.case({"variant": variant, "kinds": kinds}, common.jdump([variant, tv, extra]), sample=len(text) < 700 and rng.random() < 0.05)
            if res["outcome"] == "ok":
                report.maxima = getattr(report, "maxima", {"ms": 0, "rss_kb": 0, "budget_used": 0.0})
                report.maxima["ms"] = max(report.maxima["ms"], res.get("ms", 0))
                report.maxima["rss_kb"] = max(report.maxima["rss_kb"], res.get("maxrss_kb", 0))
                report.maxima["budget_used"] = max(report.maxima["budget_used"], round(res.get("ms", 0) / 1000.0 / b, 3))
                continue
            if res["outcome"] == "raised":
                what = f"pipeline-raises-{res['class']}:{res.get('stage')}"
            elif res["outcome"] == "timeout":
                what = "pipeline-exceeds-time-budget"
                overruns += 1
            else:
                what = "pipeline-worker-" + res["outcome"]
            shape = "single-member-object-named-Condition-with-object-value" if has_condition_object(tv) else "other"
            report.violation("oracle", what, op={"template": tv, "extra": extra, "variant": variant}, impl=res,
                             oracle="sandboxed pipeline completes within the size-derived budget (C05_resolve_progress / C05_network_kept / C05_binary_kept on the model)",
                             budget_s=round(b, 1), shape=shape)
    finally:
        sb.close()
    mx = getattr(report, "maxima", None)
    if mx:
        report.notes.append(f"largest observed: {mx['ms']} ms, {mx['rss_kb']} kB peak RSS of the worker, {mx['budget_used']} of the budget; worker restarts: {sb.restarts}")


def has_condition_object(x):
    if isinstance(x, dict):
        if len(x) == 1 and "Condition" in x and isinstance(x["Condition"], (dict, list)):
            return True
        return any(has_condition_object(v) for v in x.values())
    if isinstance(x, list):
        return any(has_condition_object(v) for v in x)
    return False
