"""C08 — wildcard matching is IAM glob matching.
Correspondence: the proved matcher (`Glob.gmatch`, = `Glob.Lang` by C08_sound_complete) against the three
public routes of the implementation.  Because the model is proved equal to the specification, every
disagreement on single-line text is a failing input of the property itself."""
import itertools
import re

from .. import common

META = ".+()[]{}|^$\\"
# code points whose Unicode case mapping touches ASCII or that have case at all are excluded from the
# case-insensitive route (the model folds ASCII only; domain restriction `AsciiCase`)
def ascii_case_ok(text: str) -> bool:
    for ch in text:
        if ord(ch) < 128:
            continue
        if ch.lower() != ch or ch.upper() != ch or ch.casefold() != ch:
            return False
    return True


def single_line(text: str) -> bool:
    return "\n" not in text and "\r" not in text and all(not (0xD800 <= ord(c) <= 0xDFFF) for c in text)


class Impl:
    def __init__(self):
        import pycfmodel.utils as ut
        import pycfmodel.model.resources.properties.statement_condition as sc

        self.ut, self.sc = ut, sc

    def route_regex(self, p, s):
        """what action expansion uses: regex_from_cf_string with its defaults (case-insensitive)"""
        try:
            return {"match": bool(self.ut.regex_from_cf_string(p).match(s))}
        except Exception as e:
            return {"build_error": common.exc_class(e)}

    def route_like(self, p, s, op="StringLike"):
        """what the Like operators use: build_evaluator(op, key, pattern)(context)"""
        try:
            ev = self.sc.build_evaluator(op, "k", p)
        except Exception as e:
            return {"build_error": common.exc_class(e)}
        try:
            r = bool(ev({"k": s}))
        except Exception as e:
            return {"build_error": common.exc_class(e)}
        if op.endswith("NotLike"):
            r = not r
        return {"match": r}

    def route_condition(self, p, s, op="StringLike"):
        """full public route: StatementCondition.model_validate({op:{k:p}})({k:s})"""
        try:
            cond = self.sc.StatementCondition.model_validate({op: {"k": p}})
            r = cond({"k": s})
        except Exception as e:
            return {"build_error": common.exc_class(e)}
        if r is None:
            return {"build_error": "None"}
        if op.endswith("NotLike"):
            r = not r
        return {"match": bool(r)}

    def route_expand(self, p, s):
        """action expansion route: is catalogue entry `s` in _expand_action(p)?"""
        import pycfmodel.action_expander as ae

        try:
            return {"match": s in ae._expand_action(p)}
        except Exception as e:
            return {"build_error": common.exc_class(e)}


def instantiate(rng, pattern, alphabet):
    out = []
    for ch in pattern:
        if ch == "*":
            out.append("".join(rng.choice(alphabet) for _ in range(rng.choice([0, 0, 1, 2, 3]))))
        elif ch == "?":
            out.append(rng.choice(alphabet))
        else:
            out.append(ch)
    return "".join(out)


def perturb(rng, s, alphabet):
    if not s:
        return rng.choice(alphabet)
    i = rng.randrange(len(s))
    k = rng.randrange(4)
    if k == 0:
        return s[:i] + s[i + 1 :]
    if k == 1:
        return s[:i] + rng.choice(alphabet) + s[i:]
    if k == 2:
        return s[:i] + rng.choice(alphabet) + s[i + 1 :]
    return s[:i] + s[i].swapcase() + s[i + 1 :]


def gen_random(rng, n):
    letters = "abAB:3"
    uni = "é→Ω中"
    for _ in range(n):
        alphabet = letters + META + (uni if rng.random() < 0.3 else "")
        ln = rng.choice([1, 2, 3, 3, 4, 5, 6, 8])
        stars = 0
        p = []
        for _ in range(ln):
            r = rng.random()
            if r < 0.18 and stars < 4:
                p.append("*")
                stars += 1
            elif r < 0.30:
                p.append("?")
            else:
                p.append(rng.choice(alphabet))
        p = "".join(p)
        s = instantiate(rng, p, alphabet)
        r = rng.random()
        if r < 0.45:
            s = perturb(rng, s, alphabet)
        elif r < 0.55:
            s = s.swapcase()
        yield p, s


def gen_structured(rng, n):
    """Patterns shaped like the ones policies hold: ARNs of five to eight ':'-separated components and paths holding
    policy-variable spellings (`${*}`, `${?}`, `${$}`, `${aws:username}`); a `*` is instantiated with runs that may hold
    ':' and '/', so a matcher working component by component, or reading `${…}` as an escape, disagrees."""
    comps = ["arn", "aws", "sns", "s3", "", "*", "*", "?", "a*", "*b", "eu-west-?", "111122223333", "alerts", "team/*",
             "${*}", "${?}", "${$}", "${aws:username}", "x${*}y", "$", "{", "}", "${", "*}"]
    alphabet = "ab:/3${}*?-"
    lit = "ab:/3${}-"
    for _ in range(n):
        k = rng.randrange(3)
        if k == 0:
            p = ":".join(rng.choice(comps) for _ in range(rng.choice([5, 6, 6, 6, 7, 8])))
        elif k == 1:
            p = "/".join(rng.choice(["home", "${*}", "${?}", "${$}", "*", "?", "inbox", "${aws:username}"]) for _ in range(rng.choice([2, 3, 4])))
        else:
            p = rng.choice(["price-", "cost", "a", ""]) + rng.choice(["${*}", "${?}", "${$}", "${x}"]) + rng.choice(["", "b", "*", "?"])
        r = rng.random()
        if r < 0.35:
            s = p  # the pattern text itself: every literal matches itself, wildcards match themselves as characters
        else:
            s = instantiate(rng, p, lit)
            if r > 0.75:
                s = perturb(rng, s, alphabet)
        yield p, s


def classify(p, s, ci, impl_out, model_out):
    if "build_error" in impl_out:
        return f"matcher-build-fails:{impl_out['build_error']}"
    if not ci and p.lower() != p.upper():
        return "like-operator-ignores-case"
    if any(ch in META for ch in p):
        return "regex-metacharacter-not-literal"
    return "glob-semantics-differ"


def shrink(p, s, still_fails):
    changed = True
    while changed:
        changed = False
        for i in range(len(p)):
            q = p[:i] + p[i + 1 :]
            if still_fails(q, s):
                p, changed = q, True
                break
        else:
            for i in range(len(s)):
                t = s[:i] + s[i + 1 :]
                if still_fails(p, t):
                    s, changed = t, True
                    break
    return p, s


def run(report, tier, seed, driver, proofs_ok):
    impl = Impl()
    rng = common.rng_for("C08", seed)
    thorough = tier == "thorough"
    report.rule = (
        "cases = (route, pattern, string); routes: regex (regex_from_cf_string defaults, as action expansion uses it, "
        "case-insensitive), like (build_evaluator StringLike/ArnLike/NotLike, case-sensitive), condition (full "
        "StatementCondition call), expand (_expand_action against catalogue entries). Literal sweep: every code point "
        "U+0020..U+FFFF (no surrogates, not * ?) as a one-character pattern against itself, its successor, the empty "
        "string and itself doubled. Random: patterns over letters, regex metacharacters, * and ? (≤4 stars); strings "
        "instantiated from the pattern then perturbed. Structured: ARN-shaped patterns of 5-8 components and paths with "
        "policy-variable spellings (${*}, ${?}, ${$}), candidates whose * runs hold ':' and '/'. distinct_nontrivial = distinct (route, pattern, string) whose "
        "pattern contains a wildcard or a regex metacharacter or a cased letter, i.e. where glob and regex/case "
        "semantics can differ."
    )
    cases = []  # (route, p, s, ci)

    # corpus first
    for p, s, ci, route in [
        ("a.c", "abc", True, "regex"), ("a(c", "a(c", True, "regex"), ("[ab]", "a", True, "regex"),
        ("a.c", "abc", False, "like"), ("abc", "ABC", False, "like"), ("a+", "aa", False, "condition"),
        ("a|b", "a", True, "regex"), ("a\\", "a\\", True, "regex"), ("a{2}", "aa", False, "like"),
        ("^a", "a", True, "regex"), ("a$", "a", False, "like"), ("", "", True, "regex"), ("*", "", False, "like"),
    ]:
        cases.append((route, p, s, ci))

    # literal sweep
    lo, hi = 0x20, 0x10000
    for cp in range(lo, hi):
        if 0xD800 <= cp <= 0xDFFF or cp in (0x2A, 0x3F, 0x7F) or cp in (0x85, 0x2028, 0x2029):
            continue
        c = chr(cp)
        nxt = chr(cp + 1) if cp + 1 < 0xD800 or 0xDFFF < cp + 1 < 0x10000 else "a"
        for s in (c, nxt, "", c + c):
            cases.append(("like", c, s, False))
        if ascii_case_ok(c) and ascii_case_ok(nxt):
            cases.append(("regex", c, c, True))
            cases.append(("regex", c, nxt, True))

    # random
    n_random = 200000 if thorough else 6000
    for p, s in gen_random(rng, n_random):
        if not (single_line(p) and single_line(s)):
            continue
        r = rng.random()
        if r < 0.4 and ascii_case_ok(p) and ascii_case_ok(s):
            cases.append(("regex", p, s, True))
        elif r < 0.8:
            cases.append((rng.choice(["like", "like", "arnlike", "notlike"]), p, s, False))
        else:
            cases.append(("condition", p, s, False))

    for p, s in gen_structured(rng, 12000 if thorough else 1500):
        if not (single_line(p) and single_line(s)):
            continue
        r = rng.random()
        if r < 0.2 and ascii_case_ok(p) and ascii_case_ok(s):
            cases.append(("regex", p, s, True))
        elif r < 0.85:
            cases.append((rng.choice(["like", "arnlike", "arnlike", "notlike", "arnnotlike"]), p, s, False))
        else:
            cases.append(("condition", p, s, False))

    # small-scope exhaustive (thorough)
    if thorough:
        pa, sa = "ab*?.(", "ab.("
        pats = [""] + ["".join(t) for n in range(1, 5) for t in itertools.product(pa, repeat=n)]
        strs = [""] + ["".join(t) for n in range(1, 5) for t in itertools.product(sa, repeat=n)]
        for p in pats:
            if p.count("*") > 3:
                continue
            for s in strs:
                cases.append(("regex", p, s, True))
        report.extra["small_scope"] = {"patterns": len(pats), "strings": len(strs)}

    # expansion route against real catalogue entries
    from pycfmodel.cloudformation_actions import CLOUDFORMATION_ACTIONS as CAT

    n_exp = 400 if thorough else 40
    for _ in range(n_exp):
        a = rng.choice(CAT)
        k = rng.randrange(5)
        if k == 0:
            p = a.swapcase()
        elif k == 1:
            i = rng.randrange(len(a))
            p = a[:i] + "?" + a[i + 1 :]
        elif k == 2:
            i = rng.randrange(len(a))
            p = a[:i] + "*"
        elif k == 3:
            i = rng.randrange(len(a))
            p = a[:i] + "." + a[i + 1 :]
        else:
            i = rng.randrange(len(a))
            p = a[:i] + "[" + a[i] + "]" + a[i + 1 :]
        cases.append(("expand", p, a, True))

    ops = [{"op": "glob", "p": p, "s": s, "ci": ci} for (_, p, s, ci) in cases]
    model = driver.run(ops) if driver is not None else [None] * len(ops)

    def impl_eval(route, p, s):
        if route == "regex":
            return impl.route_regex(p, s)
        if route == "like":
            return impl.route_like(p, s, "StringLike")
        if route == "arnlike":
            return impl.route_like(p, s, "ArnLike")
        if route == "notlike":
            return impl.route_like(p, s, "StringNotLike")
        if route == "arnnotlike":
            return impl.route_like(p, s, "ArnNotLike")
        if route == "condition":
            return impl.route_condition(p, s)
        return impl.route_expand(p, s)

    for (route, p, s, ci), op, mo in zip(cases, ops, model):
        io = impl_eval(route, p, s)
        interesting = any(ch in "*?" + META for ch in p) or p.lower() != p.upper()
        report.case({"route": route, "p": p, "s": s}, (route, p, s) if interesting else None, sample=(interesting and route != "regex" and len(p) > 2))
        report.count(f"route:{route}")
        report.count("outcome:" + ("error" if "build_error" in io else ("match" if io["match"] else "nomatch")))
        if mo is None:
            continue
        if "driver_error" in mo:
            raise common.InfraError(f"driver error on {op}: {mo}")
        if io != mo:
            report.disagreements_checked += 1
            what = classify(p, s, ci, io, mo)
            if any(v["what"] == what for v in report.violations):
                report.violation("correspondence+oracle", what)
                continue

            def still(q, t, route=route, ci=ci, what=what):
                m2 = driver.run([{"op": "glob", "p": q, "s": t, "ci": ci}])[0]
                i2 = impl_eval(route, q, t)
                return i2 != m2 and classify(q, t, ci, i2, m2) == what

            sp, ss = (p, s)
            if len(p) + len(s) <= 24 and sum(1 for v in report.violations if v["what"] == what) == 0:
                sp, ss = shrink(p, s, still)
            report.violation(
                "correspondence+oracle",
                what,
                op={"op": "glob", "route": route, "p": sp, "s": ss, "ci": ci, "original": [p, s]},
                impl=impl_eval(route, sp, ss),
                model=driver.run([{"op": "glob", "p": sp, "s": ss, "ci": ci}])[0],
                oracle="Glob.gmatch is proved equal to the glob language (C08_sound_complete); the implementation differs on this single-line input",
            )
    # the expander is the matcher applied to the catalogue: every shortcut it takes must agree with the matcher proved above
    from pycfmodel.action_expander import _expand_action
    from pycfmodel.cloudformation_actions import CLOUDFORMATION_ACTIONS
    from pycfmodel.utils import regex_from_cf_string

    from .. import gen

    for i in range(120 if thorough else 30):
        pat = gen.gen_pattern(rng)
        try:
            rx = regex_from_cf_string(pat)
            want = sorted({a for a in CLOUDFORMATION_ACTIONS if rx.match(a)})
            got = _expand_action(pat)
        except Exception as e:
            report.violation("oracle", "expansion-or-pattern-raises-" + common.exc_class(e), op={"pattern": pat})
            continue
        report.count("expander-against-matcher")
        if got != want:
            report.violation("oracle", "expander-disagrees-with-the-matcher", op={"pattern": pat}, impl={"expanded": len(got), "matched": len(want), "only_matched": [a for a in want if a not in got][:3], "only_expanded": [a for a in got if a not in want][:3]},
                             oracle="_expand_action(p) = the catalogue entries regex_from_cf_string(p) matches (C08_sound_complete lifts to C09_expand_mem)")
    report.notes += [
        "single-line text only (no \\n, \\r, U+0085, U+2028, U+2029): Python's `$` and `.` treat line ends specially and the property is stated for single-line text",
        "case-insensitive route restricted to text whose non-ASCII characters are uncased (AsciiCase); Python's re engine is trusted",
        "patterns carry at most four `*` (the model matcher is exponential in the number of stars)",
    ]
    report.exhaustive = False
