"""C01 — intrinsic value functions resolve to their CloudFormation-defined value.
The driver runs the specification `Spec.resolve`; the implementation is `pycfmodel.resolver.resolve`
on the same expression and environment.  Every value disagreement inside the typed fragment is a
failing input of the property (the specification's clauses are the property's clauses)."""
import copy

from .. import common, genexpr

CORPUS = [
    # D1: Fn::Sub local variable leaks into a sibling Ref
    ([{"Fn::Sub": ["${X}", {"X": "loc"}]}, {"Ref": "X"}], {"X": "g"}),
    # D2: substituted text substituted again
    ({"Fn::Sub": "${A}-${B}"}, {"A": "${B}", "B": "b"}),
    # D3: escape
    ({"Fn::Sub": "${!A}"}, {"A": "a"}),
    ({"Fn::Sub": "${!Literal}-${A}"}, {"A": "a"}),
    # D26: Ref to raw scalars
    ({"Ref": "Port"}, {"Port": 8080}),
    ({"Fn::Join": ["-", [{"Ref": "Enabled"}, "x"]]}, {"Enabled": True}),
    ({"Fn::Select": [5, ["a"]]}, {}),
    ({"Fn::FindInMap": ["NoMap", "a", "b"]}, {}),
    ({"Ref": "Nope"}, {}),
]


def impl_resolve(expr, params, mappings, conds):
    import pycfmodel.resolver as res

    p = copy.deepcopy(params)
    try:
        v = res.resolve(copy.deepcopy(expr), p, copy.deepcopy(mappings), dict(conds))
    except Exception as e:
        return {"raised": common.exc_class(e)}, p
    try:
        return {"value": common.canon(v)}, p
    except TypeError as e:
        return {"raised": "unencodable:" + str(e)}, p


def classify(expr, io, mo):
    fns = genexpr.functions_in(expr)
    if "raised" in io:
        return "resolve-raises-" + io["raised"]
    if "Fn::Sub" in fns:
        return "value-differs:expression-contains-Fn::Sub"
    for f in ("Ref", "Fn::FindInMap", "Fn::Select", "Fn::Join", "Fn::Split", "Fn::Base64", "Fn::ImportValue"):
        if f in fns:
            return f"value-differs:expression-contains-{f}"
    return "value-differs"


def shrink_expr(expr, fails):
    """structural delta debugging: replace sub-terms by simpler ones while the disagreement persists"""
    def candidates(e):
        if isinstance(e, list):
            for i in range(len(e)):
                yield e[:i] + e[i + 1 :]
            for i, v in enumerate(e):
                if isinstance(v, (list, dict)):
                    yield v
                    for c in candidates(v):
                        yield e[:i] + [c] + e[i + 1 :]
        elif isinstance(e, dict):
            for k in list(e):
                if len(e) > 1:
                    yield {a: b for a, b in e.items() if a != k}
            for k, v in e.items():
                if isinstance(v, (list, dict)):
                    yield v
                    for c in candidates(v):
                        yield dict(e, **{k: c})
    changed, budget = True, 200
    while changed and budget > 0:
        changed = False
        for c in candidates(expr):
            budget -= 1
            if budget <= 0:
                break
            if fails(c):
                expr, changed = c, True
                break
    return expr


def template_level(report, rng, driver, n):
    """the same functions reached through a whole template: values of declared parameters (defaults, empty text, supplied
    values) arrive through the template's own binding before Ref / Fn::Sub / Fn::Join see them"""
    from .. import tmpl

    rows = []
    for i in range(n):
        t, extra = tmpl.gen_template(rng, max_depth=2, cyclic_ok=False)
        # declared parameters whose value is the empty text, by default and by assignment
        t["Parameters"]["Suffix"] = {"Type": "String", "Default": rng.choice(["", "-x"])}
        t["Parameters"]["Blank"] = {"Type": "String", "Default": "d"}
        extra = dict(extra, Blank=rng.choice(["", "given"]), Lst=rng.choice(["x,y,z", "one", "80,443", 8080, 0]), Hidden="s3cr3t-passed")
        # list-typed and NoEcho parameters with a *passed* value: Ref sees the value the declaration makes of it
        # (a single number, passed or as Default, is a list of one item)
        t["Parameters"]["Lst"] = {"Type": rng.choice(["CommaDelimitedList", "List<Number>"])}
        if rng.random() < 0.3:
            t["Parameters"]["Lst"]["Default"] = rng.choice([443, "443", "80,443"])
            if rng.random() < 0.7:
                extra.pop("Lst")
        t["Parameters"]["Hidden"] = {"Type": "String", "NoEcho": True}
        t["Resources"]["E"] = {"Type": "Custom::Uses", "Properties": {"A": {"Ref": "Suffix"}, "B": {"Fn::Sub": "n${Suffix}-${Blank}."}, "C": {"Fn::Join": ["", ["n", {"Ref": "Blank"}, {"Ref": "Suffix"}]]},
                                                                      "D": {"Fn::ImportValue": {"Fn::Sub": "${Blank}${Suffix}"}},
                                                                      "F": {"Fn::Select": [0, {"Ref": "Lst"}]}, "G": {"Fn::Join": ["|", {"Ref": "Lst"}]}, "H": {"Fn::Sub": "${Hidden}"}, "I": {"Ref": "Lst"}}}
        try:
            m = tmpl.parse(t)
        except Exception:
            continue
        rows.append((t, extra, m))
    outs = driver.run([tmpl.model_op(m, extra) for _, extra, m in rows]) if (driver is not None and rows) else []
    for (t, extra, m), mo in zip(rows, outs):
        if "driver_error" in mo:
            raise common.InfraError(str(mo)[:300])
        if mo.get("outside_domain"):
            report.count("template-outside-typed-fragment")
            continue
        io, _, _ = tmpl.impl_tresolve(m, extra)
        report.count("template-level")
        if "resources" not in io:
            continue
        want = common.canon(common.dec(mo["resources"])).get("E")
        got = io["resources"].get("E")
        if want != got:
            report.disagreements_checked += 1
            report.violation("correspondence+oracle", "value-differs:template-level-reference-to-a-declared-parameter", op={"template": {"Parameters": t["Parameters"], "Resources": {"E": t["Resources"]["E"]}}, "extra": extra},
                             impl=got, model=want, oracle="Template.resolveT (binding of declared parameters, then Spec.resolve; C01_ref_bound)")


def run(report, tier, seed, driver, proofs_ok):
    rng = common.rng_for("C01", seed)
    thorough = tier == "thorough"
    n = 60000 if thorough else 3000
    report.rule = (
        "cases = (expression, environment); expressions generated by result type (string-, list-, condition-valued, and "
        "arbitrary JSON contexts) over all sixteen functions, nesting depth ≤ 4 (quick) / 6 (thorough), Fn::Sub texts mixing "
        "bound, local, undefined, escaped and malformed placeholders; environment = pseudo parameters + string/list "
        "parameters (incl. values that look like placeholders, SSM references, non-ASCII) + two mappings + two conditions; "
        "a third of the cases add raw int/bool/float parameter values. distinct_nontrivial = distinct expressions containing "
        "at least one function and inside the typed fragment."
    )
    cases = []
    for expr, extra in CORPUS:
        params, mappings, conds = genexpr.environment(rng)
        params.update(extra)
        cases.append((expr, params, mappings, conds))
    for i in range(n):
        raw = rng.random() < 0.33
        g = genexpr.ExprGen(rng, max_depth=(6 if thorough else 4) if rng.random() < 0.3 else 3, raw=raw)
        params, mappings, conds = genexpr.environment(rng, raw=raw)
        cases.append((g.any_expr(), params, mappings, conds))

    ops = [{"op": "resolve", "expr": common.enc(e), "params": common.enc(p), "mappings": common.enc(m), "conds": common.enc(c)} for e, p, m, c in cases]
    model = driver.run(ops) if driver is not None else [None] * len(ops)

    def one(e, p, m, c):
        mo = driver.run([{"op": "resolve", "expr": common.enc(e), "params": common.enc(p), "mappings": common.enc(m), "conds": common.enc(c)}])[0]
        io, _ = impl_resolve(e, p, m, c)
        return io, mo

    for (e, p, m, c), mo in zip(cases, model):
        io, p_after = impl_resolve(e, p, m, c)
        fns = genexpr.functions_in(e)
        for f in fns:
            report.count("fn:" + f, fns[f])
        report.count(f"depth:{min(genexpr.depth(e), 9)}")
        if mo is None:
            report.case(e)
            continue
        if "driver_error" in mo:
            raise common.InfraError(f"driver error {mo}")
        if "outside_domain" in mo:
            report.case(e)
            report.count("outside-typed-fragment")
            continue
        report.case({"expr": e}, common.jdump(e) if fns else None, sample=bool(fns) and len(common.jdump(e)) < 160)
        report.count("outcome:" + ("raised" if "raised" in io else "value"))
        mv = {"value": common.dec(mo["value"])}
        if io != mv:
            report.disagreements_checked += 1
            what = classify(e, io, mv)
            if any(v["what"] == what for v in report.violations):
                report.violation("correspondence+oracle", what)
                continue

            def fails(c2, p=p, m=m, c=c, what=what):
                try:
                    i2, m2 = one(c2, p, m, c)
                except common.InfraError:
                    return False
                if "outside_domain" in m2:
                    return False
                return i2 != {"value": common.dec(m2["value"])} and classify(c2, i2, m2) == what

            small = shrink_expr(e, fails)
            i2, m2 = one(small, p, m, c)
            used = {k: v for k, v in p.items() if k in common.jdump(small)}
            report.violation(
                "correspondence+oracle", what,
                op={"op": "resolve", "expr": small, "params_used": used, "original_expr": e},
                impl=i2, model={"value": common.dec(m2["value"])} if "value" in m2 else m2,
                oracle="Spec.resolve is the property's definition of the CloudFormation value (clauses C01_*); the implementation returns a different value on this well-typed expression",
            )
    template_level(report, rng, driver, 1500 if thorough else 120)
    report.notes += [
        "typed fragment only: ill-typed expressions (where the code raises or renders a container's repr) are neither proved about nor compared",
        "Fn::GetAtt / Fn::GetAZs values are whatever the code returns (not constrained by the property)",
        "ASCII placeholder names (Python's \\w also accepts non-ASCII letters); ASCII digits in SSM versions",
        "Fn::FindInMap returns the mapping leaf as stored (the suite pins raw booleans); mapping leaves generated as strings / lists of strings",
    ]
