"""C16 — policy queries count only Allow statements and see every principal."""
import re

from .. import common, gen

EFFECTS_OK = ["Allow", "Deny", "allow", "deny", "ALLOW", "DENY", "aLLOW", "dENY", "AlLoW", "dEnY"]
EFFECTS_BAD = ["Permit", "allowed", "", "Allow ", " Deny", "Al low", "Alow", "Denied", "allow\n", "ALLOWW", "D", "ﬁ", "Ａllow", "allοw"]


def pd_of(PolicyDocument, stmts):
    return PolicyDocument(Statement=stmts)


def run(report, tier, seed, driver, proofs_ok):
    from pydantic import ValidationError

    from pycfmodel.model.resources.properties.policy_document import PolicyDocument
    from pycfmodel.model.resources.properties.statement import Statement

    rng = common.rng_for("C16", seed)
    thorough = tier == "thorough"
    n = 20000 if thorough else 1000
    report.rule = (
        "(a) Effect texts: the two words in mixed letter case and near misses (extra blanks, misspellings, look-alike code points) "
        "through Statement(...); (b) policy documents of 1–4 statements with effects in random letter case and Principal / "
        "NotPrincipal of every shape (string, list incl. empty, object keyed by 1–3 of AWS / Service / Federated / CanonicalUser "
        "with string or list values), random whitelists drawn from the same pool: get_principal_list, "
        "non_whitelisted_principals, allowed_principals_with(.*), non_whitelisted_allowed_principals vs the model. "
        "distinct_nontrivial = distinct documents mixing Allow and Deny or using an object-shaped principal."
    )
    ops, ios = [], []
    for e in EFFECTS_OK + EFFECTS_BAD + [rng.choice(EFFECTS_OK).swapcase() for _ in range(10)]:
        try:
            io = {"normalised": Statement(Effect=e).Effect}
        except ValidationError:
            io = {"normalised": None}
        except Exception as ex:
            io = {"raised": common.exc_class(ex)}
        ops.append({"op": "effect", "effect": e})
        ios.append(io)
    model = driver.run(ops) if driver is not None else [None] * len(ops)
    for op, io, mo in zip(ops, ios, model):
        report.case(op, ("effect", op["effect"]))
        if mo is not None and io != mo:
            if not op["effect"].isascii():
                report.count("non-ascii-effect-differs (outside the ASCII case model)")
                continue
            report.disagreements_checked += 1
            report.violation("correspondence+oracle", "effect-normalisation-differs", op=op, impl=io, model=mo,
                             oracle="C16_effect: accepted iff allow/deny in any letter case, stored as Allow/Deny")
    docs = []
    for i in range(n):
        stmts = []
        for j in range(rng.choice([1, 1, 2, 3, 4])):
            st = {"Effect": rng.choice(EFFECTS_OK), "Action": rng.choice(["s3:GetObject", "s3:Get*", ["s3:GetObject", "s3:PutObject"], "iam:PassRole"]), "Resource": "*"}
            r = rng.random()
            if r < 0.7:
                st["Principal"] = gen.gen_principal(rng)
            if rng.random() < 0.3:
                st["NotPrincipal"] = gen.gen_principal(rng)
            stmts.append(st)
        wl = rng.sample(gen.PRINCIPALS, rng.randrange(0, 5))
        if rng.random() < 0.4:
            # entries that differ from a principal only in letter case are other principals (membership is literal)
            wl += [rng.choice([str.upper, str.lower, str.swapcase, str.title])(x) for x in rng.sample(gen.PRINCIPALS, rng.randrange(1, 4))]
        docs.append((stmts, wl))
    ops, ios = [], []
    for stmts, wl in docs:
        try:
            pd = PolicyDocument(Statement=stmts if (len(stmts) > 1 or rng.random() < 0.5) else stmts[0])
            sl = pd.statement_as_list()
            io = {
                "principals": [[p for p in s.get_principal_list() if isinstance(p, str)] for s in sl],
                "nonwl": [s.non_whitelisted_principals(wl) for s in sl],
                "allowed": sorted(set(pd.allowed_principals_with(re.compile(r"^.*$", re.S)))),
                "nonwl_allowed": sorted(set(pd.non_whitelisted_allowed_principals(wl))),
            }
            dumped = [{"effect": s.Effect, "principal": common.enc(s.model_dump()["Principal"]), "notprincipal": common.enc(s.model_dump()["NotPrincipal"])} for s in sl]
        except Exception as ex:
            report.violation("oracle", "policy-query-raises-" + common.exc_class(ex), op={"stmts": stmts, "whitelist": wl}, impl={"raised": str(ex)[:200]})
            continue
        ops.append({"op": "policy", "stmts": dumped, "whitelist": wl})
        ios.append((io, stmts, wl))
    model = driver.run(ops) if (driver is not None and ops) else [None] * len(ops)
    for op, (io, stmts, wl), mo in zip(ops, ios, model):
        effects = {s["Effect"].lower() for s in stmts}
        nontrivial = len(effects) > 1 or any(isinstance(s.get("Principal"), dict) or isinstance(s.get("NotPrincipal"), dict) for s in stmts)
        report.case({"stmts": stmts, "whitelist": wl}, common.jdump([stmts, wl]) if nontrivial else None, sample=nontrivial and rng.random() < 0.01)
        report.count("statements:%d" % len(stmts))
        if mo is None:
            continue
        if "driver_error" in mo:
            raise common.InfraError(str(mo))
        if io != mo:
            report.disagreements_checked += 1
            what = next((k + "-differs" for k in ("principals", "nonwl", "allowed", "nonwl_allowed") if io[k] != mo[k]), "differs")
            report.violation("correspondence+oracle", what, op={"stmts": stmts, "whitelist": wl}, impl=io, model=mo,
                             oracle="C16_principals (every shape), C16_whitelist, C16_allow_only")
        # direct oracle: Deny statements contribute nothing
        allow_only = [s for s in stmts if s["Effect"].lower() == "allow"]
        try:
            pd2 = PolicyDocument(Statement=allow_only) if allow_only else None
            want = sorted(set(pd2.non_whitelisted_allowed_principals(wl))) if pd2 else []
        except Exception:
            continue
        try:
            all_actions = pd_of(PolicyDocument, stmts).get_allowed_actions()
            allow_actions = pd2.get_allowed_actions() if pd2 else []
            if all_actions != allow_actions:
                report.violation("oracle", "deny-statements-change-the-allowed-action-query", op={"stmts": stmts}, impl={"all": len(all_actions), "allow_only": len(allow_actions)})
        except Exception as ex:
            report.violation("oracle", "allowed-action-query-raises-" + common.exc_class(ex), op={"stmts": stmts})
        if want != io["nonwl_allowed"]:
            report.violation("oracle", "deny-statements-change-the-allowed-principal-query", op={"stmts": stmts, "whitelist": wl}, impl={"all": io["nonwl_allowed"], "allow_only": want})
    report.notes += [
        "ASCII letter case (Python's capitalize()/lower() are Unicode-aware; non-ASCII look-alikes are exercised and must be rejected by both)",
        "statements are resolved (principals are strings): unresolved function objects among principals are outside the property",
    ]
