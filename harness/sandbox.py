"""Parent side of the sandboxed worker: memory limit, per-operation wall clock, restart after a kill."""
import json
import os
import resource
import select
import subprocess
import time

from . import common


class Sandbox:
    def __init__(self, mem_bytes=3 * 1024**3, recursion=1000):
        self.mem, self.recursion = mem_bytes, recursion
        self.p = None
        self.restarts = 0

    def _start(self):
        env = dict(os.environ, PYCF_REPO=common.REPO, PYCF_RECURSION=str(self.recursion))

        def limit():
            resource.setrlimit(resource.RLIMIT_AS, (self.mem, self.mem))
            os.setsid()

        self.p = subprocess.Popen(["/venv/bin/python", "-m", "harness.worker"], cwd=common.ROOT, env=env, stdin=subprocess.PIPE,
                                  stdout=subprocess.PIPE, stderr=subprocess.DEVNULL, preexec_fn=limit)

    def _kill(self):
        if self.p is not None:
            try:
                self.p.kill()
                self.p.wait(timeout=5)
            except Exception:
                pass
        self.p = None

    def run(self, op, timeout):
        if self.p is None or self.p.poll() is not None:
            self._start()
        t0 = time.time()
        try:
            self.p.stdin.write((json.dumps(op) + "\n").encode())
            self.p.stdin.flush()
        except (BrokenPipeError, OSError):
            self._kill()
            return {"outcome": "crash", "ms": int((time.time() - t0) * 1000)}
        deadline = t0 + timeout
        buf = b""
        while True:
            left = deadline - time.time()
            if left <= 0:
                self._kill()
                self.restarts += 1
                return {"outcome": "timeout", "ms": int(timeout * 1000)}
            r, _, _ = select.select([self.p.stdout], [], [], min(left, 0.5))
            if r:
                chunk = os.read(self.p.stdout.fileno(), 65536)
                if not chunk:
                    rc = self.p.poll()
                    self._kill()
                    self.restarts += 1
                    return {"outcome": "crash", "exit": rc, "ms": int((time.time() - t0) * 1000)}
                buf += chunk
                if b"\n" in buf:
                    line = buf.split(b"\n", 1)[0]
                    return json.loads(line)
            elif self.p.poll() is not None:
                rc = self.p.returncode
                self._kill()
                self.restarts += 1
                return {"outcome": "crash", "exit": rc, "ms": int((time.time() - t0) * 1000)}

    def close(self):
        self._kill()
