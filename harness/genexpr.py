"""Type-directed generator of intrinsic-function expressions (string-, list- and condition-valued)
over a fixed small environment, plus generators of environments and Fn::Sub texts."""

PSEUDO = None


def pseudo():
    global PSEUDO
    if PSEUDO is None:
        from pycfmodel.model.cf_model import CFModel

        PSEUDO = dict(CFModel.PSEUDO_PARAMETERS)
    return PSEUDO


STR_PARAMS = {"Env": "prod", "Name": "web", "Count": "3", "Flag": "TRUE", "Empty": "", "Tricky": "${Name}", "Dollar": "a$b{c}",
              "Uni": "café→", "SsmRef": "{{resolve:ssm:/cfg/db:2}}", "/cfg/db:2": "db-host", "Colon:Name": "cn"}
LIST_PARAMS = {"Subnets": ["subnet-a", "subnet-b", "subnet-c"], "One": ["x"], "Nil": []}
RAW_PARAMS = {"Port": 8080, "Enabled": True, "Ratio": 1.5}  # values a caller may pass through extra_params
MAPPINGS = {
    "RegionMap": {"eu-west-1": {"AMI": "ami-1", "Zones": ["a", "b"], "Empty": ""}, "us-east-1": {"AMI": "ami-2", "Zones": ["c"]}},
    "EnvMap": {"prod": {"Size": "large"}, "dev": {"Size": "small"}},
    # flags as the numbers / booleans / words a template author writes
    "Flags": {"prod": {"Versioning": 1, "Logging": True, "Public": "no"}, "dev": {"Versioning": 0, "Logging": False, "Public": "yes"}},
}
CONDS = {"IsProd": True, "IsDev": False}
UNDEF = ["Nope", "Missing", "AWS::Unknown"]


def environment(rng, raw=False):
    params = dict(pseudo())
    params.update(STR_PARAMS)
    params.update(LIST_PARAMS)
    if raw:
        params.update(RAW_PARAMS)
    if rng.random() < 0.3:
        params["Env"] = rng.choice(["dev", "prod", "Prod", "eu-west-1"])
    return params, MAPPINGS, dict(CONDS)


def sub_text(rng, names):
    parts = []
    for _ in range(rng.randrange(1, 6)):
        k = rng.randrange(12)
        if k < 4:
            parts.append("${" + rng.choice(names) + "}")
        elif k == 4:
            parts.append("${!" + rng.choice(names + ["Literal", "a.b", "x y"]) + "}")
        elif k == 5:
            parts.append("${" + rng.choice(UNDEF) + "}")
        elif k == 6:
            parts.append(rng.choice(["$", "${", "}", "${}", "$${", "${!}", "${a b}", "${A.B}", "{x}", "$(x)"]))
        elif k == 7:
            parts.append("${" + rng.choice(["AWS::Region", "AWS::AccountId", "AWS::Partition"]) + "}")
        else:
            parts.append(rng.choice(["-", "arn:aws:s3:::", "/", "x", " ", ".", "é"]))
    return "".join(parts)


class ExprGen:
    def __init__(self, rng, max_depth=4, raw=False):
        self.rng, self.max_depth, self.raw = rng, max_depth, raw
        self.used = {}

    def note(self, fn):
        self.used[fn] = self.used.get(fn, 0) + 1

    def str_literal(self):
        r = self.rng
        return r.choice(["a", "b", "prod", "x-y", "", "TRUE", "False", "true", "12", "arn:aws:s3:::b", "eu-west-1", "AMI", "a,b,c", "é", "{{resolve:ssm:/cfg/db:2}}", "{{resolve:ssm:none:1}}", 7, True, False,
                         # texts whose base64 uses the last two letters of the alphabet (+ and /) and padding
                         "???", "~~~", ">>>?", "ls /opt/???>>out", "\u00ff\u00fe", "subjects?_d=1"])

    def str_param(self):
        names = list(STR_PARAMS) + ["AWS::Region", "AWS::AccountId", "AWS::StackName"] + (list(RAW_PARAMS) if self.raw else [])
        return self.rng.choice(names)

    def str_expr(self, d=0):
        r = self.rng
        if d >= self.max_depth or r.random() < 0.2:
            return self.str_literal()
        k = r.randrange(14)
        if k == 0:
            self.note("Ref")
            return {"Ref": self.str_param()}
        if k == 1:
            self.note("Ref")
            return {"Ref": r.choice(UNDEF)}
        if k == 2:
            self.note("Fn::ImportValue")
            return {"Fn::ImportValue": r.choice([self.str_param(), r.choice(UNDEF), self.str_expr(d + 1)])}
        if k == 3:
            self.note("Fn::Join")
            return {"Fn::Join": [r.choice(["", "-", ",", ":", "::"]), self.list_expr(d + 1)]}
        if k == 4:
            self.note("Fn::Select")
            return {"Fn::Select": [r.choice([0, 1, "0", "2", 5, "7"]), self.list_expr(d + 1)]}
        if k == 5:
            self.note("Fn::FindInMap")
            if r.random() < 0.25:
                # a number / boolean stored in a mapping: returned as stored (Fn::Join renders it with str())
                return {"Fn::FindInMap": ["Flags", r.choice(["prod", "dev", {"Ref": "Env"}]), r.choice(["Versioning", "Logging", "Public"])]}
            return {"Fn::FindInMap": [r.choice(["RegionMap", "EnvMap", "NoMap"]), r.choice(["eu-west-1", "prod", {"Ref": "AWS::Region"}, {"Ref": "Env"}, "nokey"]), r.choice(["AMI", "Size", "Empty", "nokey"])]}
        if k in (6, 7, 8):
            self.note("Fn::Sub")
            names = list(STR_PARAMS)
            if r.random() < 0.5:
                return {"Fn::Sub": sub_text(r, names)}
            loc = {}
            for _ in range(r.randrange(0, 4)):
                key = r.choice(["Loc", "Env", "Name", "Other"])
                if loc and r.random() < 0.35:
                    # a variable whose value mentions the *name* of another variable of the same map: the map's
                    # values are resolved against the template parameters, never against each other
                    other = r.choice(list(loc))
                    loc[key] = r.choice([{"Ref": other}, {"Fn::Sub": "${" + other + "}!"}, {"Fn::Join": ["-", ["v", {"Ref": other}]]}])
                else:
                    loc[key] = self.str_expr(d + 1)
            if loc and r.random() < 0.5:
                items = list(loc.items())
                r.shuffle(items)
                loc = dict(items)
            return {"Fn::Sub": [sub_text(r, names + list(loc)), loc]}
        if k == 9:
            self.note("Fn::Base64")
            return {"Fn::Base64": self.str_expr(d + 1)}
        if k == 10:
            self.note("Fn::If")
            return {"Fn::If": [r.choice(["IsProd", "IsDev", "NoSuchCondition"]), self.str_expr(d + 1), self.str_expr(d + 1)]}
        if k == 11:
            self.note("Fn::GetAtt")
            return r.choice([{"Fn::GetAtt": ["Res", "Arn"]}, {"Fn::GetAZs": ""}])
        return self.str_literal()

    def list_expr(self, d=0):
        r = self.rng
        if d >= self.max_depth:
            return [self.str_literal() for _ in range(r.randrange(0, 3))]
        k = r.randrange(8)
        if k < 3:
            items = [self.str_expr(d + 1) for _ in range(r.randrange(0, 4))]
            if r.random() < 0.25:
                self.note("AWS::NoValue")
                items.insert(r.randrange(len(items) + 1), {"Ref": "AWS::NoValue"})
            return items
        if k == 3:
            self.note("Fn::Split")
            return {"Fn::Split": [r.choice([",", "-", "::", "a"]), self.str_expr(d + 1)]}
        if k == 4:
            self.note("Ref")
            return {"Ref": r.choice(list(LIST_PARAMS))}
        if k == 5:
            self.note("Fn::FindInMap")
            return {"Fn::FindInMap": ["RegionMap", r.choice(["eu-west-1", "us-east-1", {"Ref": "AWS::Region"}]), "Zones"]}
        if k == 6:
            self.note("Fn::If")
            return {"Fn::If": [r.choice(["IsProd", "IsDev"]), self.list_expr(d + 1), self.list_expr(d + 1)]}
        return [self.str_literal() for _ in range(r.randrange(0, 3))]

    def cond_expr(self, d=0):
        r = self.rng
        if d >= self.max_depth or r.random() < 0.15:
            return {"Condition": r.choice(["IsProd", "IsDev", "Undeclared"])}
        k = r.randrange(6)
        if k < 2:
            self.note("Fn::Equals")
            a = self.str_expr(d + 1)
            return {"Fn::Equals": [a, a if r.random() < 0.3 else self.str_expr(d + 1)]}
        if k == 2:
            self.note("Fn::And")
            return {"Fn::And": [self.cond_expr(d + 1) for _ in range(r.randrange(2, 4))]}
        if k == 3:
            self.note("Fn::Or")
            return {"Fn::Or": [self.cond_expr(d + 1) for _ in range(r.randrange(2, 4))]}
        if k == 4:
            self.note("Fn::Not")
            return {"Fn::Not": [self.cond_expr(d + 1)]}
        return {"Condition": r.choice(["IsProd", "IsDev"])}

    def any_expr(self, d=0):
        """an expression placed in an arbitrary JSON context (object member, list element, nested)"""
        r = self.rng
        k = r.randrange(10)
        if k < 4:
            return self.str_expr(d)
        if k < 6:
            return self.list_expr(d)
        if k == 6:
            return self.cond_expr(d)
        if k == 7:
            obj = {}
            for i in range(r.randrange(1, 4)):
                obj[r.choice(["Name", "Value", "Key", "Ref2", "Arn", "Fn::Custom", "Items"]) + str(i if r.random() < 0.5 else "")] = self.any_expr(d + 1) if d < self.max_depth else self.str_literal()
            if r.random() < 0.2:
                obj["Gone"] = {"Ref": "AWS::NoValue"}
            return obj
        if k == 8:
            return [self.any_expr(d + 1) if d < self.max_depth else self.str_literal() for _ in range(r.randrange(0, 3))]
        return r.choice([None, 5, True, 2.5, "plain"])


def depth(e):
    if isinstance(e, dict):
        return 1 + max([depth(v) for v in e.values()] or [0])
    if isinstance(e, list):
        return 1 + max([depth(v) for v in e] or [0])
    return 0


def functions_in(e, acc=None):
    acc = {} if acc is None else acc
    if isinstance(e, dict):
        if len(e) == 1:
            k = next(iter(e))
            if k == "Ref" or k == "Condition" or k.startswith("Fn::"):
                acc[k] = acc.get(k, 0) + 1
        for v in e.values():
            functions_in(v, acc)
    elif isinstance(e, list):
        for v in e:
            functions_in(v, acc)
    return acc
