"""Sandboxed implementation worker: reads one JSON operation per line on stdin, runs it against the real
library, answers one JSON line. Run as a subprocess under RLIMIT_AS and a per-operation wall clock kept by
the parent (harness/sandbox.py). A hang, an out-of-memory kill or a crash is an *outcome*, not an error of
the harness."""
import json
import os
import sys
import time


def main():
    repo = os.environ.get("PYCF_REPO", "/repo")
    sys.path.insert(0, repo)
    import logging
    import warnings

    logging.disable(logging.CRITICAL)
    warnings.simplefilter("ignore")
    sys.setrecursionlimit(int(os.environ.get("PYCF_RECURSION", "1000")))
    import re

    from pydantic import ValidationError

    import pycfmodel

    def klass(e):
        if isinstance(e, ValidationError):
            return "ValidationError"
        return type(e).__name__

    def queries(m):
        n = 0
        for r in m.Resources.values():
            for opd in r.policy_documents:
                pd = opd.policy_document
                if hasattr(pd, "get_allowed_actions"):
                    pd.get_allowed_actions()
                    pd.get_iam_actions()
                    pd.allowed_principals_with(re.compile(".*"))
                    pd.non_whitelisted_allowed_principals([])
                    pd.allowed_actions_with(re.compile(".*"))
                    n += 1
            for c in r.all_statement_conditions:
                c({"aws:SourceIp": "10.0.0.1", "k": "v"})
            if hasattr(r, "has_hardcoded_credentials"):
                r.has_hardcoded_credentials()
        return n

    out = sys.stdout
    for line in sys.stdin:
        op = json.loads(line)
        t0 = time.time()
        res = {"stage": "start"}
        try:
            if op["op"] == "parse":
                pycfmodel.parse(op["template"])
                res = {"outcome": "ok"}
            elif op["op"] == "parse_deep":
                v = "leaf"
                for _ in range(op["depth"]):
                    v = {"k": v} if op["kind"] == "obj" else [v]
                if op["where"] == "metadata":
                    t = {"Metadata": {"M": v}, "Resources": {}}
                else:
                    t = {"Resources": {"R": {"Type": "Custom::Deep", "Properties": {"P": v}}}}
                pycfmodel.parse(t)
                res = {"outcome": "ok"}
            elif op["op"] == "pipeline":
                stage = "parse"
                m = pycfmodel.parse(op["template"])
                stage = "resolve"
                m2 = m.resolve(op.get("extra"))
                stage = "expand_actions"
                m3 = m2.expand_actions() if op.get("expand", True) else m2
                stage = "queries"
                queries(m2)
                stage = "revalidate"
                type(m2)(**m2.model_dump())
                res = {"outcome": "ok"}
            else:
                res = {"outcome": "bad-op"}
        except BaseException as e:  # noqa: B036 - the class of whatever escapes is the observable
            res = {"outcome": "raised", "class": klass(e), "message": str(e)[:200]}
            if op["op"] == "pipeline":
                res["stage"] = stage
        res["ms"] = int((time.time() - t0) * 1000)
        out.write(json.dumps(res) + "\n")
        out.flush()


if __name__ == "__main__":
    main()
