"""Sandboxed implementation worker: reads one JSON operation per line on stdin, runs it against the real
library, answers one JSON line. Run as a subprocess under RLIMIT_AS and a per-operation wall clock kept by
the parent (harness/sandbox.py). A hang, an out-of-memory kill or a crash is an *outcome*, not an error of
the harness."""
import json
import os
import sys
import time


def main():
    repo = os.environ.get("PYCF_REPO", "/repo")
    sys.path.insert(0, repo)
    import logging
    import warnings

    logging.disable(logging.CRITICAL)
    warnings.simplefilter("ignore")
    sys.setrecursionlimit(int(os.environ.get("PYCF_RECURSION", "1000")))
    import re

    from pydantic import ValidationError

    import pycfmodel

    def klass(e):
        if isinstance(e, ValidationError):
            return "ValidationError"
        return type(e).__name__

    def queries(m):
        n = 0
        for r in m.Resources.values():
            for opd in r.policy_documents:
                pd = opd.policy_document
                if hasattr(pd, "get_allowed_actions"):
                    pd.get_allowed_actions()
                    pd.get_iam_actions()
                    pd.allowed_principals_with(re.compile(".*"))
                    pd.non_whitelisted_allowed_principals([])
                    pd.allowed_actions_with(re.compile(".*"))
                    n += 1
            for c in r.all_statement_conditions:
                c({"aws:SourceIp": "10.0.0.1", "k": "v"})
            if hasattr(r, "has_hardcoded_credentials"):
                r.has_hardcoded_credentials()
            for attr in ("ipv4_private_addr", "ipv4_public_addr", "ipv6_private_addr", "ipv6_public_addr", "is_public"):
                pass
        m.resources_filtered_by_type(("AWS::IAM::Role", "AWS::S3::Bucket"))
        for name in ("Parameters", "Outputs", "Conditions"):
            getattr(m, name)
        return n

    def expanded_names(x):
        if isinstance(x, dict):
            return sum((len(v) if k in ("Action", "NotAction") and isinstance(v, list) else expanded_names(v)) for k, v in x.items())
        if isinstance(x, list):
            return sum(expanded_names(v) for v in x)
        return 0

    out = sys.stdout
    for line in sys.stdin:
        op = json.loads(line)
        t0 = time.time()
        res = {"stage": "start"}
        try:
            if op["op"] == "parse":
                pycfmodel.parse(op["template"])
                res = {"outcome": "ok"}
            elif op["op"] == "parse_deep":
                v = "leaf"
                for _ in range(op["depth"]):
                    v = {"k": v} if op["kind"] == "obj" else [v]
                w = op["where"]
                base = {"Type": "Custom::Deep", "Properties": {"P": "x"}}
                if w == "metadata":
                    t = {"Metadata": {"M": v}, "Resources": {}}
                elif w == "properties":
                    t = {"Resources": {"R": {"Type": "Custom::Deep", "Properties": {"P": v}}}}
                elif w == "type":
                    t = {"Resources": {"R": dict(base, Type=v)}}
                elif w == "resource-condition":
                    t = {"Resources": {"R": dict(base, Condition=v)}}
                elif w == "resource-member":
                    t = {"Resources": {"R": dict(base, DependsOn=v)}}
                elif w == "resource":
                    t = {"Resources": {"R": v}}
                elif w == "modelled-property":
                    t = {"Resources": {"R": {"Type": "AWS::S3::Bucket", "Properties": {"BucketName": v}}}}
                elif w == "policy-action":
                    t = {"Resources": {"R": {"Type": "AWS::IAM::ManagedPolicy", "Properties": {"PolicyDocument": {"Statement": [{"Effect": "Allow", "Action": v, "Resource": "*"}]}}}}}
                elif w == "condition-value":
                    t = {"Resources": {"R": {"Type": "AWS::IAM::ManagedPolicy", "Properties": {"PolicyDocument": {"Statement": [{"Effect": "Allow", "Action": "s3:*", "Resource": "*", "Condition": {"StringEquals": {"k": v}}}]}}}}}
                elif w == "parameter-default":
                    t = {"Parameters": {"P": {"Type": "String", "Default": v}}, "Resources": {}}
                elif w == "parameter-type":
                    t = {"Parameters": {"P": {"Type": v}}, "Resources": {}}
                elif w == "conditions":
                    t = {"Conditions": {"C": v}, "Resources": {}}
                elif w == "mappings":
                    t = {"Mappings": {"M": {"a": {"b": v}}}, "Resources": {}}
                elif w == "outputs":
                    t = {"Outputs": {"O": {"Value": v}}, "Resources": {}}
                elif w == "description":
                    t = {"Description": v, "Resources": {}}
                elif w == "ip-property":
                    t = {"Resources": {"R": {"Type": "AWS::EC2::SecurityGroupIngress", "Properties": {"GroupId": "g", "IpProtocol": "tcp", "CidrIp": v, "CidrIpv6": v}}}}
                elif w == "ip-condition":
                    t = {"Resources": {"R": {"Type": "AWS::IAM::ManagedPolicy", "Properties": {"PolicyDocument": {"Statement": [{"Effect": "Allow", "Action": "s3:*", "Resource": "*", "Condition": {"IpAddress": {"aws:SourceIp": v}}}]}}}}}
                elif w == "typed-leaf-slots":
                    t = {"Resources": {"R": {"Type": "AWS::KMS::Key", "Properties": {"KeyPolicy": {"Version": v, "Statement": [{"Effect": "Allow", "Action": "kms:*", "Resource": "*", "Condition": {"Bool": {"k": v}, "DateLessThan": {"k": v}, "NumericEquals": {"k": v}, "BinaryEquals": {"k": v}}}]}, "EnableKeyRotation": v, "PendingWindowInDays": v}}}}
                elif w == "json-text":
                    text = ("[" * op["depth"] + "]" * op["depth"]) if op["kind"] == "arr" else ('{"a":' * op["depth"] + "1" + "}" * op["depth"])
                    t = {"Resources": {"R": {"Type": "Custom::Deep", "Properties": {"P": text, "L": [text]}}}}
                elif w == "function-body":
                    t = {"Resources": {"R": {"Type": "Custom::Deep", "Properties": {"P": {"Fn::Join": ["", v]}}}}}
                else:
                    t = {"Resources": v}
                pycfmodel.parse(t)
                res = {"outcome": "ok"}
            elif op["op"] == "pipeline":
                stage = "parse"
                m = pycfmodel.parse(op["template"])
                stage = "resolve"
                m2 = m.resolve(op.get("extra"))
                stage = "expand_actions"
                m3 = m2.expand_actions() if op.get("expand", True) else m2
                stage = "queries"
                queries(m2)
                if op.get("queries_on_parsed"):
                    # only for function-free templates: the policy queries are defined on concrete values
                    stage = "queries-on-parsed"
                    queries(m)
                if op.get("expand", True) and expanded_names(m3.model_dump()) <= 1500:
                    # an expanded `*` or NotAction holds most of the catalogue; the queries re-match every name against the whole
                    # catalogue (quadratic in the size of the *expanded* model, not of the template): only small expansions
                    stage = "queries-on-expanded"
                    queries(m3)
                stage = "revalidate"
                type(m2)(**m2.model_dump())
                import resource as _r

                res = {"outcome": "ok", "maxrss_kb": _r.getrusage(_r.RUSAGE_SELF).ru_maxrss}
            else:
                res = {"outcome": "bad-op"}
        except BaseException as e:  # noqa: B036 - the class of whatever escapes is the observable
            res = {"outcome": "raised", "class": klass(e), "message": str(e)[:200]}
            if op["op"] == "pipeline":
                res["stage"] = stage
        res["ms"] = int((time.time() - t0) * 1000)
        out.write(json.dumps(res) + "\n")
        out.flush()


if __name__ == "__main__":
    main()
