"""Structured generators shared by the property checks. Every random choice comes from the
`random.Random` passed in, so a run replays exactly from VERIF_SEED."""
import json

_CAT = None


def catalogue():
    global _CAT
    if _CAT is None:
        from pycfmodel.cloudformation_actions import CLOUDFORMATION_ACTIONS

        _CAT = list(CLOUDFORMATION_ACTIONS)
    return _CAT


SERVICES = ["s3", "ec2", "iam", "sqs", "sns", "kms", "lambda", "logs", "sts", "dynamodb", "rds"]


def gen_pattern(rng):
    cat = catalogue()
    k = rng.randrange(13)
    a = rng.choice(cat)
    svc, name = a.split(":", 1)
    if k == 12:
        # a single-character wildcard inside a prefix that ends in `*`
        i = rng.randrange(len(svc) + 1, max(len(svc) + 2, len(a) - 2))
        j = rng.randrange(i + 1, len(a) + 1)
        return a[:i] + "?" + a[i + 1 : j] + "*"
    if k == 0:
        return a
    if k == 1:
        return a.swapcase()
    if k == 2:
        return f"{rng.choice(SERVICES)}:*"
    if k == 3:
        return f"{svc}:{name[: rng.randrange(1, max(2, len(name)))]}*"
    if k == 4:
        i = rng.randrange(len(a))
        return a[:i] + "?" + a[i + 1 :]
    if k == 5:
        return "*"
    if k == 6:
        return f"{rng.choice(SERVICES)}:Get*"
    if k == 7:
        return f"*:{name}"
    if k == 8:
        return rng.choice(["foo:Bar", "s3:Nope", "", "s3", ":", "s3:"])
    if k == 9:
        i = rng.randrange(len(a))
        return a[:i] + rng.choice([".", ".*", "[a-z]", "(", "+", "\\"]) + a[i + 1 :]
    if k == 10:
        return f"{svc}:*{name[-3:]}"
    return f"{svc.upper()}:{name.lower()}"


def gen_action_value(rng, allow_empty=True):
    """a single pattern or a list of 0..6 patterns (overlapping / disjoint / duplicated)"""
    r = rng.random()
    if r < 0.35:
        return gen_pattern(rng)
    n = rng.choice([0, 1, 1, 2, 2, 3, 4, 6] if allow_empty else [1, 1, 2, 2, 3, 4, 6])
    ps = [gen_pattern(rng) for _ in range(n)]
    if ps and rng.random() < 0.3:
        base = rng.choice(ps)
        if ":" in base:
            ps.append(base.split(":")[0] + ":*")  # overlapping superset
    if ps and rng.random() < 0.15:
        ps.append(ps[0])  # duplicate
    rng.shuffle(ps)
    return ps


def digest(xs):
    def dw(m):
        h = 7
        for a in xs:
            h = (h * m) % 2147483647
            for ch in a:
                h = (h * m + ord(ch) + 1) % 2147483647
        return h

    return f"{dw(1000003)}-{dw(999983)}"


def list_result(xs):
    xs = list(xs)
    return {"n": len(xs), "digest": digest(xs), "head": xs[:3], "tail": xs[max(0, len(xs) - 3) :]}


EFFECTS = ["Allow", "Deny", "allow", "DENY", "aLLOW", "deny", "ALLOW"]
PRINCIPALS = [
    "*",
    "arn:aws:iam::123456789012:root",
    "arn:aws:iam::111122223333:user/alice",
    "arn:aws:iam::999999999999:role/r",
    "ec2.amazonaws.com",
    "lambda.amazonaws.com",
    "cognito-identity.amazonaws.com",
    "79a59df900b949e55d96a1e698fbacedfd6e09d98eacf8f8d5218e7cd47ef2be",
    "123456789012",
]


def gen_principal(rng):
    k = rng.randrange(7)
    if k == 0:
        return rng.choice(PRINCIPALS)
    if k == 1:
        return rng.sample(PRINCIPALS, rng.randrange(0, 4))
    obj = {}
    for key in rng.sample(["AWS", "Service", "Federated", "CanonicalUser"], rng.randrange(1, 4)):
        obj[key] = rng.choice(PRINCIPALS) if rng.random() < 0.5 else rng.sample(PRINCIPALS, rng.randrange(0, 4))
    return obj


def gen_statement(rng, sid=None, with_condition=False, effect=None):
    st = {"Effect": effect or rng.choice(EFFECTS)}
    if sid is not None:
        st["Sid"] = sid
    r = rng.random()
    if r < 0.6:
        st["Action"] = gen_action_value(rng)
    elif r < 0.9:
        st["NotAction"] = gen_action_value(rng)
    else:
        st["Action"] = gen_action_value(rng)
        st["NotAction"] = gen_action_value(rng)
    if rng.random() < 0.7:
        st["Resource"] = rng.choice(["*", "arn:aws:s3:::bucket/*", ["arn:aws:s3:::a", "arn:aws:s3:::b"]])
    if rng.random() < 0.5:
        st[rng.choice(["Principal", "Principal", "NotPrincipal"])] = gen_principal(rng)
    if with_condition and rng.random() < 0.5:
        st["Condition"] = rng.choice(
            [
                {"StringEquals": {"aws:PrincipalOrgID": "o-123"}},
                {"Bool": {"aws:SecureTransport": "true"}},
                {"IpAddress": {"aws:SourceIp": ["10.0.0.0/8", "192.168.0.0/16"]}},
                {"StringLike": {"s3:prefix": ["home/*", "a?c"]}, "NumericLessThan": {"s3:max-keys": 10}},
                {"ForAllValues:StringEquals": {"aws:TagKeys": ["a", "b"]}},
                {"DateGreaterThan": {"aws:CurrentTime": "2020-01-01T00:00:00Z"}},
                {"Null": {"aws:TokenIssueTime": "true"}},
            ]
        )
    return st


def gen_policy_document(rng, sid_prefix="S", with_condition=False, n=None):
    n = rng.choice([1, 1, 2, 3, 4]) if n is None else n
    stmts = [gen_statement(rng, sid=f"{sid_prefix}{i}", with_condition=with_condition) for i in range(n)]
    doc = {"Statement": stmts[0] if (n == 1 and rng.random() < 0.4) else stmts}
    if rng.random() < 0.7:
        doc["Version"] = "2012-10-17"
    if rng.random() < 0.2:
        doc["Id"] = sid_prefix + "-id"
    return doc


def gen_iam_resource(rng, tag="R", with_condition=False):
    """(resource definition, list of policy documents it embeds)"""
    kind = rng.randrange(11)
    pd = lambda s: gen_policy_document(rng, sid_prefix=f"{tag}{s}", with_condition=with_condition)  # noqa: E731
    if kind == 0:
        d = pd("a")
        return {"Type": "AWS::IAM::Policy", "Properties": {"PolicyName": "p", "PolicyDocument": d, "Roles": ["r"]}}, [d]
    if kind == 1:
        d = pd("a")
        return {"Type": "AWS::IAM::ManagedPolicy", "Properties": {"PolicyDocument": d}}, [d]
    if kind == 2:
        trust = {"Version": "2012-10-17", "Statement": [{"Effect": "Allow", "Principal": {"Service": "ec2.amazonaws.com"}, "Action": "sts:AssumeRole"}]}
        ds = [pd(chr(97 + i)) for i in range(rng.randrange(0, 3))]
        props = {"AssumeRolePolicyDocument": trust}
        if ds or rng.random() < 0.5:
            props["Policies"] = [{"PolicyName": f"n{i}", "PolicyDocument": d} for i, d in enumerate(ds)]
        return {"Type": "AWS::IAM::Role", "Properties": props}, ds
    if kind in (3, 4):
        ds = [pd(chr(97 + i)) for i in range(rng.randrange(0, 3))]
        props = {"Policies": [{"PolicyName": f"n{i}", "PolicyDocument": d} for i, d in enumerate(ds)]}
        return {"Type": "AWS::IAM::User" if kind == 3 else "AWS::IAM::Group", "Properties": props}, ds
    if kind == 5:
        d = pd("a")
        return {"Type": "AWS::S3::BucketPolicy", "Properties": {"Bucket": "b", "PolicyDocument": d}}, [d]
    if kind == 6:
        d = pd("a")
        return {"Type": "AWS::SQS::QueuePolicy", "Properties": {"Queues": ["q"], "PolicyDocument": d}}, [d]
    if kind == 7:
        d = pd("a")
        return {"Type": "AWS::SNS::TopicPolicy", "Properties": {"Topics": ["t"], "PolicyDocument": d}}, [d]
    if kind == 8:
        d = pd("a")
        return {"Type": "AWS::KMS::Key", "Properties": {"KeyPolicy": d, "Description": "k"}}, [d]
    if kind == 9:
        d = pd("a")
        return {"Type": "AWS::EC2::VPCEndpoint", "Properties": {"ServiceName": "s", "VpcId": "v", "PolicyDocument": d}}, [d]
    d = pd("a")
    return {"Type": "AWS::OpenSearchService::Domain", "Properties": {"DomainName": "d", "AccessPolicies": d}}, [d]


def gen_generic_action_resource(rng):
    """unmodelled resources carrying properties that happen to be named Action"""
    k = rng.randrange(5)
    if k == 0:
        rules = []
        for i in range(rng.randrange(1, 4)):
            rules.append(
                {
                    "Name": f"rule{i}",
                    "Priority": i,
                    "Action": rng.choice([{"Block": {}}, {"Allow": {}}, {"Count": {"CustomRequestHandling": {"InsertHeaders": [{"Name": "x", "Value": "y"}]}}}]),
                    "Statement": {"ByteMatchStatement": {"SearchString": "a", "PositionalConstraint": "CONTAINS"}},
                    "VisibilityConfig": {"SampledRequestsEnabled": True, "CloudWatchMetricsEnabled": False, "MetricName": "m"},
                }
            )
        return {"Type": "AWS::WAFv2::WebACL", "Properties": {"Scope": "REGIONAL", "DefaultAction": {"Allow": {}}, "Rules": rules}}
    if k == 1:
        return {"Type": "AWS::Lambda::Permission", "Properties": {"FunctionName": "f", "Action": rng.choice(["lambda:InvokeFunction", "lambda:*", "lambda:Invoke*"]), "Principal": "s3.amazonaws.com"}}
    if k == 2:
        return {"Type": "AWS::ElasticLoadBalancingV2::ListenerRule", "Properties": {"Actions": [{"Type": "forward", "TargetGroupArn": "arn"}], "Priority": 1, "Action": [{"Type": "x"}, "s3:Get*"]}}
    if k == 3:
        return {"Type": "Custom::Thing", "Properties": {"Action": {"Fn": "x", "NotAction": "ec2:Describe*"}, "NotAction": {"a": [1, 2]}, "Nested": [{"Action": "sqs:Send*"}, {"Action": None}]}}
    if rng.random() < 0.3:
        return {"Type": "AWS::EC2::NetworkAclEntry", "Properties": {"NetworkAclId": "acl", "RuleNumber": 100, "Protocol": -1,
                "RuleAction": rng.choice(["allow", "deny", "s3:Get*"]), "Egress": True, "CidrBlock": "10.0.0.0/16",
                "OnFailureAction": ["ec2:Run*"], "Actions": "iam:*"}}
    return {"Type": "AWS::Events::Rule", "Properties": {"Targets": [{"Id": "t", "Arn": "arn", "Action": rng.choice([5, True, {"k": "v"}])}]}, "Metadata": {"Action": rng.choice(["s3:Get*", {"x": 1}]), "Doc": {"NotAction": ["ec2:Run*"]}}}


def deep_copy(x):
    return json.loads(json.dumps(x))


def valid_resources(rng):
    """one valid definition of every modelled resource type (keyed by Type)"""
    pd = lambda: gen_policy_document(rng, sid_prefix="v")  # noqa: E731
    trust = {"Version": "2012-10-17", "Statement": [{"Effect": "Allow", "Principal": {"Service": "ec2.amazonaws.com"}, "Action": "sts:AssumeRole"}]}
    return {
        "AWS::EC2::VPCEndpoint": {"Type": "AWS::EC2::VPCEndpoint", "Properties": {"ServiceName": "s", "VpcId": "v", "PolicyDocument": pd(), "PrivateDnsEnabled": True}},
        "AWS::Elasticsearch::Domain": {"Type": "AWS::Elasticsearch::Domain", "Properties": {"DomainName": "d", "AccessPolicies": pd(), "EBSOptions": {"EBSEnabled": True}}},
        "AWS::IAM::Group": {"Type": "AWS::IAM::Group", "Properties": {"GroupName": "g", "Policies": [{"PolicyName": "p", "PolicyDocument": pd()}]}},
        "AWS::IAM::ManagedPolicy": {"Type": "AWS::IAM::ManagedPolicy", "Properties": {"PolicyDocument": pd(), "ManagedPolicyName": "m"}},
        "AWS::IAM::Policy": {"Type": "AWS::IAM::Policy", "Properties": {"PolicyName": "p", "PolicyDocument": pd(), "Roles": ["r"]}},
        "AWS::IAM::Role": {"Type": "AWS::IAM::Role", "Properties": {"AssumeRolePolicyDocument": trust, "Path": "/", "MaxSessionDuration": 3600}},
        "AWS::IAM::User": {"Type": "AWS::IAM::User", "Properties": {"UserName": "u", "LoginProfile": {"Password": "x"}}},
        "AWS::KMS::Key": {"Type": "AWS::KMS::Key", "Properties": {"KeyPolicy": pd(), "EnableKeyRotation": "true", "PendingWindowInDays": 7}},
        "AWS::OpenSearchService::Domain": {"Type": "AWS::OpenSearchService::Domain", "Properties": {"DomainName": "d", "AccessPolicies": pd()}},
        "AWS::RDS::DBSecurityGroup": {"Type": "AWS::RDS::DBSecurityGroup", "Properties": {"GroupDescription": "d", "DBSecurityGroupIngress": [{"CIDRIP": "10.0.0.0/8"}]}},
        "AWS::RDS::DBSecurityGroupIngress": {"Type": "AWS::RDS::DBSecurityGroupIngress", "Properties": {"DBSecurityGroupName": "n", "CIDRIP": "1.2.3.4/32"}},
        "AWS::S3::Bucket": {"Type": "AWS::S3::Bucket", "Properties": {"BucketName": "b", "Tags": [{"Key": "k", "Value": "v"}], "VersioningConfiguration": {"Status": "Enabled"}}},
        "AWS::S3::BucketPolicy": {"Type": "AWS::S3::BucketPolicy", "Properties": {"Bucket": "b", "PolicyDocument": pd()}},
        "AWS::EC2::SecurityGroup": {"Type": "AWS::EC2::SecurityGroup", "Properties": {"GroupDescription": "d", "SecurityGroupIngress": [{"IpProtocol": "tcp", "CidrIp": "10.0.0.0/8", "FromPort": 22, "ToPort": 22}]}},
        "AWS::EC2::SecurityGroupEgress": {"Type": "AWS::EC2::SecurityGroupEgress", "Properties": {"GroupId": "g", "IpProtocol": "-1", "CidrIp": "0.0.0.0/0"}},
        "AWS::EC2::SecurityGroupIngress": {"Type": "AWS::EC2::SecurityGroupIngress", "Properties": {"GroupId": "g", "IpProtocol": "tcp", "CidrIpv6": "::/0", "FromPort": 443, "ToPort": 443}},
        "AWS::SNS::TopicPolicy": {"Type": "AWS::SNS::TopicPolicy", "Properties": {"Topics": ["t"], "PolicyDocument": pd()}},
        "AWS::SQS::QueuePolicy": {"Type": "AWS::SQS::QueuePolicy", "Properties": {"Queues": ["q"], "PolicyDocument": pd()}},
    }
