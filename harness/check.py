"""Entry point: ./check <ID> [--tier quick|thorough] [--replay PATH] | --setup"""
import argparse
import importlib
import json
import os
import sys
import traceback

from . import common, lean


def run_property(prop, tier, seed):
    report = common.Report(prop, tier, seed)
    mod = importlib.import_module(f"harness.props.{prop.lower()}")
    proofs_ok, driver_ok = lean.check_proofs(report, prop, getattr(mod, "EXTRA_TARGETS", ()))
    driver = common.Driver() if driver_ok else None
    mod.run(report, tier, seed, driver, proofs_ok)
    broken = report.extra.get("broken_obligations", [])
    if broken and not report.violations:
        # a proof obligation or the model build no longer checks, and the search found no failing input
        report.violation(
            "proof-obligation-broken",
            "; ".join(sorted({f"{b['file']}:{b['declaration']}" for b in broken}))[:300],
            op=None,
            oracle="search over corpus and generated inputs found no input on which the property fails",
            found_input=False,
            broken=broken,
        )
    elif broken:
        for v in report.violations:
            v["broken_obligations"] = broken
    return report.finish()


def main(argv=None):
    ap = argparse.ArgumentParser()
    ap.add_argument("prop", nargs="?")
    ap.add_argument("--tier", default=os.environ.get("VERIF_TIER", "quick"), choices=["quick", "thorough"])
    ap.add_argument("--replay")
    ap.add_argument("--setup", action="store_true")
    args = ap.parse_args(argv)
    try:
        if args.setup:
            res = lean.prepare(["PycfModel", "pycf_driver"])
            print(res.log[-2000:])
            if not res.ok:
                # a proof broken on the tree being set up is reported by the checks, not by setup
                print("setup: lake build reported errors; the per-property checks will report them")
            return 0
        if not args.prop:
            ap.error("property id required")
        prop = args.prop.upper()
        if args.replay:
            mod = importlib.import_module(f"harness.props.{prop.lower()}")
            with open(args.replay) as f:
                rep = json.load(f)
            return mod.replay(rep) if hasattr(mod, "replay") else generic_replay(prop, rep)
        return run_property(prop, args.tier, common.seed_from_env())
    except common.InfraError as e:
        print(f"INFRASTRUCTURE-ERROR: {e}", file=sys.stderr)
        return 2
    except Exception:
        traceback.print_exc()
        return 2


def generic_replay(prop, rep):
    print(json.dumps({k: rep.get(k) for k in ("property", "kind", "what", "op", "impl", "model", "oracle")}, indent=1, ensure_ascii=False))
    op = rep.get("op")
    if isinstance(op, dict) and "op" in op:
        lean.prepare(["pycf_driver"])
        out = common.Driver().run([op])[0]
        print("model now:", json.dumps(out, ensure_ascii=False))
    return 0


if __name__ == "__main__":
    sys.exit(main())
