"""Whole-template generation and the template-level correspondence op (`tresolve`)."""
import copy

from . import common, genexpr


def gen_parameters(rng):
    """(Parameters section, extra_params) giving values to the names the expression generator uses"""
    decls, extra = {}, {}
    for name, val in genexpr.STR_PARAMS.items():
        k = rng.randrange(6)
        if k == 0:
            decls[name] = {"Type": "String", "Default": val}
        elif k == 1:
            decls[name] = {"Type": "String"}
            extra[name] = val
        elif k == 2:
            decls[name] = {"Type": "String", "Default": "overridden-" + name}
            extra[name] = val
        elif k == 3:
            extra[name] = val  # undeclared, supplied
        elif k == 4:
            decls[name] = {"Type": "String", "Default": val, "Description": "d", "AllowedPattern": ".*"}
        else:
            decls[name] = {"Type": "String"}  # declared, no value, no default: references read UNDEFINED_PARAM_
    for name, val in genexpr.LIST_PARAMS.items():
        k = rng.randrange(4)
        text = ",".join(val)
        if k == 0 and val:
            decls[name] = {"Type": "CommaDelimitedList", "Default": text}
        elif k == 1 and val:
            decls[name] = {"Type": rng.choice(["CommaDelimitedList", "List<Number>"])}
            extra[name] = text
        elif k == 2:
            extra[name] = list(val)
        else:
            decls[name] = {"Type": "CommaDelimitedList"}  # value-less list parameter
    if rng.random() < 0.5:
        decls["Count"] = {"Type": "Number", "Default": rng.choice([3, "3", 0])}
        extra.pop("Count", None)
    # constraints of a declaration are not the library's to enforce: a supplied value outside AllowedValues is still the value
    for name, decl in decls.items():
        if rng.random() < 0.25:
            decl["AllowedValues"] = rng.choice([["never-this"], ["dev", "prod"], [80, 443]])
    if rng.random() < 0.5:
        ne = {"Type": "String", "NoEcho": rng.choice([True, "true", True])}
        r = rng.random()
        if r < 0.4:
            ne["Default"] = rng.choice(["s3cr3t-default", "", 0])
        decls["Secret"] = ne
        if rng.random() < 0.5:
            extra["Secret"] = "s3cr3t-value"
    if rng.random() < 0.3:
        extra["AWS::Region"] = rng.choice(["us-east-1", "eu-west-1"])
    if rng.random() < 0.2:
        extra["Unused"] = "u"
    # values handed over as Python booleans / numbers for names the template does not declare (read through Ref / Fn::ImportValue)
    if rng.random() < 0.5:
        extra["CacheEnabled"] = rng.choice([True, False])
        extra["shared-replicas"] = rng.choice([0, 1, 2, 1.5])
    # declaration order is random
    items = list(decls.items())
    rng.shuffle(items)
    return dict(items), extra


def gen_conditions(rng, n=None, cyclic_ok=True):
    n = rng.randrange(0, 7) if n is None else n
    names = [f"C{i}" for i in range(n)]
    # names that are also spellings of booleans / look like other things: a name is looked up as written
    for special in ("True", "FALSE", "true", "AWS::NoValue", "12"):
        if names and rng.random() < 0.15:
            names[rng.randrange(len(names))] = special
    g = genexpr.ExprGen(rng, max_depth=2)
    defs = {}
    for i, name in enumerate(names):
        def ref():
            r = rng.random()
            if r < 0.55 and i > 0:
                return {"Condition": rng.choice(names[:i])}  # acyclic reference
            if r < 0.75 and cyclic_ok:
                return {"Condition": rng.choice(names)}  # possibly self / forward => cycle
            if r < 0.8:
                return {"Condition": "Undeclared"}
            a = g.str_expr(1)
            return {"Fn::Equals": [a, a if rng.random() < 0.5 else g.str_expr(1)]}

        k = rng.randrange(7)
        if k == 6:
            # a condition that is a value rather than a condition function: a mapped flag, a parameter, an Fn::If
            d = rng.choice([
                {"Fn::FindInMap": ["Flags", rng.choice(["prod", "dev", {"Ref": "Env"}]), rng.choice(["Versioning", "Logging", "Public"])]},
                {"Ref": "Flag"},
                {"Fn::If": ["IsProd", rng.choice(["true", "1", "yes"]), rng.choice(["false", "0", "off"])]},
                {"Fn::Select": [rng.choice([0, 1]), ["true", "false"]]},
            ])
        elif k == 0:
            d = {"Fn::Not": [ref()]}
        elif k == 1:
            d = {"Fn::And": [ref() for _ in range(rng.randrange(2, 4))]}
        elif k == 2:
            d = {"Fn::Or": [ref() for _ in range(rng.randrange(2, 4))]}
        elif k == 3:
            d = rng.choice([
                {"Fn::Equals": [{"Ref": rng.choice(["Env", "AWS::Region", "Flag"])}, rng.choice(["prod", "eu-west-1", "true", "TRUE"])]},
                {"Fn::Equals": [{"Ref": "CacheEnabled"}, rng.choice(["true", "false", "True", True])]},
                {"Fn::Equals": [{"Fn::ImportValue": "shared-replicas"}, rng.choice(["0", "1", "1.5", 1])]},
                # equality of objects is equality of their members, whatever the order they are written in
                {"Fn::Equals": [{"team": "data", "stage": {"Ref": "Env"}}, rng.choice([{"stage": "prod", "team": "data"}, {"team": "data", "stage": "prod"}, {"stage": "dev", "team": "data"}])]},
                {"Fn::Equals": [["a", {"Ref": "Env"}], rng.choice([["a", "prod"], ["prod", "a"]])]},
                # operands that are booleans / numbers not written in the template (read from a mapping, produced by a condition
                # function) are compared as the text they render to: true is "true" and is not 1
                {"Fn::Equals": [{"Fn::FindInMap": ["Flags", rng.choice(["prod", "dev"]), rng.choice(["Versioning", "Logging"])]},
                                rng.choice([{"Fn::FindInMap": ["Flags", rng.choice(["prod", "dev"]), rng.choice(["Versioning", "Logging"])]}, "true", "false", "1", "0", 1, True, "True"])]},
                {"Fn::Equals": [{"Fn::Equals": ["a", rng.choice(["a", "b"])]}, rng.choice(["true", "false", True, {"Fn::FindInMap": ["Flags", "prod", "Versioning"]}])]},
            ])
        else:
            d = ref()
        defs[name] = d
    items = list(defs.items())
    rng.shuffle(items)
    return dict(items)


def gen_resources(rng, cond_names, n=None, max_depth=3):
    n = rng.randrange(1, 5) if n is None else n
    res = {}
    for i in range(n):
        g = genexpr.ExprGen(rng, max_depth=max_depth)
        k = rng.randrange(6)
        if k < 3:
            props = {}
            for j in range(rng.randrange(1, 4)):
                props[f"P{j}"] = g.any_expr()
            if rng.random() < 0.3:
                props["Opt"] = {"Fn::If": [rng.choice(cond_names + ["IsProd"]), g.str_expr(2), {"Ref": "AWS::NoValue"}]}
            if rng.random() < 0.2:
                # one of the two is taken; the other section is not evaluated, whatever it holds
                bad = rng.choice([{"Fn::Select": ["not-a-number", ["a"]]}, {"Fn::Split": ["", "abc"]}, {"Fn::Base64": ["a"]}, {"Fn::Join": ["-", "text"]}])
                props["Lazy1"] = {"Fn::If": ["AlwaysTrue", g.str_expr(1), bad]}
                props["Lazy2"] = {"Fn::If": ["AlwaysFalse", bad, g.str_expr(1)]}
            r = {"Type": rng.choice(["Custom::Thing", "AWS::SSM::Parameter", "AWS::Lambda::Function"]), "Properties": props}
        elif k == 3:
            r = {"Type": "AWS::S3::Bucket", "Properties": {"BucketName": g.str_expr(1), "Tags": [{"Key": "k", "Value": g.str_expr(2)}]}}
        elif k == 4:
            ingress = [{"IpProtocol": "tcp", "FromPort": 22, "ToPort": 22, "CidrIp": rng.choice(["10.0.0.0/8", "0.0.0.0/0", {"Fn::Sub": "10.${Count}.0.0/16"}])}]
            if rng.random() < 0.5:
                ingress.append({"Fn::If": [rng.choice(cond_names + ["IsProd"]), {"IpProtocol": "-1", "CidrIpv6": "::/0"}, {"Ref": "AWS::NoValue"}]})
            r = {"Type": "AWS::EC2::SecurityGroup", "Properties": {"GroupDescription": g.str_expr(1), "SecurityGroupIngress": ingress}}
        else:
            st = {"Effect": "Allow", "Action": ["s3:GetObject"], "Resource": [g.str_expr(2), {"Fn::Sub": "arn:aws:s3:::${Name}/*"}]}
            r = {"Type": "AWS::IAM::ManagedPolicy", "Properties": {"PolicyDocument": {"Version": "2012-10-17", "Statement": [st]}, "ManagedPolicyName": g.str_expr(1)}}
        if rng.random() < 0.25:
            r["DeletionPolicy"] = rng.choice(["Retain", {"Fn::If": ["IsProd", "Retain", "Delete"]}, {"Ref": "Env"}])
            r["UpdateReplacePolicy"] = rng.choice(["Delete", {"Fn::Sub": "${Env}"}])
            r["DependsOn"] = rng.choice(["R0", ["R0", {"Ref": "Name"}], {"Fn::If": ["IsDev", "R0", {"Ref": "AWS::NoValue"}]}])
            r["Metadata"] = {"Note": {"Fn::Join": ["-", ["a", {"Ref": "Env"}]]}, "List": [{"Ref": "Env"}]}
        c = rng.random()
        if c < 0.4 and cond_names:
            r["Condition"] = rng.choice(cond_names)
        elif c < 0.45:
            r["Condition"] = "Undeclared"
        res[f"R{i}"] = r
    return res


def gen_template(rng, max_depth=3, cyclic_ok=True):
    params, extra = gen_parameters(rng)
    conds = gen_conditions(rng, cyclic_ok=cyclic_ok)
    conds.update({"IsProd": {"Fn::Equals": [{"Ref": "Env"}, "prod"]}, "IsDev": {"Fn::Not": [{"Condition": "IsProd"}]},
                  "AlwaysTrue": {"Fn::Equals": ["a", "a"]}, "AlwaysFalse": {"Fn::Equals": ["a", "b"]}})
    items = list(conds.items())
    rng.shuffle(items)
    conds = dict(items)
    t = {
        "Parameters": params,
        "Mappings": copy.deepcopy(genexpr.MAPPINGS),
        "Conditions": conds,
        "Resources": gen_resources(rng, list(conds), max_depth=max_depth),
    }
    return t, extra


class Capture:
    """Observe what CFModel.resolve hands to the final re-validation (no change to the repository:
    the name `CFModel` in the module namespace is looked up at call time)."""

    def __init__(self):
        self.kw = None

    def run(self, model, extra):
        import pycfmodel.model.cf_model as cfm

        real = cfm.CFModel
        cap = self

        def fake(**kw):
            cap.kw = {k: copy.deepcopy(v) for k, v in kw.items() if k in ("Conditions", "Resources")}
            return real(**kw)

        cfm.CFModel = fake
        try:
            return real.resolve(model, extra)
        finally:
            cfm.CFModel = real


def decl_of(p):
    return {"type": p.Type, "default": common.enc(p.Default), "noecho": bool(p.NoEcho)}


def model_op(m, extra):
    """the `tresolve` op for a parsed model and an extra_params dict"""
    from pycfmodel.model.cf_model import CFModel

    dump = m.model_dump()
    return {
        "op": "tresolve",
        "pseudo": common.enc(dict(CFModel.PSEUDO_PARAMETERS)),
        "decls": [[k, decl_of(p)] for k, p in (m.Parameters or {}).items()],
        "mappings": common.enc(m.Mappings or {}),
        "conditions": common.enc(dump.get("Conditions") or {}),
        "resources": common.enc(dump["Resources"]),
        "extra": common.enc(extra or {}),
    }


def impl_tresolve(m, extra):
    """run CFModel.resolve on a parsed model; returns (observables, resolved model or None, extra after)"""
    cap = Capture()
    ex = copy.deepcopy(extra)
    try:
        m2 = cap.run(m, ex)
    except Exception as e:
        out = {"raised": common.exc_class(e), "message": str(e)[:200]}
        if cap.kw is not None:
            out["conditions"] = common.canon(cap.kw["Conditions"])
            out["resources"] = common.canon(cap.kw["Resources"])
        return out, None, ex
    return {"conditions": common.canon(cap.kw["Conditions"]), "resources": common.canon(cap.kw["Resources"])}, m2, ex


def parse(t):
    from pycfmodel import parse as p

    return p(copy.deepcopy(t))
