"""Generators for IAM condition blocks and request contexts, and the wire encoding of typed values."""
import base64
import datetime as dt
import ipaddress
import unicodedata

UTC = dt.timezone.utc
EPOCH_A = dt.datetime(1970, 1, 1, tzinfo=UTC)
EPOCH_N = dt.datetime(1970, 1, 1)

STRING_OPS = ["StringEquals", "StringNotEquals", "StringEqualsIgnoreCase", "StringNotEqualsIgnoreCase", "StringLike", "StringNotLike"]
ARN_OPS = ["ArnEquals", "ArnNotEquals", "ArnLike", "ArnNotLike"]
NUMERIC_OPS = ["NumericEquals", "NumericNotEquals", "NumericLessThan", "NumericLessThanEquals", "NumericGreaterThan", "NumericGreaterThanEquals"]
DATE_OPS = ["DateEquals", "DateNotEquals", "DateLessThan", "DateLessThanEquals", "DateGreaterThan", "DateGreaterThanEquals"]
OTHER_OPS = ["Bool", "BinaryEquals", "IpAddress", "NotIpAddress", "Null"]
BASE_OPS = STRING_OPS + ARN_OPS + NUMERIC_OPS + DATE_OPS + OTHER_OPS
NEGATED = {"StringNotEquals": "StringEquals", "ArnNotEquals": "ArnEquals", "NumericNotEquals": "NumericEquals", "DateNotEquals": "DateEquals",
           "StringNotEqualsIgnoreCase": "StringEqualsIgnoreCase", "StringNotLike": "StringLike", "ArnNotLike": "ArnLike", "NotIpAddress": "IpAddress"}


def family(op):
    if op in STRING_OPS or op in ARN_OPS:
        return "str"
    if op in NUMERIC_OPS:
        return "int"
    if op in DATE_OPS:
        return "date"
    return {"Bool": "bool", "BinaryEquals": "bytes", "IpAddress": "ip", "NotIpAddress": "ip", "Null": "null"}[op]


def to_cv(v):
    if v is None:
        return None
    if isinstance(v, bool):
        return {"b": v}
    if isinstance(v, int):
        return {"i": v}
    if isinstance(v, str):
        return {"s": [v, unicodedata.normalize("NFKD", v.casefold())]}
    if isinstance(v, dt.datetime):
        if v.tzinfo is not None and v.utcoffset() is not None:
            return {"dt": [(v - EPOCH_A) // dt.timedelta(microseconds=1), True]}
        return {"dt": [(v - EPOCH_N) // dt.timedelta(microseconds=1), False]}
    if isinstance(v, ipaddress.IPv4Network):
        return {"net": [False, str(int(v.network_address)), v.prefixlen]}
    if isinstance(v, ipaddress.IPv6Network):
        return {"net": [True, str(int(v.network_address)), v.prefixlen]}
    if isinstance(v, (bytes, bytearray)):
        return {"bytes": base64.b64encode(bytes(v)).decode()}
    if isinstance(v, (list, tuple)):
        return {"list": [to_cv(x) for x in v]}
    if type(v).__name__ == "FunctionDict" or (isinstance(v, dict) and len(v) == 1 and next(iter(v)) in ("Ref", "Fn::Sub", "Fn::Join", "Fn::If", "Fn::GetAtt")):
        return {"fn": True}
    return {"other": type(v).__name__}


STRS = ["abc", "ABC", "aBc", "abd", "ab", "abcd", "", "a*c", "a?c", "a.c", "arn:aws:s3:::bucket/key", "arn:aws:s3:::bucket/*", "arn:aws:s3:::Bucket/key",
        "é", "é", "É", "ß", "ss", "ﬁ", "fi", "o-123", "true"]
INTS = [-1, 0, 1, 2, 9, 10, 11, 2**40]
DATES_RAW = ["2020-01-01T00:00:00Z", "2020-01-01T00:00:01Z", "2019-12-31T23:59:59Z", "2020-01-01T00:00:00", "2020-01-01T01:00:00+01:00", "2021-06-15T12:30:00Z"]
NETS = ["10.0.0.0/8", "10.1.0.0/16", "10.1.2.0/24", "10.1.2.3/32", "11.0.0.0/8", "0.0.0.0/0", "192.168.0.0/16", "192.168.1.1", "2001:db8::/32", "2001:db8:1::/48", "::/0", "fe80::/10"]
BINS = [b"hello", b"hellp", b"", b"\x00\xff", b"hello world"]


def policy_raw(rng, op):
    """raw JSON policy value for an operator (as written in a template)"""
    f = family(op)
    if f == "str":
        return rng.choice(STRS)
    if f == "int":
        v = rng.choice(INTS)
        return v if rng.random() < 0.7 else str(v)
    if f == "date":
        return rng.choice(DATES_RAW)
    if f == "bool":
        return rng.choice([True, False, "true", "false", "True", "FALSE"])
    if f == "bytes":
        return base64.b64encode(rng.choice(BINS)).decode()
    if f == "ip":
        return rng.choice(NETS)
    return rng.choice(["true", "false", True, False])


def parse_date(s):
    return dt.datetime.fromisoformat(s.replace("Z", "+00:00"))


def ctx_value(rng, op, policy_typed, matching=None):
    """a context value related to the (typed) policy value: equal / adjacent / unrelated / ill-typed"""
    f = family(op)
    r = rng.random() if matching is None else (0.1 if matching else 0.5)
    if f == "str":
        if r < 0.3 and isinstance(policy_typed, str):
            base = policy_typed
            if "Like" in op:
                base = base.replace("*", rng.choice(["", "", "x", "xyz/1"])).replace("?", rng.choice(["q", "/", ""]))
            return base
        if r < 0.45 and isinstance(policy_typed, str):
            return policy_typed.swapcase()
        if r < 0.9:
            return rng.choice(STRS)
        return rng.choice([5, None, True, ["abc"]])
    if f == "int":
        if r < 0.5 and isinstance(policy_typed, int):
            return policy_typed + rng.choice([-1, 0, 0, 1])
        if r < 0.9:
            return rng.choice(INTS)
        return rng.choice(["5", None, True, 2.5 if False else False])
    if f == "date":
        if r < 0.5 and isinstance(policy_typed, dt.datetime):
            return policy_typed + dt.timedelta(seconds=rng.choice([-1, 0, 0, 1]), microseconds=rng.choice([0, 0, 1]))
        if r < 0.85:
            return parse_date(rng.choice(DATES_RAW))
        return rng.choice([dt.date(2020, 1, 1), "2020-01-01T00:00:00Z", None, 5])
    if f == "bool":
        return rng.choice([True, False, True, False, "true", 1, 0, None])
    if f == "bytes":
        if r < 0.4 and isinstance(policy_typed, (bytes, bytearray)):
            return bytes(policy_typed)
        return rng.choice(BINS + ["aGVsbG8=", None])
    if f == "ip":
        if r < 0.85:
            s = rng.choice(NETS)
            return ipaddress.ip_network(s, strict=False)
        return rng.choice(["10.0.0.1", None, 5])
    return rng.choice(["x", None, 5, True])


def op_field(base, quant, ifexists, colon):
    q = {"": "", "all": "ForAllValues", "any": "ForAnyValue"}[quant]
    name = (q + (":" if colon and q else "") + base) if q else base
    return name + ("IfExists" if ifexists else "")


def gen_block(rng, n_ops=None, single=False):
    """raw condition block: {operator: {key: value-or-list}}"""
    n_ops = rng.choice([1, 1, 2, 3]) if n_ops is None else n_ops
    blk = {}
    for _ in range(n_ops):
        base = rng.choice(BASE_OPS)
        if single:
            quant, ifx = "", False
        else:
            quant = rng.choice(["", "", "", "all", "any"])
            ifx = rng.random() < 0.2 and base != "Null"
        name = op_field(base, quant, ifx, colon=rng.random() < 0.5)
        keys = {}
        for j in range(1 if single else rng.choice([1, 1, 2, 3])):
            k = rng.choice(["k0", "k1", "k2", "aws:x"])
            if single or (base == "Null") or rng.random() < 0.5:
                keys[k] = policy_raw(rng, base)
            else:
                keys[k] = [policy_raw(rng, base) for _ in range(rng.choice([1, 2, 2, 3]))]
        blk[name] = keys
    return blk


def typed_block(cond):
    """[(field name, [(key, typed policy value)])] from a validated StatementCondition, in dump order"""
    out = []
    for name, keys in cond.model_dump().items():
        if keys is None or name == "_eval":
            continue
        out.append((name, list(keys.items())))
    return out


def gen_context(rng, tblock, missing_p=0.15):
    ctx = {}
    for name, keys in tblock:
        base = name.replace("IfExists", "").replace("ForAllValues", "").replace("ForAnyValue", "")
        quant = "all" if name.startswith("ForAllValues") else ("any" if name.startswith("ForAnyValue") else "")
        for k, pv in keys:
            if k in ctx and rng.random() < 0.7:
                continue
            if rng.random() < missing_p:
                ctx.pop(k, None)
                continue
            one = pv[rng.randrange(len(pv))] if isinstance(pv, list) and pv else pv
            if quant or rng.random() < 0.15:
                ctx[k] = [ctx_value(rng, base, one) for _ in range(rng.choice([0, 1, 2, 3]))]
            else:
                ctx[k] = ctx_value(rng, base, one)
    if rng.random() < 0.2:
        ctx["unrelated"] = "zzz"
    return ctx
