#!/bin/sh
# usage: ./sweep_many.sh <first-seed> <last-seed> <ID>...  — quick tier over a range of seeds, failures only
a=$1; b=$2; shift; shift
./check --setup > /dev/null 2>&1 || { echo "setup failed"; exit 2; }
s=$a
while [ $s -le $b ]; do
  for id in "$@"; do
    out=$(VERIF_SEED=$s timeout 3600 ./check $id --tier quick 2>&1); rc=$?
    if [ $rc -ne 0 ]; then echo "seed=$s $id rc=$rc"; echo "$out" | grep '^VIOLATION' | cut -c1-220; fi
  done
  echo "seed $s done"
  s=$((s+1))
done
