#!/bin/sh
# usage: ./sweep.sh <tier> <seed>...   — every claimed check on the current tree, one line per run
tier=$1; shift
./check --setup > /dev/null 2>&1 || { echo "setup failed"; exit 2; }
for seed in "$@"; do
  for id in C01 C02 C03 C04 C05 C06 C07 C08 C09 C10 C11 C12 C13 C14 C15 C16 C17 C18 C19; do
    out=$(VERIF_SEED=$seed timeout 7200 ./check $id --tier $tier 2>&1); rc=$?
    echo "seed=$seed $id rc=$rc $(echo "$out" | grep -c '^VIOLATION') violations :: $(echo "$out" | tail -1 | cut -c1-160)"
    echo "$out" | grep '^VIOLATION' | cut -c1-220
  done
done
