import PycfModel.Model.Glob
import PycfModel.Props.C08
