/-
The value universe shared by every model: JSON plus the typed leaves that survive
pydantic's python-mode `model_dump()` (dates, datetimes, networks, bytes) and opaque floats.
Core-only.
-/
namespace PycfModel

inductive J where
  | null
  | bool (b : Bool)
  | int (i : Int)
  /-- a float, carried as Python's `str(f)`; nothing is computed with it -/
  | num (repr : String)
  | str (s : String)
  /-- typed leaf: kind ∈ {date, datetime, ip4, ip6, bytes}, payload = Python's `str(x)` (bytes: base64) -/
  | leaf (kind : String) (payload : String)
  | arr (xs : List J)
  | obj (kvs : List (String × J))
  deriving Repr, Inhabited

namespace J

mutual
  def beq : J → J → Bool
    | .null, .null => true
    | .bool a, .bool b => a == b
    | .int a, .int b => a == b
    | .num a, .num b => a == b
    | .str a, .str b => a == b
    | .leaf k a, .leaf k' b => k == k' && a == b
    | .arr xs, .arr ys => beqList xs ys
    | .obj xs, .obj ys => beqMembers xs ys
    | _, _ => false
  def beqList : List J → List J → Bool
    | [], [] => true
    | x :: xs, y :: ys => beq x y && beqList xs ys
    | _, _ => false
  def beqMembers : List (String × J) → List (String × J) → Bool
    | [], [] => true
    | (k, x) :: xs, (k', y) :: ys => k == k' && beq x y && beqMembers xs ys
    | _, _ => false
end

instance : BEq J := ⟨beq⟩

/-- association-list lookup, first binding wins (JSON objects coming from Python have unique keys) -/
def lookup (k : String) : List (String × α) → Option α
  | [] => none
  | (k', v) :: rest => if k' = k then some v else lookup k rest

def keys (kvs : List (String × α)) : List String := kvs.map (·.1)

mutual
  def size : J → Nat
    | .arr xs => 1 + sizeList xs
    | .obj kvs => 1 + sizeMembers kvs
    | _ => 1
  def sizeList : List J → Nat
    | [] => 0
    | x :: xs => size x + sizeList xs
  def sizeMembers : List (String × J) → Nat
    | [] => 0
    | (_, x) :: xs => size x + sizeMembers xs
end

end J
end PycfModel

namespace PycfModel.J

mutual
  theorem beq_eq : (a b : J) → (beq a b = true ↔ a = b)
    | .null, b => by cases b <;> simp [beq]
    | .bool x, b => by cases b <;> simp [beq]
    | .int x, b => by cases b <;> simp [beq]
    | .num x, b => by cases b <;> simp [beq]
    | .str x, b => by cases b <;> simp [beq]
    | .leaf k x, b => by cases b <;> simp [beq]
    | .arr xs, b => by
      cases b with
      | arr ys => simp [beq, beqList_eq xs ys]
      | _ => simp [beq]
    | .obj xs, b => by
      cases b with
      | obj ys => simp [beq, beqMembers_eq xs ys]
      | _ => simp [beq]
  theorem beqList_eq : (xs ys : List J) → (beqList xs ys = true ↔ xs = ys)
    | [], ys => by cases ys <;> simp [beqList]
    | x :: xs, ys => by
      cases ys with
      | nil => simp [beqList]
      | cons y ys => simp [beqList, beq_eq x y, beqList_eq xs ys]
  theorem beqMembers_eq : (xs ys : List (String × J)) → (beqMembers xs ys = true ↔ xs = ys)
    | [], ys => by cases ys <;> simp [beqMembers]
    | (k, x) :: xs, ys => by
      cases ys with
      | nil => simp [beqMembers]
      | cons y ys =>
        obtain ⟨k', y⟩ := y
        simp [beqMembers, beq_eq x y, beqMembers_eq xs ys, and_assoc]
end

instance : DecidableEq J := fun a b => decidable_of_iff _ (beq_eq a b)

instance : LawfulBEq J where
  eq_of_beq h := (beq_eq _ _).1 h
  rfl := (beq_eq _ _).2 rfl

end PycfModel.J
