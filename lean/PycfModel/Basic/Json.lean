/-
The value universe shared by every model: JSON plus the typed leaves that survive
pydantic's python-mode `model_dump()` (dates, datetimes, networks, bytes) and opaque floats.
Core-only.
-/
namespace PycfModel

inductive J where
  | null
  | bool (b : Bool)
  | int (i : Int)
  /-- a float, carried as Python's `str(f)`; nothing is computed with it -/
  | num (repr : String)
  | str (s : String)
  /-- typed leaf: kind ∈ {date, datetime, ip4, ip6, bytes}, payload = Python's `str(x)` (bytes: base64) -/
  | leaf (kind : String) (payload : String)
  | arr (xs : List J)
  | obj (kvs : List (String × J))
  deriving Repr, Inhabited

namespace J

mutual
  def beq : J → J → Bool
    | .null, .null => true
    | .bool a, .bool b => a == b
    | .int a, .int b => a == b
    | .num a, .num b => a == b
    | .str a, .str b => a == b
    | .leaf k a, .leaf k' b => k == k' && a == b
    | .arr xs, .arr ys => beqList xs ys
    | .obj xs, .obj ys => beqMembers xs ys
    | _, _ => false
  def beqList : List J → List J → Bool
    | [], [] => true
    | x :: xs, y :: ys => beq x y && beqList xs ys
    | _, _ => false
  def beqMembers : List (String × J) → List (String × J) → Bool
    | [], [] => true
    | (k, x) :: xs, (k', y) :: ys => k == k' && beq x y && beqMembers xs ys
    | _, _ => false
end

instance : BEq J := ⟨beq⟩

/-- association-list lookup, first binding wins (JSON objects coming from Python have unique keys) -/
def lookup (k : String) : List (String × α) → Option α
  | [] => none
  | (k', v) :: rest => if k' = k then some v else lookup k rest

def keys (kvs : List (String × α)) : List String := kvs.map (·.1)

mutual
  def size : J → Nat
    | .arr xs => 1 + sizeList xs
    | .obj kvs => 1 + sizeMembers kvs
    | _ => 1
  def sizeList : List J → Nat
    | [] => 0
    | x :: xs => size x + sizeList xs
  def sizeMembers : List (String × J) → Nat
    | [] => 0
    | (_, x) :: xs => size x + sizeMembers xs
end

end J
end PycfModel
