import Lean.Data.Json
import PycfModel.Basic.Json
/-
Wire encoding between the Python harness and the driver (driver-only; proves nothing).
Plain JSON, except that objects are `{"o":[[k,v],…]}` (member order is observable), floats are
`{"f":"1.5"}` and typed leaves `{"l":[kind,payload]}`.
-/
namespace PycfModel.Wire
open Lean (Json)

partial def toJ : Json → Except String J
  | .null => pure .null
  | .bool b => pure (.bool b)
  | .num n =>
    if n.exponent == 0 then pure (.int n.mantissa)
    else .error s!"non-integer number on the wire: {n}"
  | .str s => pure (.str s)
  | .arr xs => do
    let ys ← xs.toList.mapM toJ
    pure (.arr ys)
  | j@(.obj _) => do
    match j.getObjVal? "o" with
    | .ok (.arr members) =>
      let kvs ← members.toList.mapM fun m =>
        match m with
        | .arr #[.str k, v] => do pure (k, ← toJ v)
        | _ => .error "bad member"
      pure (.obj kvs)
    | _ =>
    match j.getObjVal? "f" with
    | .ok (.str r) => pure (.num r)
    | _ =>
    match j.getObjVal? "l" with
    | .ok (.arr #[.str k, .str p]) => pure (.leaf k p)
    | _ => .error s!"bad tagged object {j.compress}"

partial def ofJ : J → Json
  | .null => .null
  | .bool b => .bool b
  | .int i => .num ⟨i, 0⟩
  | .num r => Json.mkObj [("f", .str r)]
  | .str s => .str s
  | .leaf k p => Json.mkObj [("l", .arr #[.str k, .str p])]
  | .arr xs => .arr (xs.map ofJ).toArray
  | .obj kvs => Json.mkObj [("o", .arr (kvs.map fun (k, v) => .arr #[.str k, ofJ v]).toArray)]

def getStr (j : Json) (k : String) : Except String String := do
  match j.getObjVal? k with
  | .ok (.str s) => pure s
  | _ => .error s!"missing string field {k}"

def getBool (j : Json) (k : String) : Except String Bool := do
  match j.getObjVal? k with
  | .ok (.bool b) => pure b
  | _ => .error s!"missing bool field {k}"

def getJ (j : Json) (k : String) : Except String J := do
  match j.getObjVal? k with
  | .ok v => toJ v
  | _ => .error s!"missing field {k}"

def getJ? (j : Json) (k : String) : Except String (Option J) := do
  match j.getObjVal? k with
  | .ok v => some <$> toJ v
  | _ => pure none

def strList (xs : List String) : Json := .arr (xs.map Json.str).toArray

end PycfModel.Wire
