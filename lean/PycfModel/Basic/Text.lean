/-
Text algorithms on `List Char` used by the models (core-only).
"Sorted" always means lexicographic order on code points, which is Python's `str` order.
-/
namespace PycfModel.Text

/-- strict lexicographic order on code points -/
def ltc : List Char → List Char → Bool
  | [], [] => false
  | [], _ :: _ => true
  | _ :: _, [] => false
  | a :: as, b :: bs => a.toNat < b.toNat || (a.toNat == b.toNat && ltc as bs)

/-- ASCII lower-casing of one character / a string -/
def lowerChar (c : Char) : Char :=
  if 'A' ≤ c ∧ c ≤ 'Z' then Char.ofNat (c.toNat + 32) else c

def lower (s : List Char) : List Char := s.map lowerChar

/-- insert into a strictly sorted list, dropping duplicates -/
def insertSorted (x : List Char) : List (List Char) → List (List Char)
  | [] => [x]
  | y :: ys =>
    if ltc x y then x :: y :: ys
    else if x = y then y :: ys
    else y :: insertSorted x ys

/-- Python's `sorted(set(xs))` for strings -/
def sortDedup (xs : List (List Char)) : List (List Char) :=
  xs.foldr insertSorted []

/-- strictly increasing (hence duplicate-free) -/
def StrictSorted (xs : List (List Char)) : Prop := xs.Pairwise (fun a b => ltc a b = true)

def isPrefix : List Char → List Char → Bool
  | [], _ => true
  | _ :: _, [] => false
  | a :: as, b :: bs => a == b && isPrefix as bs

/-- join with a separator (Python's `sep.join(parts)`) -/
def join (sep : List Char) : List (List Char) → List Char
  | [] => []
  | [x] => x
  | x :: y :: rest => x ++ sep ++ join sep (y :: rest)

/-- Python's `s.split(sep)` for a non-empty separator: leftmost non-overlapping occurrences.
    `cur` accumulates the current piece in reverse. -/
def splitAux (sep : List Char) (n : Nat) : (fuel : Nat) → List Char → List Char → List (List Char)
  | 0, s, cur => [cur.reverse ++ s]
  | fuel + 1, s, cur =>
    match s with
    | [] => [cur.reverse]
    | c :: rest =>
      if isPrefix sep s then cur.reverse :: splitAux sep n fuel (s.drop n) []
      else splitAux sep n fuel rest (c :: cur)

def split (sep s : List Char) : List (List Char) :=
  splitAux sep sep.length (s.length + 1) s []

/-- decimal rendering of a natural number / integer (Python's `str(int)`) -/
def natToDigits (n : Nat) : List Char := (Nat.toDigits 10 n)

def intToChars (i : Int) : List Char :=
  match i with
  | .ofNat n => natToDigits n
  | .negSucc n => '-' :: natToDigits (n + 1)

def isDigit (c : Char) : Bool := '0' ≤ c && c ≤ '9'

/-- digits-only decimal parse -/
def parseNat? (s : List Char) : Option Nat :=
  if s.isEmpty || !s.all isDigit then none
  else some (s.foldl (fun acc c => acc * 10 + (c.toNat - '0'.toNat)) 0)

end PycfModel.Text
