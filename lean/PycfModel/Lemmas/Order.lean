import PycfModel.Basic.Text
/-! Helper lemmas: `ltc` is a strict total order; insertion sort with dedup. -/
namespace PycfModel.Text

theorem ltc_irrefl (a : List Char) : ltc a a = false := by
  induction a with
  | nil => rfl
  | cons x xs ih => simp [ltc, ih]

theorem ltc_trans {a b c : List Char} (h₁ : ltc a b = true) (h₂ : ltc b c = true) : ltc a c = true := by
  induction a generalizing b c with
  | nil =>
    cases b with
    | nil => simp [ltc] at h₁
    | cons y ys => cases c with
      | nil => simp [ltc] at h₂
      | cons z zs => simp [ltc]
  | cons x xs ih =>
    cases b with
    | nil => simp [ltc] at h₁
    | cons y ys =>
      cases c with
      | nil => simp [ltc] at h₂
      | cons z zs =>
        simp only [ltc, Bool.or_eq_true, decide_eq_true_eq, Bool.and_eq_true, beq_iff_eq] at *
        rcases h₁ with h₁ | ⟨e₁, h₁⟩ <;> rcases h₂ with h₂ | ⟨e₂, h₂⟩
        · left; omega
        · left; omega
        · left; omega
        · right; exact ⟨by omega, ih h₁ h₂⟩

theorem char_eq_of_toNat_eq {a b : Char} (h : a.toNat = b.toNat) : a = b := by
  apply Char.ext
  have : a.val.toNat = b.val.toNat := h
  exact UInt32.toNat_inj.mp this

theorem ltc_trichotomy (a b : List Char) : ltc a b = true ∨ a = b ∨ ltc b a = true := by
  induction a generalizing b with
  | nil => cases b <;> simp [ltc]
  | cons x xs ih =>
    cases b with
    | nil => simp [ltc]
    | cons y ys =>
      simp only [ltc, Bool.or_eq_true, decide_eq_true_eq, Bool.and_eq_true, beq_iff_eq, List.cons.injEq]
      rcases Nat.lt_trichotomy x.toNat y.toNat with h | h | h
      · left; left; exact h
      · rcases ih ys with h' | h' | h'
        · left; right; exact ⟨h, h'⟩
        · right; left; exact ⟨char_eq_of_toNat_eq h, h'⟩
        · right; right; right; exact ⟨h.symm, h'⟩
      · right; right; left; exact h

theorem ltc_asymm {a b : List Char} (h : ltc a b = true) : ltc b a = false := by
  cases hb : ltc b a with
  | false => rfl
  | true => have := ltc_trans h hb; rw [ltc_irrefl] at this; cases this

theorem ltc_ne {a b : List Char} (h : ltc a b = true) : a ≠ b := by
  intro e; subst e; rw [ltc_irrefl] at h; cases h

theorem mem_insertSorted {a x : List Char} {l : List (List Char)} :
    a ∈ insertSorted x l ↔ a = x ∨ a ∈ l := by
  induction l with
  | nil => simp [insertSorted]
  | cons y ys ih =>
    simp only [insertSorted]
    split
    · simp
    · split
      · rename_i h; subst h; simp
      · simp [ih]; constructor
        · rintro (h | h | h) <;> simp [h]
        · rintro (h | h | h) <;> simp [h]

theorem strictSorted_insertSorted {x : List Char} {l : List (List Char)} (h : StrictSorted l) :
    StrictSorted (insertSorted x l) := by
  unfold StrictSorted at *
  induction l with
  | nil => simp [insertSorted]
  | cons y ys ih =>
    rw [List.pairwise_cons] at h
    simp only [insertSorted]
    split
    · rename_i hxy
      rw [List.pairwise_cons]
      refine ⟨?_, List.pairwise_cons.mpr h⟩
      intro z hz
      rcases List.mem_cons.mp hz with rfl | hz
      · exact hxy
      · exact ltc_trans hxy (h.1 z hz)
    · rename_i hxy
      split
      · exact List.pairwise_cons.mpr h
      · rename_i hne
        rw [List.pairwise_cons]
        refine ⟨?_, ih h.2⟩
        intro z hz
        rcases mem_insertSorted.mp hz with rfl | hz
        · rcases ltc_trichotomy z y with h' | h' | h'
          · exact absurd h' hxy
          · exact absurd h' hne
          · exact h'
        · exact h.1 z hz

theorem mem_sortDedup {a : List Char} {l : List (List Char)} : a ∈ sortDedup l ↔ a ∈ l := by
  unfold sortDedup
  induction l with
  | nil => simp
  | cons y ys ih => simp [List.foldr, mem_insertSorted, ih]

theorem strictSorted_sortDedup (l : List (List Char)) : StrictSorted (sortDedup l) := by
  unfold sortDedup
  induction l with
  | nil => simp [StrictSorted]
  | cons y ys ih => exact strictSorted_insertSorted ih

theorem StrictSorted.nodup {l : List (List Char)} (h : StrictSorted l) : l.Nodup := by
  unfold StrictSorted at h
  exact h.imp (fun hab => ltc_ne hab)

/-- two strictly sorted lists with the same members are equal -/
theorem strictSorted_ext {l₁ l₂ : List (List Char)} (h₁ : StrictSorted l₁) (h₂ : StrictSorted l₂)
    (hm : ∀ a, a ∈ l₁ ↔ a ∈ l₂) : l₁ = l₂ := by
  unfold StrictSorted at *
  induction l₁ generalizing l₂ with
  | nil =>
    cases l₂ with
    | nil => rfl
    | cons y ys => have := (hm y).2 (by simp); simp at this
  | cons x xs ih =>
    cases l₂ with
    | nil => have := (hm x).1 (by simp); simp at this
    | cons y ys =>
      rw [List.pairwise_cons] at h₁ h₂
      have hxy : x = y := by
        have hx := (hm x).1 (by simp)
        have hy := (hm y).2 (by simp)
        rcases List.mem_cons.mp hx with h | h
        · exact h
        · rcases List.mem_cons.mp hy with h' | h'
          · exact h'.symm
          · have a := h₂.1 x h
            have b := h₁.1 y h'
            have := ltc_trans a b; rw [ltc_irrefl] at this; cases this
      subst hxy
      congr 1
      apply ih h₁.2 h₂.2
      intro a
      constructor
      · intro ha
        have := (hm a).1 (by simp [ha])
        rcases List.mem_cons.mp this with h | h
        · subst h; have := h₁.1 a ha; rw [ltc_irrefl] at this; cases this
        · exact h
      · intro ha
        have := (hm a).2 (by simp [ha])
        rcases List.mem_cons.mp this with h | h
        · subst h; have := h₂.1 a ha; rw [ltc_irrefl] at this; cases this
        · exact h

theorem StrictSorted.filter {l : List (List Char)} (h : StrictSorted l) (f : List Char → Bool) :
    StrictSorted (l.filter f) := by
  unfold StrictSorted at *; exact h.filter f

theorem sortDedup_of_strictSorted {l : List (List Char)} (h : StrictSorted l) : sortDedup l = l :=
  strictSorted_ext (strictSorted_sortDedup l) h (fun _ => mem_sortDedup)

end PycfModel.Text
