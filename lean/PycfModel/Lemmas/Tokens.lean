import PycfModel.Model.Resolver
/-! Helper lemmas about the `Fn::Sub` scanner. -/
namespace PycfModel.Resolver
open PycfModel.Text

theorem takeWhile_append_of_stop {p : Char → Bool} (xs : List Char) (c : Char) (rest : List Char)
    (hx : ∀ x ∈ xs, p x = true) (hc : p c = false) :
    (xs ++ c :: rest).takeWhile p = xs ∧ (xs ++ c :: rest).dropWhile p = c :: rest := by
  induction xs with
  | nil => simp [hc]
  | cons x xs ih =>
    have hx' : p x = true := hx x (by simp)
    have := ih (fun y hy => hx y (by simp [hy]))
    simp [hx', this.1, this.2]

/-- the tokens partition the text: concatenating their sources gives the text back -/
theorem tokensAux_src (fuel : Nat) (s : List Char) : (tokensAux fuel s).flatMap Tok.src = s := by
  induction fuel generalizing s with
  | zero =>
    simp only [tokensAux]
    induction s with
    | nil => rfl
    | cons c s ih => simp [List.flatMap_cons, Tok.src, ih]
  | succ fuel ih =>
    cases s with
    | nil => simp [tokensAux]
    | cons c rest =>
      unfold tokensAux
      split
      · -- "${!"
        rename_i more
        dsimp only
        split
        · rename_i x xs tail hb ha
          have e := List.takeWhile_append_dropWhile (p := isEscChar) (l := more)
          rw [hb, ha] at e
          simp only [List.flatMap_cons, Tok.src, ih, hb]
          rw [← e]; simp
        · simp [List.flatMap_cons, Tok.src, ih]
      · rename_i more _
        dsimp only
        split
        · rename_i x xs tail hb ha
          have e := List.takeWhile_append_dropWhile (p := isVarChar) (l := more)
          rw [hb, ha] at e
          simp only [List.flatMap_cons, Tok.src, ih, hb]
          rw [← e]; simp
        · simp [List.flatMap_cons, Tok.src, ih]
      · simp [List.flatMap_cons, Tok.src, ih]

theorem tokens_src (s : List Char) : (tokens s).flatMap Tok.src = s := tokensAux_src _ s

end PycfModel.Resolver

namespace PycfModel.Resolver
open PycfModel.Text

theorem tokensAux_nil (f : Nat) : tokensAux f [] = [] := by
  cases f <;> simp [tokensAux]

theorem tokensAux_esc_eq (f : Nat) (more : List Char) : tokensAux (f+1) ('$' :: '{' :: '!' :: more) =
   (match more.takeWhile isEscChar, more.dropWhile isEscChar with
    | _ :: _, '}' :: tail => Tok.esc (more.takeWhile isEscChar) :: tokensAux f tail
    | _, _ => Tok.lit '$' :: tokensAux f ('{' :: '!' :: more)) := by
  rfl

theorem tokensAux_var_eq (f : Nat) (x : Char) (more : List Char) (hx : x ≠ '!') :
   tokensAux (f+1) ('$' :: '{' :: x :: more) =
   (match (x :: more).takeWhile isVarChar, (x :: more).dropWhile isVarChar with
    | _ :: _, '}' :: tail => Tok.var ((x :: more).takeWhile isVarChar) :: tokensAux f tail
    | _, _ => Tok.lit '$' :: tokensAux f ('{' :: x :: more)) := by
  simp only [tokensAux]
  split
  · rename_i h; simp at h; exact absurd h.1 hx
  · rename_i h1 h2 h3; simp at h3; subst h3; rfl
  · rename_i h; exact absurd rfl (h _ rfl)

theorem tokensAux_lit_eq (f : Nat) (c : Char) (rest : List Char) (hc : c ≠ '$') :
   tokensAux (f+1) (c :: rest) = Tok.lit c :: tokensAux f rest := by
  simp only [tokensAux]
  split
  · exact absurd rfl hc
  · exact absurd rfl hc
  · rfl

theorem length_of_dropWhile_eq {p : Char → Bool} {l tail : List Char} {c : Char}
    (h : l.dropWhile p = c :: tail) : tail.length < l.length := by
  induction l with
  | nil => simp at h
  | cons x xs ih =>
    simp only [List.dropWhile] at h
    split at h
    · have := ih h; simp; omega
    · cases h; simp

/-- with enough fuel the scanner's result does not depend on the fuel -/
theorem tokensAux_fuel (f g : Nat) (s : List Char) (hf : s.length ≤ f) (hg : s.length ≤ g) :
    tokensAux f s = tokensAux g s := by
  induction f generalizing g s with
  | zero =>
    have : s = [] := List.eq_nil_of_length_eq_zero (by omega)
    subst this; simp [tokensAux_nil]
  | succ f ih =>
    cases s with
    | nil => simp [tokensAux_nil]
    | cons c rest =>
      cases g with
      | zero => simp at hg
      | succ g =>
        simp only [List.length_cons] at hf hg
        have hrest := ih g rest (by omega) (by omega)
        unfold tokensAux
        split
        · rename_i more
          dsimp only
          split
          · rename_i x xs tail hb ha
            have hl := length_of_dropWhile_eq ha
            simp only [List.length_cons] at hf hg
            rw [ih g tail (by omega) (by omega)]
          · rw [hrest]
        · rename_i more _
          dsimp only
          split
          · rename_i x xs tail hb ha
            have hl := length_of_dropWhile_eq ha
            simp only [List.length_cons] at hf hg
            rw [ih g tail (by omega) (by omega)]
          · rw [hrest]
        · rw [hrest]

theorem tokens_cons_fuel (c : Char) (rest : List Char) :
    tokens (c :: rest) = tokensAux (rest.length + 1) (c :: rest) := rfl

theorem tokensAux_tail (n : Nat) (tail : List Char) (h : tail.length ≤ n) :
    tokensAux n tail = tokens tail :=
  tokensAux_fuel _ _ tail h (Nat.le_refl _)

/-- a character other than `$` is a literal token -/
theorem tokens_lit (c : Char) (rest : List Char) (hc : c ≠ '$') :
    tokens (c :: rest) = .lit c :: tokens rest := by
  rw [tokens_cons_fuel, tokensAux_lit_eq _ _ _ hc]; rfl

/-- `${name}` with a non-empty name of `[\w:]` characters is one variable token -/
theorem tokens_var (n rest : List Char) (hn : n ≠ []) (hv : ∀ c ∈ n, isVarChar c = true) :
    tokens ('$' :: '{' :: (n ++ '}' :: rest)) = .var n :: tokens rest := by
  rw [tokens_cons_fuel]
  have hsplit := takeWhile_append_of_stop (p := isVarChar) n '}' rest hv (by decide)
  cases n with
  | nil => exact absurd rfl hn
  | cons x xs =>
    have hx : x ≠ '!' := by
      intro e; have := hv x (by simp); rw [e] at this; revert this; decide
    simp only [List.length_cons, List.cons_append]
    rw [tokensAux_var_eq _ _ _ hx]
    simp only [List.cons_append] at hsplit
    rw [hsplit.1, hsplit.2]
    simp only [List.cons.injEq, true_and]
    apply tokensAux_tail
    simp; omega

/-- `${!body}` with a non-empty body free of `$`, `{`, `}` is one escape token -/
theorem tokens_esc (b rest : List Char) (hb : b ≠ []) (he : ∀ c ∈ b, isEscChar c = true) :
    tokens ('$' :: '{' :: '!' :: (b ++ '}' :: rest)) = .esc b :: tokens rest := by
  rw [tokens_cons_fuel]
  have hsplit := takeWhile_append_of_stop (p := isEscChar) b '}' rest he (by decide)
  cases b with
  | nil => exact absurd rfl hb
  | cons x xs =>
    simp only [List.length_cons]
    rw [tokensAux_esc_eq]
    rw [hsplit.1, hsplit.2]
    simp only [List.cons.injEq, true_and]
    apply tokensAux_tail
    simp; omega

/-- well-formed tokens: what a text built from plain characters and placeholders consists of -/
def Tok.WF : Tok → Prop
  | .lit c => c ≠ '$'
  | .var n => n ≠ [] ∧ ∀ c ∈ n, isVarChar c = true
  | .esc b => b ≠ [] ∧ ∀ c ∈ b, isEscChar c = true

/-- scanning the text of a well-formed token list gives exactly that token list back -/
theorem tokens_of_src (toks : List Tok) (h : ∀ t ∈ toks, t.WF) : tokens (toks.flatMap Tok.src) = toks := by
  induction toks with
  | nil => rfl
  | cons t ts ih =>
    have ht := h t (by simp)
    have ih' := ih (fun u hu => h u (by simp [hu]))
    cases t with
    | lit c =>
      simp only [List.flatMap_cons, Tok.src, List.cons_append, List.nil_append]
      rw [tokens_lit _ _ ht, ih']
    | var n =>
      simp only [List.flatMap_cons, Tok.src, List.cons_append, List.append_assoc, List.nil_append]
      rw [tokens_var _ _ ht.1 ht.2, ih']
    | esc b =>
      simp only [List.flatMap_cons, Tok.src, List.cons_append, List.append_assoc, List.nil_append]
      rw [tokens_esc _ _ ht.1 ht.2, ih']

end PycfModel.Resolver
