import PycfModel.Model.CatalogueCheck
import PycfModel.Lemmas.Order
/-! Glue: per-chunk kernel-checked facts + boundary facts ⇒ facts about the whole catalogue. -/
namespace PycfModel.Catalogue
open PycfModel.Text

def le (a b : List Char) : Prop := a = b ∨ ltc a b = true

theorem le_trans_lt {a b c : List Char} (h₁ : le a b) (h₂ : ltc b c = true) : ltc a c = true := by
  rcases h₁ with rfl | h₁
  · exact h₂
  · exact ltc_trans h₁ h₂

theorem lt_trans_le {a b c : List Char} (h₁ : ltc a b = true) (h₂ : le b c) : ltc a c = true := by
  rcases h₂ with rfl | h₂
  · exact h₁
  · exact ltc_trans h₁ h₂

theorem strictSortedB_iff (xs : List (List Char)) : strictSortedB xs = true ↔ StrictSorted xs := by
  unfold StrictSorted
  induction xs with
  | nil => simp [strictSortedB]
  | cons a rest ih =>
    cases rest with
    | nil => simp [strictSortedB]
    | cons b rest =>
      simp only [strictSortedB, Bool.and_eq_true, ih]
      constructor
      · rintro ⟨hab, hp⟩
        rw [List.pairwise_cons]
        refine ⟨?_, hp⟩
        intro c hc
        rcases List.mem_cons.mp hc with rfl | hc
        · exact hab
        · exact ltc_trans hab ((List.pairwise_cons.mp hp).1 c hc)
      · intro hp
        rw [List.pairwise_cons] at hp
        exact ⟨hp.1 b (by simp), hp.2⟩

theorem le_lastD {p : List (List Char)} (hs : StrictSorted p) : ∀ a ∈ p, le a (lastD p) := by
  unfold StrictSorted at hs
  induction p with
  | nil => intro a ha; cases ha
  | cons x xs ih =>
    intro a ha
    rw [List.pairwise_cons] at hs
    cases xs with
    | nil =>
      simp at ha; subst ha; left; simp [lastD]
    | cons y ys =>
      have hl : lastD (x :: y :: ys) = lastD (y :: ys) := by simp [lastD, List.getLastD]
      rw [hl]
      rcases List.mem_cons.mp ha with rfl | ha
      · right
        have hy : le y (lastD (y :: ys)) := ih hs.2 y (by simp)
        exact lt_trans_le (hs.1 y (by simp)) hy
      · exact ih hs.2 a ha

theorem headD_le {p : List (List Char)} (hs : StrictSorted p) : ∀ a ∈ p, le (headD p) a := by
  unfold StrictSorted at hs
  cases p with
  | nil => intro a ha; cases ha
  | cons x xs =>
    intro a ha
    rw [List.pairwise_cons] at hs
    rcases List.mem_cons.mp ha with rfl | ha
    · left; simp [headD]
    · right; simpa [headD] using hs.1 a ha

/-- consecutive pieces are separated: last of one below first of the next -/
def Linked : List (List (List Char)) → Prop
  | [] => True
  | [_] => True
  | p :: q :: rest => ltc (lastD p) (headD q) = true ∧ Linked (q :: rest)

theorem strictSorted_flatten (pieces : List (List (List Char)))
    (hs : ∀ p ∈ pieces, StrictSorted p) (hne : ∀ p ∈ pieces, p ≠ []) (hl : Linked pieces) :
    StrictSorted pieces.flatten ∧
      (∀ p rest, pieces = p :: rest → ∀ b ∈ pieces.flatten, le (headD p) b) := by
  induction pieces with
  | nil => exact ⟨by simp [StrictSorted], by intro p rest h; cases h⟩
  | cons p rest ih =>
    have hsp := hs p (by simp)
    have hrest_s : ∀ q ∈ rest, StrictSorted q := fun q hq => hs q (by simp [hq])
    have hrest_ne : ∀ q ∈ rest, q ≠ [] := fun q hq => hne q (by simp [hq])
    cases rest with
    | nil =>
      simp only [List.flatten_cons, List.flatten_nil, List.append_nil]
      refine ⟨hsp, ?_⟩
      intro p' rest' h b hb
      cases h
      exact headD_le hsp b hb
    | cons q rest' =>
      have hl' : Linked (q :: rest') := hl.2
      have ⟨ihs, ihh⟩ := ih hrest_s hrest_ne hl'
      have hcross : ∀ a ∈ p, ∀ b ∈ (q :: rest').flatten, ltc a b = true := by
        intro a ha b hb
        have h1 : le a (lastD p) := le_lastD hsp a ha
        have h2 : ltc (lastD p) (headD q) = true := hl.1
        have h3 : le (headD q) b := ihh q rest' rfl b hb
        exact lt_trans_le (le_trans_lt h1 h2) h3
      constructor
      · show StrictSorted (p ++ (q :: rest').flatten)
        unfold StrictSorted at *
        rw [List.pairwise_append]
        exact ⟨hsp, ihs, hcross⟩
      · intro p' rest'' h b hb
        cases h
        have : b ∈ p ++ (q :: rest').flatten := hb
        rcases List.mem_append.mp this with hb | hb
        · exact headD_le hsp b hb
        · have hp_ne : p ≠ [] := hne p (by simp)
          have hh : headD p ∈ p := by
            cases p with
            | nil => exact absurd rfl hp_ne
            | cons x xs => simp [headD]
          right; exact hcross _ hh b hb

theorem mem_insertPlain {a x : List Char} {l : List (List Char)} :
    a ∈ insertPlain x l ↔ a = x ∨ a ∈ l := by
  induction l with
  | nil => simp [insertPlain]
  | cons y ys ih =>
    simp only [insertPlain]
    split
    · simp
    · simp [ih]; constructor
      · rintro (h | h | h) <;> simp [h]
      · rintro (h | h | h) <;> simp [h]

theorem perm_insertPlain (x : List Char) (l : List (List Char)) : (insertPlain x l).Perm (x :: l) := by
  induction l with
  | nil => simp [insertPlain]
  | cons y ys ih =>
    simp only [insertPlain]
    split
    · exact List.Perm.refl _
    · exact (List.Perm.cons y ih).trans (List.Perm.swap x y ys)

theorem perm_isort (xs : List (List Char)) : (isort xs).Perm xs := by
  unfold isort
  induction xs with
  | nil => simp
  | cons x xs ih => exact (perm_insertPlain x _).trans (List.Perm.cons x ih)

/-- lower-cased, sorted entries of a chunk -/
def ciSorted (c : List Nat) : List (List Char) := isort ((decodeChunk c).map lower)

structure ChunkFacts (c : List Nat) : Prop where
  ne : decodeChunk c ≠ []
  form : ∀ a ∈ decodeChunk c, formOK a = true
  sorted : StrictSorted (decodeChunk c)
  ciSortedOK : StrictSorted (ciSorted c)
  ciHead : headD (ciSorted c) = lower (headD (decodeChunk c))

theorem chunkFacts_of_ok {c : List Nat} {next : Option Nat} (h : chunkOK c next = true) : ChunkFacts c := by
  unfold chunkOK at h
  simp only [Bool.and_eq_true, Bool.not_eq_true', List.all_eq_true, beq_iff_eq] at h
  obtain ⟨⟨⟨⟨⟨h1, h2⟩, h3⟩, h4⟩, h5⟩, _⟩ := h
  exact ⟨by intro e; simp [e] at h1, h2, (strictSortedB_iff _).1 h3, (strictSortedB_iff _).1 h4, h5⟩

theorem chunk_boundary {c d : List Nat} (h : chunkOK c d.head? = true) (hd : ChunkFacts d) :
    ltc (lastD (decodeChunk c)) (headD (decodeChunk d)) = true ∧
    ltc (lastD (ciSorted c)) (headD (ciSorted d)) = true := by
  unfold chunkOK at h
  simp only [Bool.and_eq_true] at h
  have hb := h.2
  cases d with
  | nil => exact absurd rfl hd.ne
  | cons n ns =>
    simp only [List.head?_cons, Bool.and_eq_true] at hb
    have e : headD (decodeChunk (n :: ns)) = decode n := by simp [decodeChunk, headD]
    rw [hd.ciHead, e]
    exact hb

theorem chain_chunkFacts {chunks : List (List Nat)} (h : ChainOK chunks) : ∀ c ∈ chunks, ChunkFacts c := by
  induction chunks with
  | nil => intro c hc; cases hc
  | cons c rest ih =>
    cases rest with
    | nil => intro c' hc'; simp at hc'; subst hc'; exact chunkFacts_of_ok h
    | cons d rest' =>
      intro c' hc'
      rcases List.mem_cons.mp hc' with rfl | hc'
      · exact chunkFacts_of_ok h.1
      · exact ih h.2 c' hc'

theorem chain_linked {chunks : List (List Nat)} (h : ChainOK chunks) :
    Linked (chunks.map decodeChunk) ∧ Linked (chunks.map ciSorted) := by
  induction chunks with
  | nil => exact ⟨trivial, trivial⟩
  | cons c rest ih =>
    cases rest with
    | nil => exact ⟨trivial, trivial⟩
    | cons d rest' =>
      have hd : ChunkFacts d := chain_chunkFacts h.2 d (by simp)
      have hb := chunk_boundary h.1 hd
      have ih' := ih h.2
      exact ⟨⟨hb.1, ih'.1⟩, ⟨hb.2, ih'.2⟩⟩

theorem ciSorted_ne {c : List Nat} (h : ChunkFacts c) : ciSorted c ≠ [] := by
  intro e
  have hp := perm_isort ((decodeChunk c).map lower)
  unfold ciSorted at e
  rw [e] at hp
  have := hp.length_eq
  simp at this
  exact h.ne (List.eq_nil_of_length_eq_zero this.symm)

/-- the facts about a whole catalogue that follow from a checked chain of chunks -/
theorem chain_facts {chunks : List (List Nat)} (h : ChainOK chunks) :
    let cat := (chunks.map decodeChunk).flatten
    StrictSorted cat ∧ (∀ a ∈ cat, formOK a = true) ∧ (cat.map lower).Nodup := by
  intro cat
  have facts := chain_chunkFacts h
  have links := chain_linked h
  have s1 : StrictSorted cat :=
    (strictSorted_flatten (chunks.map decodeChunk)
      (by intro p hp; rcases List.mem_map.mp hp with ⟨c, hc, rfl⟩; exact (facts c hc).sorted)
      (by intro p hp; rcases List.mem_map.mp hp with ⟨c, hc, rfl⟩; exact (facts c hc).ne)
      links.1).1
  have s2 : StrictSorted (chunks.map ciSorted).flatten :=
    (strictSorted_flatten (chunks.map ciSorted)
      (by intro p hp; rcases List.mem_map.mp hp with ⟨c, hc, rfl⟩; exact (facts c hc).ciSortedOK)
      (by intro p hp; rcases List.mem_map.mp hp with ⟨c, hc, rfl⟩; exact ciSorted_ne (facts c hc))
      links.2).1
  refine ⟨s1, ?_, ?_⟩
  · intro a ha
    rcases List.mem_flatten.mp ha with ⟨p, hp, hap⟩
    rcases List.mem_map.mp hp with ⟨c, hc, rfl⟩
    exact (facts c hc).form a hap
  · have hperm : (chunks.map ciSorted).flatten.Perm (cat.map lower) := by
      show List.Perm (chunks.map ciSorted).flatten ((chunks.map decodeChunk).flatten.map lower)
      clear s1 s2 links facts h
      induction chunks with
      | nil => simp
      | cons c rest ih =>
        simp only [List.map_cons, List.flatten_cons, List.map_append]
        exact List.Perm.append (perm_isort _) ih
    exact hperm.nodup_iff.mp s2.nodup

end PycfModel.Catalogue
