import PycfModel.Model.Resolver
import PycfModel.Lemmas.Lookup
set_option linter.unusedSimpArgs false
/-!
A closure principle for `Spec.resolve`: any predicate on values that holds of text, booleans and null, is
preserved by building lists and objects (with admissible keys), by taking list elements, and holds of rendered
parameter values and of mapping leaves, holds of every value `Spec.resolve` returns.
-/
namespace PycfModel.Resolver
open PycfModel PycfModel.Text

structure Closed (env : Env) (P : J → Prop) (KP : List String → Prop) : Prop where
  null : P .null
  str : ∀ s, P (.str s)
  bool : ∀ b, P (.bool b)
  leaf : ∀ k p, P (.leaf k p)
  arr : ∀ ys, (∀ y ∈ ys, P y) → P (.arr ys)
  obj : ∀ kvs, (∀ kv ∈ kvs, P kv.2) → KP (kvs.map (·.1)) → P (.obj kvs)
  elem : ∀ ys y, P (.arr ys) → y ∈ ys → P y
  param : ∀ k v, J.lookup k env.params = some v → P (renderScalars env.params v)
  mapping : ∀ sm s1 s2 top second v, J.lookup sm env.mappings = some (.obj top) →
    J.lookup s1 top = some (.obj second) → J.lookup s2 second = some v → P v
  keysSub : ∀ l₁ l₂, l₁.Sublist l₂ → KP l₂ → KP l₁

mutual
  /-- every plain (non-function) object of the expression has admissible keys -/
  def InputKeys (KP : List String → Prop) : J → Prop
    | .arr xs => InputKeysList KP xs
    | .obj kvs => InputKeysObj KP kvs
    | _ => True
  def InputKeysList (KP : List String → Prop) : List J → Prop
    | [] => True
    | x :: xs => InputKeys KP x ∧ InputKeysList KP xs
  def InputKeysObj (KP : List String → Prop) : List (String × J) → Prop
    | [] => KP []
    | [(k, v)] => (isFunction k = true ∨ KP [k]) ∧ InputKeys KP v
    | (k, v) :: r :: rs => KP (k :: (r :: rs).map (·.1)) ∧ InputKeys KP v ∧ InputKeysMembers KP (r :: rs)
  def InputKeysMembers (KP : List String → Prop) : List (String × J) → Prop
    | [] => True
    | (_, v) :: rest => InputKeys KP v ∧ InputKeysMembers KP rest
end

theorem allSome_mem : ∀ (os : List (Option J)) (ys : List J), allSome os = some ys → ∀ y ∈ ys, some y ∈ os
  | [], ys, h, y, hy => by simp [allSome] at h; subst h; cases hy
  | none :: _, ys, h, _, _ => by simp [allSome] at h
  | some x :: rest, ys, h, y, hy => by
    simp only [allSome, Option.map_eq_some_iff] at h
    obtain ⟨ys', h', rfl⟩ := h
    rcases List.mem_cons.mp hy with e | hy'
    · subst e; simp
    · exact List.mem_cons_of_mem _ (allSome_mem rest ys' h' y hy')

theorem P_of_mem_pruneList {P : J → Prop} {ys : List J} (h : ∀ y ∈ ys, P y) : ∀ y ∈ pruneList ys, P y :=
  fun y hy => h y (List.mem_filter.mp hy).1

theorem strOf_some {j : J} {s : String} (h : strOf j = some s) : j = .str s := by
  cases j <;> simp [strOf] at h; subst h; rfl

theorem subText_str {p l : List (String × J)} {t : String} {v : J} (h : subText p l t = some v) : ∃ s, v = .str s := by
  unfold subText at h
  cases hr : renderToks (subLookup p l) (tokens t.toList) with
  | none => simp [hr] at h
  | some out => simp [hr] at h; exact ⟨_, h.symm⟩

theorem resolveStr_isStr (p : List (String × J)) (s : String) : ∃ t, resolveStr p s = .str t := by
  unfold resolveStr
  cases ssmKey s.toList with
  | some key =>
    simp only [resolveSsm]
    cases J.lookup (String.ofList key) p with
    | none => exact ⟨_, rfl⟩
    | some v =>
      cases v with
      | str w => simp only; split <;> exact ⟨_, rfl⟩
      | _ => exact ⟨_, rfl⟩
  | none => simp only; split <;> exact ⟨_, rfl⟩

/-- the function-application step preserves a closed predicate -/
theorem applyFn_closed {env : Env} {P : J → Prop} {KP : List String → Prop} (hc : Closed env P KP)
    (fn : String) (raw : J) (whole : Option J) (each : List (Option J))
    (hw : ∀ w, whole = some w → P w) (he : ∀ y, some y ∈ each → P y) (v : J)
    (h : applyFn env fn raw whole each = some v) : P v := by
  unfold applyFn at h
  split at h
  · -- ref
    cases hwv : whole with
    | none => simp [hwv] at h
    | some w =>
      simp only [hwv, Option.bind_eq_bind, Option.bind_some] at h
      cases hs : strOf w with
      | none => simp [hs] at h
      | some name =>
        simp only [hs, Option.bind_some] at h
        cases hl : J.lookup name env.params with
        | none => simp [hl] at h; subst h; exact hc.str _
        | some pv => simp [hl] at h; subst h; exact hc.param _ _ hl
  · -- join
    split at h
    · rename_i rd rl
      cases rd with
      | none => simp at h
      | some d =>
        cases rl with
        | none => simp at h
        | some l =>
          simp only [Option.bind_eq_bind, Option.bind_some] at h
          split at h
          · rename_i sep items
            cases hss : pyStrsOf items with
            | none => simp [hss] at h
            | some ss => simp [hss] at h; subst h; exact hc.str _
          · cases h
    · cases h
  · -- find_in_map
    split at h
    · rename_i rm r1 r2
      cases rm <;> cases r1 <;> cases r2 <;> simp at h
      split at h
      · rename_i sm s1 s2
        split at h
        · rename_i top htop
          split at h
          · rename_i second hsec
            split at h
            · simp at h; subst h; exact hc.str _
            · rename_i v' hnn hv'
              simp at h; subst h
              exact hc.mapping _ _ _ _ _ _ htop hsec hv'
            · simp at h; subst h; exact hc.str _
          · cases h
          · simp at h; subst h; exact hc.str _
        · cases h
        · simp at h; subst h; exact hc.str _
      · cases h
    · cases h
  · -- sub
    split at h
    · obtain ⟨s, rfl⟩ := subText_str h; exact hc.str _
    · rename_i rl
      cases rl <;> simp at h
      split at h
      · obtain ⟨s, rfl⟩ := subText_str h; exact hc.str _
      · cases h
    · cases h
  · -- select
    split at h
    · rename_i ri rl
      cases hri : ri <;> cases hrl : rl <;> simp [hri, hrl] at h
      rename_i i l
      split at h
      · rename_i si items
        split at h
        · rename_i n _
          simp at h; subst h
          have hl : P (.arr items) := he _ (by simp [hrl])
          cases hg : items[n]? with
          | none => simp; exact hc.arr [] (by intro y hy; cases hy)
          | some y => simp; exact hc.elem items y hl (List.mem_of_getElem? hg)
        · cases h
      · cases h
    · cases h
  · -- split
    split at h
    · rename_i rd rs
      cases rd <;> cases rs <;> simp at h
      split at h
      · split at h
        · cases h
        · simp at h; subst h
          apply hc.arr
          intro y hy
          simp only [List.mem_map] at hy
          obtain ⟨p, _, rfl⟩ := hy
          exact hc.str _
      · cases h
    · cases h
  · -- base64
    cases hwv : whole with
    | none => simp [hwv] at h
    | some w =>
      simp only [hwv, Option.bind_eq_bind, Option.bind_some] at h
      cases hs : strOf w with
      | none => simp [hs] at h
      | some s => simp [hs] at h; subst h; exact hc.str _
  · -- if
    split at h
    · rename_i c x1 x2 x3 ra rb
      split at h
      · exact he v (by rw [← h]; simp)
      · exact he v (by rw [← h]; simp)
    · cases h
  · -- condition
    split at h
    · simp at h; subst h; exact hc.bool _
    · cases h
  · -- and
    split at h
    · cases ha : allSome each with
      | none => simp [ha] at h
      | some rs =>
        simp only [ha, Option.bind_eq_bind, Option.bind_some] at h
        cases hb : rs.mapM extendedBool with
        | none => simp [hb] at h
        | some bs => simp [hb] at h; subst h; exact hc.bool _
    · cases h
  · -- or
    split at h
    · cases ha : allSome each with
      | none => simp [ha] at h
      | some rs =>
        simp only [ha, Option.bind_eq_bind, Option.bind_some] at h
        cases hb : rs.mapM extendedBool with
        | none => simp [hb] at h
        | some bs => simp [hb] at h; subst h; exact hc.bool _
    · cases h
  · -- not
    split at h
    · rename_i rp _
      cases rp <;> simp at h
      rename_i p
      cases hb : extendedBool p with
      | none => simp [hb] at h
      | some b => simp [hb] at h; subst h; exact hc.bool _
    · cases h
  · -- equals
    split at h
    · rename_i ra rb
      cases ra <;> cases rb <;> simp at h
      subst h; exact hc.bool _
    · cases h
  · simp at h; subst h; exact hc.str _
  · simp at h; subst h; exact hc.str _
  · cases h

mutual
  theorem resolve_closed {env : Env} {P : J → Prop} {KP : List String → Prop} (hc : Closed env P KP) :
      (e : J) → InputKeys KP e → ∀ v, Spec.resolve env e = some v → P v
    | .null, _, v, h => by simp [Spec.resolve] at h; subst h; exact hc.null
    | .str s, _, v, h => by
      simp only [Spec.resolve, Option.some.injEq] at h; subst h
      obtain ⟨t, ht⟩ := resolveStr_isStr env.params s
      rw [ht]; exact hc.str _
    | .bool b, _, v, h => by simp [Spec.resolve] at h; subst h; exact hc.str _
    | .int i, _, v, h => by simp [Spec.resolve] at h; subst h; exact hc.str _
    | .num r, _, v, h => by simp [Spec.resolve] at h; subst h; exact hc.str _
    | .leaf k p, _, v, h => by
      simp only [Spec.resolve, Option.some.injEq] at h; subst h
      split
      · exact hc.leaf _ _
      · exact hc.str _
    | .arr xs, hk, v, h => by
      simp only [Spec.resolve, Option.map_eq_some_iff] at h
      obtain ⟨ys, hys, rfl⟩ := h
      apply hc.arr
      apply P_of_mem_pruneList
      intro y hy
      exact resolveEach_closed hc xs (by simpa [InputKeys] using hk) y (allSome_mem _ _ hys y hy)
    | .obj kvs, hk, v, h => by
      simp only [Spec.resolve] at h
      exact resolveObj_closed hc kvs (by simpa [InputKeys] using hk) v h
  theorem resolveEach_closed {env : Env} {P : J → Prop} {KP : List String → Prop} (hc : Closed env P KP) :
      (xs : List J) → InputKeysList KP xs → ∀ y, some y ∈ Spec.resolveEach env xs → P y
    | [], _, y, h => by simp [Spec.resolveEach] at h
    | x :: xs, hk, y, h => by
      simp only [Spec.resolveEach, List.mem_cons] at h
      have hk' : InputKeys KP x ∧ InputKeysList KP xs := by simpa [InputKeysList] using hk
      rcases h with h | h
      · exact resolve_closed hc x hk'.1 y h.symm
      · exact resolveEach_closed hc xs hk'.2 y h
  theorem resolveObj_closed {env : Env} {P : J → Prop} {KP : List String → Prop} (hc : Closed env P KP) :
      (kvs : List (String × J)) → InputKeysObj KP kvs → ∀ v, Spec.resolveObj env kvs = some v → P v
    | [], hk, v, h => by
      simp [Spec.resolveObj] at h; subst h
      exact hc.obj [] (by intro kv hkv; cases hkv) (by simpa [InputKeysObj] using hk)
    | [(k, x)], hk, v, h => by
      have hk' : (isFunction k = true ∨ KP [k]) ∧ InputKeys KP x := by simpa [InputKeysObj] using hk
      by_cases hf : isFunction k = true
      · cases x with
        | arr args =>
          simp only [Spec.resolveObj, hf, if_true] at h
          have hargs : InputKeysList KP args := by simpa [InputKeys] using hk'.2
          have heach := resolveEach_closed hc args hargs
          refine applyFn_closed hc k _ _ _ ?_ heach v h
          intro w hw
          simp only [Option.map_eq_some_iff] at hw
          obtain ⟨ys, hys, rfl⟩ := hw
          apply hc.arr
          apply P_of_mem_pruneList
          intro y hy
          exact heach y (allSome_mem _ _ hys y hy)
        | null => simp only [Spec.resolveObj, hf, if_true] at h; exact applyFn_closed hc k _ _ _ (fun w hw => resolve_closed hc _ hk'.2 w hw) (by intro y hy; cases hy) v h
        | bool b => simp only [Spec.resolveObj, hf, if_true] at h; exact applyFn_closed hc k _ _ _ (fun w hw => resolve_closed hc _ hk'.2 w hw) (by intro y hy; cases hy) v h
        | int i => simp only [Spec.resolveObj, hf, if_true] at h; exact applyFn_closed hc k _ _ _ (fun w hw => resolve_closed hc _ hk'.2 w hw) (by intro y hy; cases hy) v h
        | num r => simp only [Spec.resolveObj, hf, if_true] at h; exact applyFn_closed hc k _ _ _ (fun w hw => resolve_closed hc _ hk'.2 w hw) (by intro y hy; cases hy) v h
        | str s => simp only [Spec.resolveObj, hf, if_true] at h; exact applyFn_closed hc k _ _ _ (fun w hw => resolve_closed hc _ hk'.2 w hw) (by intro y hy; cases hy) v h
        | leaf a b => simp only [Spec.resolveObj, hf, if_true] at h; exact applyFn_closed hc k _ _ _ (fun w hw => resolve_closed hc _ hk'.2 w hw) (by intro y hy; cases hy) v h
        | obj o => simp only [Spec.resolveObj, hf, if_true] at h; exact applyFn_closed hc k _ _ _ (fun w hw => resolve_closed hc _ hk'.2 w hw) (by intro y hy; cases hy) v h
      · have hkp : KP [k] := by
          rcases hk'.1 with h1 | h1
          · exact absurd h1 hf
          · exact h1
        have hres : Spec.resolveObj env [(k, x)] = (Spec.resolve env x).map fun y => .obj (pruneMembers [(k, y)]) := by
          cases x <;> simp [Spec.resolveObj, hf]
        rw [hres, Option.map_eq_some_iff] at h
        obtain ⟨y, hy, rfl⟩ := h
        have hpy := resolve_closed hc x hk'.2 y hy
        apply hc.obj
        · intro kv hkv
          have := (List.mem_filter.mp hkv).1
          simp at this; subst this; exact hpy
        · refine hc.keysSub _ [k] ?_ hkp
          have : (pruneMembers [(k, y)]).Sublist [(k, y)] := List.filter_sublist
          simpa using this.map (·.1)
    | (k, x) :: r :: rs, hk, v, h => by
      have hk' : KP (k :: (r :: rs).map (·.1)) ∧ InputKeys KP x ∧ InputKeysMembers KP (r :: rs) := by
        simpa [InputKeysObj] using hk
      simp only [Spec.resolveObj] at h
      cases hx : Spec.resolve env x with
      | none => simp [hx] at h
      | some y =>
        cases hm : Spec.resolveMembers env (r :: rs) with
        | none => simp [hx, hm] at h
        | some ys =>
          simp [hx, hm] at h; subst h
          have hpy := resolve_closed hc x hk'.2.1 y hx
          have hpm := resolveMembers_closed hc (r :: rs) hk'.2.2 ys hm
          apply hc.obj
          · intro kv hkv
            have := (List.mem_filter.mp hkv).1
            rcases List.mem_cons.mp this with e | hin
            · subst e; exact hpy
            · exact hpm.1 kv hin
          · refine hc.keysSub _ (k :: (r :: rs).map (·.1)) ?_ hk'.1
            have hs : (pruneMembers ((k, y) :: ys)).Sublist ((k, y) :: ys) := List.filter_sublist
            have := hs.map (·.1)
            simpa [hpm.2] using this
  theorem resolveMembers_closed {env : Env} {P : J → Prop} {KP : List String → Prop} (hc : Closed env P KP) :
      (kvs : List (String × J)) → InputKeysMembers KP kvs → ∀ ys, Spec.resolveMembers env kvs = some ys →
        (∀ kv ∈ ys, P kv.2) ∧ ys.map (·.1) = kvs.map (·.1)
    | [], _, ys, h => by simp [Spec.resolveMembers] at h; subst h; simp
    | (k, x) :: rest, hk, ys, h => by
      have hk' : InputKeys KP x ∧ InputKeysMembers KP rest := by simpa [InputKeysMembers] using hk
      simp only [Spec.resolveMembers] at h
      cases hx : Spec.resolve env x with
      | none => simp [hx] at h
      | some y =>
        cases hm : Spec.resolveMembers env rest with
        | none => simp [hx, hm] at h
        | some ys' =>
          simp [hx, hm] at h; subst h
          have ih := resolveMembers_closed hc rest hk'.2 ys' hm
          constructor
          · intro kv hkv
            rcases List.mem_cons.mp hkv with e | hin
            · subst e; exact resolve_closed hc x hk'.1 y hx
            · exact ih.1 kv hin
          · simp [ih.2]
end

end PycfModel.Resolver
