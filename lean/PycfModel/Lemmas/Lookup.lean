import PycfModel.Basic.Json
/-! Association-list lookup: permutation invariance (unique keys), append, filter. -/
namespace PycfModel.J

theorem lookup_cons {α} (k k' : String) (v : α) (l : List (String × α)) :
    lookup k ((k', v) :: l) = if k' = k then some v else lookup k l := rfl

theorem lookup_eq_none_iff {α} (k : String) (l : List (String × α)) :
    lookup k l = none ↔ k ∉ l.map (·.1) := by
  induction l with
  | nil => simp [lookup]
  | cons kv l ih =>
    obtain ⟨k', v⟩ := kv
    rw [lookup_cons]
    by_cases h : k' = k
    · simp [h]
    · simp only [h, if_false, ih, List.map_cons, List.mem_cons, not_or]
      exact ⟨fun hh => ⟨fun e => h e.symm, hh⟩, fun hh => hh.2⟩

theorem lookup_mem {α} {k : String} {v : α} {l : List (String × α)} (h : lookup k l = some v) : (k, v) ∈ l := by
  induction l with
  | nil => simp [lookup] at h
  | cons kv l ih =>
    obtain ⟨k', v'⟩ := kv
    rw [lookup_cons] at h
    by_cases hk : k' = k
    · simp [hk] at h; subst hk; subst h; simp
    · simp [hk] at h; exact List.mem_cons_of_mem _ (ih h)

theorem lookup_isSome_iff {α} (k : String) (l : List (String × α)) :
    (lookup k l).isSome ↔ k ∈ l.map (·.1) := by
  cases h : lookup k l with
  | none =>
    have := (lookup_eq_none_iff k l).1 h
    simp only [Option.isSome_none, Bool.false_eq_true, false_iff]; exact this
  | some v =>
    simp only [Option.isSome_some, true_iff]
    exact List.mem_map.mpr ⟨(k, v), lookup_mem h, rfl⟩

theorem lookup_of_mem_nodup {α} {k : String} {v : α} {l : List (String × α)}
    (hn : (l.map (·.1)).Nodup) (h : (k, v) ∈ l) : lookup k l = some v := by
  induction l with
  | nil => cases h
  | cons kv l ih =>
    obtain ⟨k', v'⟩ := kv
    rw [List.map_cons, List.nodup_cons] at hn
    rw [lookup_cons]
    rcases List.mem_cons.mp h with e | h'
    · cases e; simp
    · have : k' ≠ k := by
        intro e; subst e
        exact hn.1 (List.mem_map.mpr ⟨(k', v), h', rfl⟩)
      simp [this, ih hn.2 h']

/-- with unique keys, lookup does not depend on the order of the members -/
theorem lookup_perm {α} {l l' : List (String × α)} (hp : l.Perm l') (hn : (l.map (·.1)).Nodup) (k : String) :
    lookup k l = lookup k l' := by
  have hn' : (l'.map (·.1)).Nodup := (hp.map _).nodup_iff.mp hn
  cases h : lookup k l with
  | some v => exact (lookup_of_mem_nodup hn' (hp.mem_iff.mp (lookup_mem h))).symm
  | none =>
    symm
    rw [lookup_eq_none_iff] at h ⊢
    intro hk; exact h ((hp.map _).mem_iff.mpr hk)

theorem lookup_append {α} (k : String) (l₁ l₂ : List (String × α)) :
    lookup k (l₁ ++ l₂) = (lookup k l₁).orElse fun _ => lookup k l₂ := by
  induction l₁ with
  | nil => simp [lookup]
  | cons kv l ih =>
    obtain ⟨k', v⟩ := kv
    simp only [List.cons_append, lookup_cons]
    by_cases h : k' = k <;> simp [h, ih]

theorem lookup_filter_key {α} (p : String → Bool) (k : String) (l : List (String × α)) :
    lookup k (l.filter fun kv => p kv.1) = if p k then lookup k l else none := by
  induction l with
  | nil => simp [lookup]
  | cons kv l ih =>
    obtain ⟨k', v⟩ := kv
    simp only [List.filter_cons]
    by_cases hp : p k'
    · simp only [hp, if_true, lookup_cons]
      by_cases h : k' = k
      · subst h; simp [hp]
      · simp [h, ih]
    · simp only [hp, Bool.false_eq_true, if_false, ih, lookup_cons]
      by_cases h : k' = k
      · subst h; simp [hp]
      · simp [h]

end PycfModel.J
