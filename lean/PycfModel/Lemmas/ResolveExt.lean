import PycfModel.Model.Resolver
/-! `Spec.resolve` reads its environment only through lookups by name. -/
namespace PycfModel.Resolver
open PycfModel PycfModel.Text

/-- two environments that answer every lookup alike -/
structure EnvEquiv (e e' : Env) : Prop where
  params : ∀ k, J.lookup k e.params = J.lookup k e'.params
  mappings : ∀ k, J.lookup k e.mappings = J.lookup k e'.mappings
  conds : ∀ k, J.lookup k e.conds = J.lookup k e'.conds

theorem resolveSsm_ext {p p' : List (String × J)} (h : ∀ k, J.lookup k p = J.lookup k p') (key : List Char) :
    resolveSsm p key = resolveSsm p' key := by
  simp only [resolveSsm, h]

theorem resolveStr_ext {p p' : List (String × J)} (h : ∀ k, J.lookup k p = J.lookup k p') (s : String) :
    resolveStr p s = resolveStr p' s := by
  unfold resolveStr
  cases ssmKey s.toList with
  | none => rfl
  | some key => simp only [resolveSsm_ext h]

mutual
  theorem renderScalars_ext {p p' : List (String × J)} (h : ∀ k, J.lookup k p = J.lookup k p') :
      (v : J) → renderScalars p v = renderScalars p' v
    | .bool _ => rfl
    | .int _ => rfl
    | .num _ => rfl
    | .null => rfl
    | .leaf _ _ => rfl
    | .obj _ => rfl
    | .str s => by simp only [renderScalars, resolveStr_ext h]
    | .arr xs => by simp only [renderScalars, renderList_ext h xs]
  theorem renderList_ext {p p' : List (String × J)} (h : ∀ k, J.lookup k p = J.lookup k p') :
      (xs : List J) → renderScalars.renderList p xs = renderScalars.renderList p' xs
    | [] => rfl
    | x :: xs => by simp only [renderScalars.renderList, renderScalars_ext h x, renderList_ext h xs]
end

theorem subLookup_ext {p p' : List (String × J)} (h : ∀ k, J.lookup k p = J.lookup k p')
    (loc : List (String × J)) (n : List Char) : subLookup p loc n = subLookup p' loc n := by
  unfold subLookup
  simp only [h, resolveStr_ext h]

theorem subText_ext {p p' : List (String × J)} (h : ∀ k, J.lookup k p = J.lookup k p')
    (loc : List (String × J)) (text : String) : subText p loc text = subText p' loc text := by
  unfold subText
  have : subLookup p loc = subLookup p' loc := funext (subLookup_ext h loc)
  rw [this]

theorem condOf_ext {e e' : Env} (h : EnvEquiv e e') (c : String) : condOf e c = condOf e' c := by
  simp only [condOf, h.conds]

theorem applyFn_ext {e e' : Env} (h : EnvEquiv e e') (fn : String) (raw : J) (whole : Option J)
    (each : List (Option J)) : applyFn e fn raw whole each = applyFn e' fn raw whole each := by
  unfold applyFn
  have hs : subText e.params = subText e'.params := funext fun loc => funext fun t => subText_ext h.params loc t
  have hr : renderScalars e.params = renderScalars e'.params := funext (renderScalars_ext h.params)
  simp only [h.params, h.mappings, condOf_ext h, hs, hr]

mutual
  theorem resolve_ext {e e' : Env} (h : EnvEquiv e e') : (j : J) → Spec.resolve e j = Spec.resolve e' j
    | .null => by simp [Spec.resolve]
    | .str s => by simp [Spec.resolve, resolveStr_ext h.params]
    | .bool _ => by simp [Spec.resolve]
    | .int _ => by simp [Spec.resolve]
    | .num _ => by simp [Spec.resolve]
    | .leaf _ _ => by simp [Spec.resolve]
    | .arr xs => by simp only [Spec.resolve, resolveEach_ext h xs]
    | .obj kvs => by simp only [Spec.resolve, resolveObj_ext h kvs]
  theorem resolveEach_ext {e e' : Env} (h : EnvEquiv e e') :
      (xs : List J) → Spec.resolveEach e xs = Spec.resolveEach e' xs
    | [] => by simp [Spec.resolveEach]
    | x :: xs => by simp only [Spec.resolveEach, resolve_ext h x, resolveEach_ext h xs]
  theorem resolveObj_ext {e e' : Env} (h : EnvEquiv e e') :
      (kvs : List (String × J)) → Spec.resolveObj e kvs = Spec.resolveObj e' kvs
    | [] => by simp [Spec.resolveObj]
    | [(k, v)] => by
      cases v with
      | arr args => simp only [Spec.resolveObj, resolveEach_ext h args, applyFn_ext h, resolve_ext h (.arr args)]
      | null => simp only [Spec.resolveObj, applyFn_ext h, resolve_ext h .null]
      | bool b => simp only [Spec.resolveObj, applyFn_ext h, resolve_ext h (.bool b)]
      | int i => simp only [Spec.resolveObj, applyFn_ext h, resolve_ext h (.int i)]
      | num r => simp only [Spec.resolveObj, applyFn_ext h, resolve_ext h (.num r)]
      | str s => simp only [Spec.resolveObj, applyFn_ext h, resolve_ext h (.str s)]
      | leaf a b => simp only [Spec.resolveObj, applyFn_ext h, resolve_ext h (.leaf a b)]
      | obj kvs' => simp only [Spec.resolveObj, applyFn_ext h, resolve_ext h (.obj kvs')]
    | (k, v) :: r :: rs => by
      simp only [Spec.resolveObj, resolve_ext h v, resolveMembers_ext h (r :: rs)]
  theorem resolveMembers_ext {e e' : Env} (h : EnvEquiv e e') :
      (kvs : List (String × J)) → Spec.resolveMembers e kvs = Spec.resolveMembers e' kvs
    | [] => by simp [Spec.resolveMembers]
    | (k, x) :: rest => by
      simp only [Spec.resolveMembers, resolve_ext h x, resolveMembers_ext h rest]
end

end PycfModel.Resolver
