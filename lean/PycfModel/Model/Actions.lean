import PycfModel.Basic.Text
import PycfModel.Model.Glob
/-
Action expansion over a catalogue (C09).  `expand` / `expandNot` are the specification (S);
the remaining definitions transliterate the algorithms as written in
action_expander.py, statement.py and policy_document.py (I).  Core-only.
-/
namespace PycfModel.Actions
open PycfModel.Text PycfModel.Glob

abbrev Str := List Char

/-- a pattern compiled once: lower-cased and tokenised -/
def compile (p : Str) : List Tok := tok (p.map lowerChar)

/-- match of pre-compiled patterns against one action (lower-cased once) -/
def matchesAnyC (cps : List (List Tok)) (a : Str) : Bool :=
  let la := a.map lowerChar
  cps.any (fun cp => gmatch cp la)

def matchesAny (ps : List Str) (a : Str) : Bool := matchesAnyC (ps.map compile) a

theorem matchesAny_eq (ps : List Str) (a : Str) : matchesAny ps a = ps.any (fun p => gmatchCI p a) := by
  simp [matchesAny, matchesAnyC, compile, gmatchCI, gmatchFold, List.any_map, Function.comp_def]

/-- S: the catalogue actions matched by at least one pattern, sorted, duplicate-free -/
def expand (cat : List Str) (ps : List Str) : List Str :=
  let cps := ps.map compile
  sortDedup (cat.filter (matchesAnyC cps))

/-- S: the catalogue actions matched by no pattern -/
def expandNot (cat : List Str) (ps : List Str) : List Str :=
  let cps := ps.map compile
  sortDedup (cat.filter (fun a => !matchesAnyC cps a))

/-- an Action / NotAction element: one pattern or a list of patterns -/
inductive ActionVal where
  | one (p : Str)
  | many (ps : List Str)
  deriving Repr

def ActionVal.toList : ActionVal → List Str
  | .one p => [p]
  | .many ps => ps

/-- I: `action_expander._expand_action` (a set comprehension over the catalogue, complemented for
    `not_action`, then `sorted`) -/
def expandAction (cat : List Str) (p : Str) (notAction : Bool) : List Str :=
  let matched := cat.filter (gmatchCI p)
  if notAction then sortDedup (cat.filter (fun a => !matched.contains a))
  else sortDedup matched

/-- I: `action_expander._expand_actions` (union of the positive expansions, then complement) -/
def expandActions (cat : List Str) (v : ActionVal) (notAction : Bool) : List Str :=
  match v with
  | .one p => expandAction cat p notAction
  | .many ps =>
    let expanded := ps.foldl (fun acc p => acc ++ expandAction cat p false) []
    if notAction then sortDedup (cat.filter (fun a => !expanded.contains a))
    else sortDedup expanded

def optToList : Option ActionVal → List Str
  | none => []
  | some v => v.toList

/-- I: `Statement.get_expanded_action_list` -/
def stmtExpanded (cat : List Str) (action notAction : Option ActionVal) : List Str :=
  let acc := (optToList action).foldl (fun acc p => acc ++ expandAction cat p false) []
  let acc :=
    match notAction with
    | none => acc
    | some v => acc ++ expandActions cat (.many v.toList) true
  sortDedup acc

structure Stmt where
  allow : Bool
  action : Option ActionVal
  notAction : Option ActionVal

/-- I: `PolicyDocument.get_allowed_actions` -/
def allowedActions (cat : List Str) (stmts : List Stmt) : List Str :=
  sortDedup (stmts.foldl (fun acc s => if s.allow then acc ++ stmtExpanded cat s.action s.notAction else acc) [])

def iamPrefix : Str := ['i', 'a', 'm', ':']

/-- I: `PolicyDocument.get_iam_actions()` (difference = False): every statement counts, whatever its effect -/
def iamActions (cat : List Str) (stmts : List Stmt) : List Str :=
  sortDedup (stmts.foldl
    (fun acc s => acc ++ (stmtExpanded cat s.action s.notAction).filter (isPrefix iamPrefix)) [])

end PycfModel.Actions

namespace PycfModel.Actions
open PycfModel.Text PycfModel.Glob

/-! Closed forms (one linear pass over the catalogue), proved equal to the algorithms in Props/C09. -/

structure CStmt where
  allow : Bool
  action : List (List Tok)
  notAction : Option (List (List Tok))

def compileStmt (allow : Bool) (action notAction : Option ActionVal) : CStmt :=
  ⟨allow, (optToList action).map compile, notAction.map fun v => v.toList.map compile⟩

def cstmtPred (s : CStmt) (a : Str) : Bool :=
  matchesAnyC s.action a ||
    (match s.notAction with
     | none => false
     | some cps => !matchesAnyC cps a)

def stmtPred (action notAction : Option ActionVal) (a : Str) : Bool :=
  cstmtPred (compileStmt true action notAction) a

def stmtSpec (cat : List Str) (action notAction : Option ActionVal) : List Str :=
  let cs := compileStmt true action notAction
  sortDedup (cat.filter (cstmtPred cs))

def allowedSpec (cat : List Str) (stmts : List Stmt) : List Str :=
  let cs := stmts.map fun s => compileStmt s.allow s.action s.notAction
  sortDedup (cat.filter fun a => cs.any fun s => s.allow && cstmtPred s a)

def iamSpec (cat : List Str) (stmts : List Stmt) : List Str :=
  let cs := stmts.map fun s => compileStmt s.allow s.action s.notAction
  sortDedup (cat.filter fun a => isPrefix iamPrefix a && cs.any fun s => cstmtPred s a)

end PycfModel.Actions
