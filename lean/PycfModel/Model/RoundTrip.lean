import PycfModel.Model.Cast
/-
Serialise / validate round trip (C15): `dump` of a cast generic value (what `model_dump()` returns for it), the
one-level unfolding `strStep` of the string cast, and the leaf validators with their dumps
(semi-strict bool, base64 binary, condition-operator names). Core-only.
-/
namespace PycfModel.Cast
open PycfModel PycfModel.Text

mutual
  /-- `model_dump()` of a cast value in python mode: typed leaves stay objects, generic objects become dicts,
      property models and function objects dump to the object they validated from (their own round trip is
      pydantic-core's, see Props/C15) -/
  def dump : CV → J
    | .null => .null
    | .bool b => .bool b
    | .int i => .int i
    | .num r => .num r
    | .str s => .str s
    | .typed k p => .leaf k p
    | .list xs => .arr (dumpList xs)
    | .generic fs => .obj (dumpMembers fs)
    | .model _ raw => raw
    | .fn raw => raw
  def dumpList : List CV → List J
    | [] => []
    | x :: xs => dump x :: dumpList xs
  def dumpMembers : List (String × CV) → List (String × J)
    | [] => []
    | (k, v) :: rest => (k, dump v) :: dumpMembers rest
end

mutual
  def CV.sz : CV → Nat
    | .list xs => 1 + szList xs
    | .generic fs => 1 + szMembers fs
    | _ => 1
  def szList : List CV → Nat
    | [] => 0
    | x :: xs => x.sz + szList xs
  def szMembers : List (String × CV) → Nat
    | [] => 0
    | (_, v) :: rest => v.sz + szMembers rest
end

/-- one level of the string cast over an arbitrary cast `g` of the strings nested inside JSON text -/
def strStep (E : Engine) (g : String → CV) (s : String) : CV :=
  match E.jsonLoads s with
  | none => scalarUnion E s
  | some d => fromDecoded E (some g) s d

/-! ### Leaf validators and their dumps -/

/-- `SemiStrictBool`: a bool, or the text true/false in any case -/
def semiBool : J → Option Bool
  | .bool b => some b
  | .str s =>
    let l := lower s.toList
    if l = "true".toList then some true else if l = "false".toList then some false else none
  | _ => none

/-- `StatementCondition.remove_colon` on one operator name -/
def removeColon (s : List Char) : List Char := s.filter (· != ':')

/-! #### base64 (`validate_binary`): `b64decode(value)` with `validate=False` discards characters outside the
alphabet, then needs complete, correctly padded quanta -/

def b64Value (c : Char) : Option Nat :=
  if 'A' ≤ c ∧ c ≤ 'Z' then some (c.toNat - 'A'.toNat)
  else if 'a' ≤ c ∧ c ≤ 'z' then some (c.toNat - 'a'.toNat + 26)
  else if '0' ≤ c ∧ c ≤ '9' then some (c.toNat - '0'.toNat + 52)
  else if c = '+' then some 62
  else if c = '/' then some 63
  else none

/-- bytes of one quantum of sextets (4, or 3 / 2 before padding) -/
def quantum : List Nat → List Nat
  | [a, b, c, d] => let n := ((a * 64 + b) * 64 + c) * 64 + d; [n / 65536, n / 256 % 256, n % 256]
  | [a, b, c] => let n := (a * 64 + b) * 64 + c; [n / 1024, n / 4 % 256]
  | [a, b] => let n := a * 64 + b; [n / 16]
  | _ => []

/-- decode the sextets (non-alphabet characters already discarded); `pad` = number of `=` seen at the point the
    data ended. CPython (binascii.a2b_base64, non-strict): a quantum is complete after 4 sextets; at the end a
    leftover of 2 sextets needs `==`, of 3 needs `=`, of 1 is an error, of 0 is fine whatever padding follows. -/
def decodeSextets : Nat → List Nat → Nat → Option (List Nat)
  | 0, _, _ => none
  | fuel + 1, xs, pad =>
    match xs with
    | a :: b :: c :: d :: rest => (decodeSextets fuel rest pad).map (quantum [a, b, c, d] ++ ·)
    | [a, b, c] => if pad ≥ 1 then some (quantum [a, b, c]) else none
    | [a, b] => if pad ≥ 2 then some (quantum [a, b]) else none
    | [_] => none
    | [] => some []

/-- the text form accepted by `validate_binary` for text without `=` inside the data: sextets, then padding -/
def b64decodeSimple (s : List Char) : Option (List Nat) :=
  let body := s.takeWhile (· != '=')
  let tail := s.dropWhile (· != '=')
  if tail.any (fun c => (b64Value c).isSome) then none  -- data after padding: outside this model
  else
    let sextets := body.filterMap b64Value
    decodeSextets (sextets.length + 1) sextets (tail.filter (· == '=')).length

/-- a binary condition value as validated: text is decoded; bytes (what a dumped model holds) are kept -/
inductive BinIn where
  | text (s : List Char)
  | bytes (b : List Nat)

def validateBinary : BinIn → Option (List Nat)
  | .bytes b => some b
  | .text s => b64decodeSimple s

/-- the validator before the repair of D12: bytes were decoded again, as the ASCII text they spell -/
def validateBinaryOld : BinIn → Option (List Nat)
  | .bytes b => b64decodeSimple (b.map Char.ofNat)
  | .text s => b64decodeSimple s

end PycfModel.Cast
