import PycfModel.Basic.Json
import PycfModel.Generated.Schema
/-
Resource type dispatch (C14): the discriminated union on the literal `Type`, the left-to-right fallback to
`GenericResource` guarded by its `check_type` validator, and the shallow rules `extra="forbid"` and field
requiredness impose.  Whether a definition satisfies a class *in depth* (every value of its declared type) is
pydantic-core's verdict and enters as a parameter. Core-only.
-/
namespace PycfModel.Dispatch
open PycfModel PycfModel.Generated

inductive Outcome where
  | dedicated (cls : String)
  | generic
  | rejected
  deriving Repr, DecidableEq

def typeOf (res : List (String × J)) : Option String :=
  match J.lookup "Type" res with
  | some (.str t) => some t
  | _ => none

def classFor (table : List ResourceClassRow) (t : String) : Option ResourceClassRow :=
  table.find? fun r => r.typeLit == t

/-- the verdicts of the validation engine on one resource definition -/
structure Verdicts where
  /-- the dedicated class of the definition's Type accepts it -/
  dedicatedOK : Bool
  /-- GenericResource would accept it if its `check_type` validator let the Type through -/
  genericOK : Bool

/-- `AllResourcesType = Union[ResourceModels (tagged by Type), GenericResource]`, left to right -/
def dispatch (table : List ResourceClassRow) (strict : Bool) (v : Verdicts) (res : List (String × J)) : Outcome :=
  match (typeOf res).bind (classFor table) with
  | some row =>
    if v.dedicatedOK then .dedicated row.cls
    else if strict then .rejected            -- check_type refuses a modelled Type
    else if v.genericOK then .generic
    else .rejected
  | none => if v.genericOK then .generic else .rejected

/-- a Properties object that is a single unresolved function call -/
def isFnObj (props : List (String × J)) : Bool :=
  match props with
  | [(k, _)] => k.startsWith "Fn::" || k == "Ref"
  | _ => false

def propsOK (row : ResourceClassRow) (props : List (String × J)) : Bool :=
  isFnObj props ||
    ((J.keys props).all (fun k => (row.propsFields.map (·.1)).contains k) &&
     (row.propsFields.filter (·.2)).all (fun f => (J.lookup f.1 props).isSome))

/-- what `extra="forbid"` and requiredness demand of a definition of class `row`, before any value is looked at -/
def shallowOK (row : ResourceClassRow) (res : List (String × J)) : Bool :=
  (J.keys res).all (fun k => row.fields.contains k) &&
  (match J.lookup "Properties" res with
   | some (.obj props) => propsOK row props
   | some .null => !row.propsRequired
   | none => !row.propsRequired
   | some _ => false)

/-- `CFModel.resources_filtered_by_type(allowed)`: by class (including base classes) or by Type text -/
structure Parsed where
  name : String
  classes : List String      -- the class of the parsed resource and its bases
  type : Option String

def filterByType (allowedClasses allowedTypes : List String) (rs : List Parsed) : List String :=
  (rs.filter fun r => r.classes.any (allowedClasses.contains ·) ||
      (match r.type with | some t => allowedTypes.contains t | none => false)).map (·.name)

end PycfModel.Dispatch
