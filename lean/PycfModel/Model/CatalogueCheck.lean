import PycfModel.Model.Catalogue
import PycfModel.Basic.Text
/-
Boolean checkers evaluated by the kernel (`decide +kernel`) on each chunk of the regenerated catalogue.
-/
namespace PycfModel.Catalogue
open PycfModel.Text

def strictSortedB : List (List Char) → Bool
  | [] => true
  | [_] => true
  | a :: b :: rest => ltc a b && strictSortedB (b :: rest)

/-- plain insertion (keeps duplicates) -/
def insertPlain (x : List Char) : List (List Char) → List (List Char)
  | [] => [x]
  | y :: ys => if ltc x y then x :: y :: ys else y :: insertPlain x ys

def isort (xs : List (List Char)) : List (List Char) := xs.foldr insertPlain []

def isLowerAlnumHyphen (c : Char) : Bool :=
  ('a' ≤ c && c ≤ 'z') || ('0' ≤ c && c ≤ '9') || c == '-'

def isAlnumHyphen (c : Char) : Bool :=
  ('a' ≤ c && c ≤ 'z') || ('A' ≤ c && c ≤ 'Z') || ('0' ≤ c && c ≤ '9') || c == '-'

/-- `service:Name`: non-empty lower-case service, one colon, non-empty alphanumeric name -/
def formOK (a : List Char) : Bool :=
  let svc := a.takeWhile (· != ':')
  let rest := a.dropWhile (· != ':')
  !svc.isEmpty && svc.all isLowerAlnumHyphen &&
    (match rest with
     | ':' :: name => !name.isEmpty && name.all isAlnumHyphen
     | _ => false)

def lastD (xs : List (List Char)) : List Char := xs.getLastD []
def headD (xs : List (List Char)) : List Char := xs.headD []

/-- everything the kernel checks about one chunk `c`, given the first entry of the next chunk -/
def chunkOK (c : List Nat) (next : Option Nat) : Bool :=
  let xs := decodeChunk c
  let ls := isort (xs.map lower)
  !xs.isEmpty && xs.all formOK && strictSortedB xs && strictSortedB ls &&
    headD ls == lower (headD xs) &&
    (match next with
     | none => true
     | some n => ltc (lastD xs) (decode n) && ltc (lastD ls) (lower (decode n)))

/-- the chain of per-chunk facts, each proved by `decide +kernel` in a generated module -/
def ChainOK : List (List Nat) → Prop
  | [] => True
  | [c] => chunkOK c none = true
  | c :: d :: rest => chunkOK c d.head? = true ∧ ChainOK (d :: rest)

end PycfModel.Catalogue
