import PycfModel.Model.Glob
import PycfModel.Generated.Operators
/-
IAM condition evaluation (C11, C12): transliteration of `build_evaluator`, `build_root_evaluator` /
`build_key_evaluator`, `StatementCondition.build_eval` and `__call__` (with the repairs of D18/D19),
over typed values. Core-only.
-/
namespace PycfModel.IamCond
open PycfModel

/-- the Python values a policy or a request context can hold, as far as the comparisons can tell them apart -/
inductive V where
  /-- text, together with Python's `normalize("NFKD", s.casefold())` (supplied, not computed) -/
  | str (s : String) (folded : String)
  | int (i : Int)
  | bool (b : Bool)
  /-- datetime: microseconds since the epoch (UTC for aware values, wall clock for naive ones) -/
  | dt (micros : Int) (aware : Bool)
  /-- network: IPv6?, masked network address, prefix length -/
  | net (v6 : Bool) (addr : Nat) (plen : Nat)
  | bytes (b64 : String)
  | none
  | list (xs : List V)
  /-- an unresolved intrinsic function on the policy side -/
  | fn
  /-- any other object (incomparable with everything, equal to nothing) -/
  | other (tag : String)
  deriving Repr, Inhabited

/-- outcome of evaluating a node: true, false, or an exception was raised -/
inductive R where
  | t | f | err
  deriving Repr, DecidableEq, Inhabited

def R.ofBool (b : Bool) : R := if b then .t else .f
def R.not : R → R
  | .t => .f
  | .f => .t
  | .err => .err

/-- lazy `all(p(x) for x in xs)`: stops at the first false, propagates the first exception -/
def allR {α} (p : α → R) : List α → R
  | [] => .t
  | x :: xs => match p x with
    | .t => allR p xs
    | .f => .f
    | .err => .err

/-- lazy `any(p(x) for x in xs)` -/
def anyR {α} (p : α → R) : List α → R
  | [] => .f
  | x :: xs => match p x with
    | .t => .t
    | .f => anyR p xs
    | .err => .err

abbrev Ctx := List (String × V)

def ctxLookup (k : String) : Ctx → Option V
  | [] => Option.none
  | (k', v) :: rest => if k' = k then some v else ctxLookup k rest

/-- `{**kwargs, key: item}` -/
def ctxSet (k : String) (v : V) (ctx : Ctx) : Ctx := (k, v) :: ctx

def isNone : V → Bool
  | .none => true
  | _ => false

/-- `kwargs.get(k) is not None` -/
def present (ctx : Ctx) (k : String) : Bool :=
  match ctxLookup k ctx with
  | some v => !isNone v
  | Option.none => false

def asInt : V → Option Int
  | .int i => some i
  | .bool b => some (if b then 1 else 0)
  | _ => Option.none

/-- Python `==` (never raises) -/
def pyEq : V → V → Bool
  | .str a _, .str b _ => a == b
  | .dt a x, .dt b y => x == y && a == b
  | .net v a l, .net w b m => v == w && a == b && l == m
  | .bytes a, .bytes b => a == b
  | .none, .none => true
  | a, b =>
    match asInt a, asInt b with
    | some x, some y => x == y
    | _, _ => false

def ltChars : List Char → List Char → Bool
  | [], [] => false
  | [], _ :: _ => true
  | _ :: _, [] => false
  | a :: as, b :: bs => a.toNat < b.toNat || (a.toNat == b.toNat && ltChars as bs)

/-- Python `<` (`none` = TypeError) -/
def pyLt : V → V → Option Bool
  | .str a _, .str b _ => some (ltChars a.toList b.toList)
  | .dt a x, .dt b y => if x == y then some (decide (a < b)) else Option.none
  | a, b =>
    match asInt a, asInt b with
    | some x, some y => some (decide (x < y))
    | _, _ => Option.none

def width (v6 : Bool) : Nat := if v6 then 128 else 32

/-- first and last address of a network -/
def netLo (addr _plen : Nat) : Nat := addr
def netHi (v6 : Bool) (addr plen : Nat) : Nat := addr + 2 ^ (width v6 - plen) - 1

/-- `a.subnet_of(b)`: `b.network_address <= a.network_address and b.broadcast_address >= a.broadcast_address`;
    `none` = TypeError (different versions) / AttributeError (not a network) -/
def subnetOf : V → V → Option Bool
  | .net v a l, .net w b m =>
    if v == w then some (decide (netLo b m ≤ netLo a l) && decide (netHi v a l ≤ netHi w b m)) else Option.none
  | _, _ => Option.none

def isNet : V → Bool
  | .net _ _ _ => true
  | _ => false

def ofOpt : Option Bool → R
  | some b => R.ofBool b
  | Option.none => .err

/-- `build_evaluator(function, key, policy_value)` applied to a context: the comparison of one operator -/
def evalBase (base : String) (key : String) (pv : V) (ctx : Ctx) : R :=
  -- kwargs[key]
  let getv : (V → R) → R := fun k => match ctxLookup key ctx with
    | some v => k v
    | Option.none => .err
  match base with
  | "Bool" => getv fun v => match v, pv with
    | .bool a, .bool b => R.ofBool (a == b)     -- `is` on the two singletons True / False
    | _, _ => .f
  | "IpAddress" => if !isNet pv then .f else getv fun v => ofOpt (subnetOf v pv)
  | "NotIpAddress" => if !isNet pv then .f else getv fun v => (ofOpt (subnetOf v pv)).not
  | "Null" => match pv with
    | .bool b => R.ofBool (present ctx key == b)
    | _ => .f
  | "StringEquals" | "ArnEquals" | "BinaryEquals" | "NumericEquals" | "DateEquals" =>
    getv fun v => R.ofBool (pyEq v pv)
  | "StringNotEquals" | "ArnNotEquals" | "NumericNotEquals" | "DateNotEquals" =>
    getv fun v => R.ofBool (!pyEq v pv)
  | "NumericLessThan" | "DateLessThan" => getv fun v => ofOpt (pyLt v pv)
  | "NumericLessThanEquals" | "DateLessThanEquals" =>
    getv fun v => ofOpt ((pyLt pv v).map fun gt => !gt)
  | "NumericGreaterThan" | "DateGreaterThan" => getv fun v => ofOpt (pyLt pv v)
  | "NumericGreaterThanEquals" | "DateGreaterThanEquals" =>
    getv fun v => ofOpt ((pyLt v pv).map fun lt => !lt)
  | "StringEqualsIgnoreCase" => getv fun v => match v, pv with
    | .str _ fa, .str _ fb => R.ofBool (fa == fb)
    | _, _ => .err
  | "StringNotEqualsIgnoreCase" => getv fun v => match v, pv with
    | .str _ fa, .str _ fb => R.ofBool (!(fa == fb))
    | _, _ => .err
  | "StringLike" | "ArnLike" => getv fun v => match v, pv with
    | .str s _, .str p _ => R.ofBool (Glob.gmatchCS p.toList s.toList)
    | _, _ => .err
  | "StringNotLike" | "ArnNotLike" => getv fun v => match v, pv with
    | .str s _, .str p _ => R.ofBool (!Glob.gmatchCS p.toList s.toList)
    | _, _ => .err
  | _ => .err

inductive Quant where
  | plain | forAll | forAny
  deriving Repr, DecidableEq

structure OpName where
  base : String
  quant : Quant
  ifExists : Bool
  deriving Repr

def stripSuffix (s suffix : String) : Option String :=
  if s.endsWith suffix then some (String.ofList (s.toList.take (s.length - suffix.length))) else Option.none

def stripPrefix (s pre : String) : Option String :=
  if s.startsWith pre then some (String.ofList (s.toList.drop pre.length)) else Option.none

/-- how `build_root_evaluator` reads an operator field name -/
def parseOp (name : String) : OpName :=
  let (n1, ifx) := match stripSuffix name "IfExists" with
    | some r => (r, true)
    | Option.none => (name, false)
  match stripPrefix n1 "ForAllValues" with
  | some r => ⟨r, .forAll, ifx⟩
  | Option.none =>
    match stripPrefix n1 "ForAnyValue" with
    | some r => ⟨r, .forAny, ifx⟩
    | Option.none => ⟨n1, .plain, ifx⟩

def toList : V → List V
  | .list xs => xs
  | v => [v]

def isList : V → Bool
  | .list _ => true
  | _ => false

/-- `"Not" in new_function`: the negated operators, whose several policy values are jointly excluded -/
def isNegated (base : String) : Bool :=
  base ∈ ["StringNotEquals", "ArnNotEquals", "NumericNotEquals", "DateNotEquals", "StringNotEqualsIgnoreCase",
          "StringNotLike", "ArnNotLike", "NotIpAddress"]

/-- the multi-value / qualifier case of `build_key_evaluator` -/
def evalMulti (base : String) (forAllCtx : Bool) (key : String) (pvs : List V) (ctx : Ctx) : R :=
  match ctxLookup key ctx with
  | Option.none => .err                       -- kwargs[key] raises KeyError
  | some cv =>
    let perItem : V → R := fun item =>
      let ctx' := ctxSet key item ctx
      if isNegated base then allR (fun pv => evalBase base key pv ctx') pvs
      else anyR (fun pv => evalBase base key pv ctx') pvs
    if forAllCtx then allR perItem (toList cv) else anyR perItem (toList cv)

/-- `build_key_evaluator(function, …, key, value)` applied to a context -/
def evalKey (op : OpName) (key : String) (pv : V) (ctx : Ctx) : R :=
  let inner : R :=
    if op.quant != .plain || isList pv then evalMulti op.base (op.quant == .forAll) key (toList pv) ctx
    else evalBase op.base key pv ctx
  if op.ifExists then (if present ctx key then inner else .t) else inner

/-- a node cannot be built (the whole call then returns None): unresolved function as policy value -/
def isFn : V → Bool
  | .fn => true
  | _ => false

def buildFails (pv : V) : Bool := (toList pv).any isFn || isFn pv

abbrev Block := List (String × List (String × V))

/-- operator field names with colons removed (`ForAllValues:StringLike` ≡ `ForAllValuesStringLike`) -/
def removeColon (s : String) : String := String.ofList (s.toList.filter (· != ':'))

/-- position of a field in the regenerated declaration order of StatementCondition -/
def fieldIndex (name : String) : Option Nat :=
  let rec go (i : Nat) : List String → Option Nat
    | [] => Option.none
    | f :: fs => if f = name then some i else go (i + 1) fs
  go 0 Generated.conditionOperatorFields

/-- the block as `model_dump()` presents it to `build_eval`: colons removed, fields in declaration order -/
def normalise (blk : Block) : Option Block :=
  let named := blk.map fun (n, ks) => (removeColon n, ks)
  if named.all (fun (n, _) => (fieldIndex n).isSome) then
    some (Generated.conditionOperatorFields.filterMap fun f =>
      (named.reverse.find? fun (n, _) => n == f))   -- a later duplicate key overrides an earlier one
  else Option.none

def evalOp (name : String) (keys : List (String × V)) (ctx : Ctx) : R :=
  let op := parseOp name
  allR (fun (kv : String × V) => evalKey op kv.1 kv.2 ctx) keys

def evalBlock (blk : Block) (ctx : Ctx) : R :=
  allR (fun (o : String × List (String × V)) => evalOp o.1 o.2 ctx) blk

/-- `StatementCondition.__call__(ctx)`: True / False / None, never an exception -/
def call (blk : Block) (ctx : Ctx) : Option Bool :=
  if blk.any (fun o => o.2.any fun kv => buildFails kv.2) then Option.none
  else match evalBlock blk ctx with
    | .t => some true
    | .f => some false
    | .err => Option.none

end PycfModel.IamCond
