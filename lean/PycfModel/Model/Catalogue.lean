import PycfModel.Generated.Catalogue
/-
Decoding of the regenerated action catalogue (core-only).  Each entry is one `Nat` literal:
0x01 followed by the entry's bytes, big-endian (the only encoding the kernel evaluates quickly).
-/
namespace PycfModel.Catalogue

def decodeAux : Nat → Nat → List Char → List Char
  | 0, _, acc => acc
  | fuel + 1, n, acc =>
    bif Nat.ble n 1 then acc else decodeAux fuel (n / 256) (Char.ofNat (n % 256) :: acc)

def decode (n : Nat) : List Char := decodeAux (n.log2 / 8 + 2) n []

def decodeChunk (c : List Nat) : List (List Char) := c.map decode

/-- the shipped catalogue `CLOUDFORMATION_ACTIONS`, as regenerated from the live module -/
def catalogue : List (List Char) := (Generated.Catalogue.chunks.map decodeChunk).flatten

end PycfModel.Catalogue
