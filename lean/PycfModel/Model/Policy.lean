import PycfModel.Basic.Json
import PycfModel.Basic.Text
import PycfModel.Generated.Net
/-
Statement effect normalisation, principal enumeration and the Allow-only policy queries (C16).
Transliteration of statement.py / policy_document.py on dumped statements. Core-only.
-/
namespace PycfModel.Policy
open PycfModel PycfModel.Text

def upperChar (c : Char) : Char :=
  if 'a' ≤ c ∧ c ≤ 'z' then Char.ofNat (c.toNat - 32) else c

/-- Python's `str.capitalize()` (ASCII) -/
def capitalize : List Char → List Char
  | [] => []
  | c :: rest => upperChar c :: lower rest

/-- the Effect validator: the capitalised text, if it is Allow or Deny -/
def normEffect (s : String) : Option String :=
  let c := capitalize s.toList
  if c = "Allow".toList || c = "Deny".toList then some (String.ofList c) else none

/-- `_is_statement_effect_allow` -/
def isAllow (effect : String) : Bool := lower effect.toList = "allow".toList

def strsIn : List J → List String
  | [] => []
  | .str s :: rest => s :: strsIn rest
  | _ :: rest => strsIn rest

def fieldPrincipals (kvs : List (String × J)) (f : String) : List String :=
  match J.lookup f kvs with
  | some (.str s) => [s]
  | some (.arr xs) => strsIn xs
  | _ => []

/-- the string principals named by one Principal / NotPrincipal element (as dumped) -/
def principalsOfElem (fields : List String) : J → List String
  | .str s => [s]
  | .arr xs => strsIn xs
  | .obj kvs => fields.flatMap (fieldPrincipals kvs)
  | _ => []

/-- `Statement.get_principal_list()` restricted to its string members -/
def principalList (fields : List String) (principal notPrincipal : J) : List String :=
  principalsOfElem fields principal ++ principalsOfElem fields notPrincipal

/-- `Statement.non_whitelisted_principals(whitelist)` -/
def nonWhitelisted (wl : List String) (ps : List String) : List String := ps.filter fun p => !wl.contains p

structure Stmt where
  effect : String
  principal : J
  notPrincipal : J

/-- `PolicyDocument.non_whitelisted_allowed_principals(whitelist)` (a set in Python; order is not observable) -/
def nonWhitelistedAllowed (fields : List String) (wl : List String) (stmts : List Stmt) : List String :=
  (stmts.filter fun s => isAllow s.effect).flatMap fun s =>
    nonWhitelisted wl (principalList fields s.principal s.notPrincipal)

/-- `PolicyDocument.allowed_principals_with(pattern)` for a pattern that matches everything -/
def allowedPrincipals (fields : List String) (stmts : List Stmt) : List String :=
  (stmts.filter fun s => isAllow s.effect).flatMap fun s => principalList fields s.principal s.notPrincipal

end PycfModel.Policy
