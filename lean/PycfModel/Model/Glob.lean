import PycfModel.Basic.Text
/-
IAM glob matching (C08).  Core-only: imported by the driver.

`gmatch` is the executable matcher (I).  `Lang` is the declarative language (S).
The Python code reaches this function by rewriting the pattern into regular-expression
text and calling `re`; only the behaviour of the resulting matcher is compared.
-/
namespace PycfModel.Glob

inductive Tok where
  | lit (c : Char)
  | any1
  | star
  deriving DecidableEq, Repr

/-- `*` is the run wildcard, `?` the single-character wildcard, everything else is itself. -/
def tokOf (c : Char) : Tok :=
  if c = '*' then .star else if c = '?' then .any1 else .lit c

def tok (p : List Char) : List Tok := p.map tokOf

/-- Try the continuation `k` on every suffix of the string (the `*` case). -/
def starAux (k : List Char → Bool) : List Char → Bool
  | [] => k []
  | c :: s => k (c :: s) || starAux k s

/-- Whole-string glob match. Structural on the pattern. -/
def gmatch : List Tok → List Char → Bool
  | [], s => s.isEmpty
  | .lit c :: p, s =>
    match s with
    | [] => false
    | d :: s' => c == d && gmatch p s'
  | .any1 :: p, s =>
    match s with
    | [] => false
    | _ :: s' => gmatch p s'
  | .star :: p, s => starAux (gmatch p) s

/-- Case-insensitive variant: both sides folded by `f` (ASCII lower-casing in the driver). -/
def gmatchFold (f : Char → Char) (p : List Char) (s : List Char) : Bool :=
  gmatch (tok (p.map f)) (s.map f)

def gmatchCI (p s : List Char) : Bool := gmatchFold Text.lowerChar p s
def gmatchCS (p s : List Char) : Bool := gmatch (tok p) s

/-- Declarative language of a token list. -/
inductive Lang : List Tok → List Char → Prop
  | nil : Lang [] []
  | lit {c p s} : Lang p s → Lang (.lit c :: p) (c :: s)
  | any1 {d p s} : Lang p s → Lang (.any1 :: p) (d :: s)
  | star {p s₂} (s₁ : List Char) : Lang p s₂ → Lang (.star :: p) (s₁ ++ s₂)

end PycfModel.Glob
