import PycfModel.Basic.Json
import PycfModel.Basic.Text
import PycfModel.Generated.Constants
/-
The intrinsic-function resolver (C01, C02 (Fn::If / conditions functions / NoValue), C03, C07).

`Spec.resolve` is the specification: a pure, compositional function of the environment and the
expression.  `none` means "outside the typed fragment" (the Python code would raise or produce a
repr of a container); nothing is claimed or compared there.  Core-only.
-/
namespace PycfModel.Resolver
open PycfModel PycfModel.Text

structure Env where
  params : List (String × J)
  mappings : List (String × J)
  conds : List (String × Bool)

/-! ### Text-level pieces -/

def isWordChar (c : Char) : Bool :=
  ('a' ≤ c && c ≤ 'z') || ('A' ≤ c && c ≤ 'Z') || ('0' ≤ c && c ≤ '9') || c == '_'

/-- characters allowed in a `${name}` placeholder: `[\w:]` (ASCII words; domain restriction `AsciiWord`) -/
def isVarChar (c : Char) : Bool := isWordChar c || c == ':'

/-- characters allowed in the body of a `${!literal}`: anything but `$`, `{`, `}` -/
def isEscChar (c : Char) : Bool := !(c == '$' || c == '{' || c == '}')

inductive Tok where
  | lit (c : Char)
  | var (name : List Char)
  | esc (body : List Char)
  deriving Repr, DecidableEq

/-- the source text of a token -/
def Tok.src : Tok → List Char
  | .lit c => [c]
  | .var n => '$' :: '{' :: n ++ ['}']
  | .esc b => '$' :: '{' :: '!' :: b ++ ['}']

/-- Scanner for `Fn::Sub` text: leftmost, non-overlapping `${name}` / `${!literal}` tokens,
    every other character a literal.  `fuel` bounds the recursion (the text length suffices). -/
def tokensAux : Nat → List Char → List Tok
  | 0, s => s.map Tok.lit
  | _ + 1, [] => []
  | fuel + 1, c :: rest =>
    match c, rest with
    | '$', '{' :: '!' :: more =>
      let body := more.takeWhile isEscChar
      let after := more.dropWhile isEscChar
      match body, after with
      | _ :: _, '}' :: tail => Tok.esc body :: tokensAux fuel tail
      | _, _ => Tok.lit c :: tokensAux fuel rest
    | '$', '{' :: more =>
      let name := more.takeWhile isVarChar
      let after := more.dropWhile isVarChar
      match name, after with
      | _ :: _, '}' :: tail => Tok.var name :: tokensAux fuel tail
      | _, _ => Tok.lit c :: tokensAux fuel rest
    | _, _ => Tok.lit c :: tokensAux fuel rest

def tokens (s : List Char) : List Tok := tokensAux s.length s

/-- `{{resolve:ssm:NAME:VERSION}}` at the start of a string: the `NAME:VERSION` key -/
def ssmPrefix : List Char := "{{resolve:ssm:".toList

def isSsmNameChar (c : Char) : Bool :=
  isWordChar c || c == '.' || c == '/' || c == '-'

def ssmKey (s : List Char) : Option (List Char) :=
  if isPrefix ssmPrefix s then
    let rest := s.drop ssmPrefix.length
    let name := rest.takeWhile isSsmNameChar
    let after := rest.dropWhile isSsmNameChar
    match name, after with
    | _ :: _, ':' :: more =>
      let ver := more.takeWhile isDigit
      let tail := more.dropWhile isDigit
      match ver, tail with
      | _ :: _, '}' :: '}' :: _ => some (name ++ ':' :: ver)
      | _, _ => none
    | _, _ => none
  else none

def undefinedParam (name : String) : J := .str ("UNDEFINED_PARAM_" ++ name)

def undefinedMapping (m k1 k2 : String) : J :=
  .str ("UNDEFINED_MAPPING_" ++ m ++ "_" ++ k1 ++ "_" ++ k2)

/-- `resolve_ssm`: the value supplied under `name:version` when it is a non-empty string -/
def resolveSsm (params : List (String × J)) (key : List Char) : J :=
  let k := String.ofList key
  match J.lookup k params with
  | some (.str v) => if v.isEmpty then undefinedParam k else .str v
  | _ => undefinedParam k

/-- what `resolve` does to a string leaf -/
def resolveStr (params : List (String × J)) (s : String) : J :=
  match ssmKey s.toList with
  | some key => resolveSsm params key
  | none =>
    let l := lower s.toList
    if l = "true".toList || l = "false".toList then .str (String.ofList l) else .str s

/-- rendering of values reached through a reference (`_render_scalars`): scalars as text, text through the
    string clause of `resolve` (SSM references, boolean spelling), lists element-wise -/
def renderScalars (params : List (String × J)) : J → J
  | .bool b => .str (if b then "true" else "false")
  | .int i => .str (String.ofList (intToChars i))
  | .num r => .str r
  | .str s => resolveStr params s
  | .arr xs => .arr (renderList params xs)
  | j => j
where renderList (params : List (String × J)) : List J → List J
  | [] => []
  | x :: xs => renderScalars params x :: renderList params xs

def isNoValue (j : J) : Bool :=
  match j with
  | .str s => s == Generated.awsNoValue
  | _ => false

def pruneList (xs : List J) : List J := xs.filter (fun x => !isNoValue x)
def pruneMembers (kvs : List (String × J)) : List (String × J) := kvs.filter (fun kv => !isNoValue kv.2)

/-- pydantic's lenient boolean for the values a condition function can see -/
def extendedBool : J → Option Bool
  | .bool b => some b
  | .str s =>
    let l := lower s.toList
    if l ∈ ["true".toList, "t".toList, "yes".toList, "y".toList, "on".toList, "1".toList] then some true
    else if l ∈ ["false".toList, "f".toList, "no".toList, "n".toList, "off".toList, "0".toList] then some false
    else none
  | .int 1 => some true
  | .int 0 => some false
  | _ => none

def strOf : J → Option String
  | .str s => some s
  | _ => none

def strsOf : List J → Option (List String)
  | [] => some []
  | .str s :: rest => (strsOf rest).map (s :: ·)
  | _ :: _ => none

/-- the text of a member `Fn::Join` is given (`str(_as_text(e))`): text as it is; numbers and booleans that a mapping
    holds (returned raw by `Fn::FindInMap`) as the text they render to in a template — `true`, not Python's `True`
    (D41); containers are outside the typed fragment -/
def pyStrOf : J → Option String
  | .str s => some s
  | .int i => some (String.ofList (intToChars i))
  | .bool b => some (if b then "true" else "false")
  | .num r => some r
  | _ => none

def pyStrsOf : List J → Option (List String)
  | [] => some []
  | x :: rest => match pyStrOf x, pyStrsOf rest with
    | some s, some ss => some (s :: ss)
    | _, _ => none

theorem pyStrsOf_of_strsOf : ∀ (items : List J) (ss : List String), strsOf items = some ss → pyStrsOf items = some ss
  | [], ss, h => by simpa [strsOf, pyStrsOf] using h
  | x :: rest, ss, h => by
    cases x <;> simp [strsOf] at h
    rename_i s
    obtain ⟨tl, htl, hss⟩ := h
    subst hss
    simp [pyStrsOf, pyStrOf, pyStrsOf_of_strsOf rest tl htl]

/-- base64 (RFC 4648, with padding) of a byte list -/
def b64Alphabet : List Char := "ABCDEFGHIJKLMNOPQRSTUVWXYZabcdefghijklmnopqrstuvwxyz0123456789+/".toList
def b64Char (n : Nat) : Char := b64Alphabet.getD n 'A'

def b64Encode : List Nat → List Char
  | [] => []
  | [a] => [b64Char (a / 4), b64Char ((a % 4) * 16), '=', '=']
  | [a, b] => [b64Char (a / 4), b64Char ((a % 4) * 16 + b / 16), b64Char ((b % 16) * 4), '=']
  | a :: b :: c :: rest =>
    b64Char (a / 4) :: b64Char ((a % 4) * 16 + b / 16) :: b64Char ((b % 16) * 4 + c / 64) :: b64Char (c % 64) ::
      b64Encode rest

def base64OfString (s : String) : String :=
  String.ofList (b64Encode (s.toUTF8.toList.map (·.toNat)))

/-- the resolver a function name dispatches to, read from the regenerated FUNCTION_MAPPINGS -/
def resolverOf (fn : String) : Option String := J.lookup fn Generated.functionMappings

def isFunction (fn : String) : Bool := Generated.implementedFunctions.contains fn

/-- one rendered `Fn::Sub` token, given the already looked-up (and re-resolved) value of a variable -/
def renderTok (lookupVar : List Char → Option (Option String)) : Tok → Option (List Char)
  | .lit c => some [c]
  | .esc b => some ('$' :: '{' :: b ++ ['}'])
  | .var n =>
    match lookupVar n with
    | none => some (Tok.src (.var n))      -- unbound: left verbatim
    | some (some v) => some v.toList       -- bound to text: inserted once, never rescanned
    | some none => none                    -- bound to a container: outside the typed fragment

def renderToks (lookupVar : List Char → Option (Option String)) : List Tok → Option (List Char)
  | [] => some []
  | t :: ts => do
    let a ← renderTok lookupVar t
    let b ← renderToks lookupVar ts
    pure (a ++ b)

/-- value of a `Fn::Sub` variable: local map first, then parameters; the bound value is passed through
    `resolve` once more (as the code does) and must be text -/
def subLookup (params : List (String × J)) (loc : List (String × J)) (n : List Char) : Option (Option String) :=
  let k := String.ofList n
  match J.lookup k loc with
  | some v => some (match v with
      | .str s => strOf (resolveStr params s)
      | .bool b => some (if b then "true" else "false")
      | .int i => some (String.ofList (intToChars i))
      | _ => none)
  | none =>
    match J.lookup k params with
    | some v => some (match v with
        | .str s => strOf (resolveStr params s)
        | .bool b => some (if b then "true" else "false")
        | .int i => some (String.ofList (intToChars i))
        | _ => none)
    | none => none

def subText (params : List (String × J)) (loc : List (String × J)) (text : String) : Option J := do
  let out ← renderToks (subLookup params loc) (tokens text.toList)
  pure (.str (String.ofList out))

mutual
  /-- Python's `==` on resolved values: objects are equal when they have the same members, in whatever order; lists
      element by element; everything else structurally -/
  def pyEqJ : J → J → Bool
    | .obj a, .obj b => a.length == b.length && pyEqMembers a b
    | .arr a, .arr b => pyEqList a b
    | .obj _, _ => false
    | .arr _, _ => false
    | x, y => x == y
  def pyEqMembers : List (String × J) → List (String × J) → Bool
    | [], _ => true
    | (k, v) :: rest, b => (match J.lookup k b with | some w => pyEqJ v w | none => false) && pyEqMembers rest b
  def pyEqList : List J → List J → Bool
    | [], [] => true
    | x :: xs, y :: ys => pyEqJ x y && pyEqList xs ys
    | _, _ => false
end

/-- the text a resolved operand of `Fn::Equals` renders to (`_as_text`): booleans and numbers that were not written in
    the template (read from a mapping, produced by a condition function) as the text CloudFormation compares; lists
    element by element; text and objects as they are -/
def asText : J → J
  | .bool b => .str (if b then "true" else "false")
  | .int i => .str (String.ofList (intToChars i))
  | .num r => .str r
  | .arr xs => .arr (asTextList xs)
  | j => j
where asTextList : List J → List J
  | [] => []
  | x :: xs => asText x :: asTextList xs

/-- `Fn::Equals`: equality of the string renderings of the two resolved operands -/
def eqText (a b : J) : Bool := pyEqJ (asText a) (asText b)

/-- all results present -/
def allSome : List (Option J) → Option (List J)
  | [] => some []
  | none :: _ => none
  | some x :: rest => (allSome rest).map (x :: ·)

def condOf (env : Env) (c : String) : Bool := (J.lookup c env.conds).getD false

/-- One intrinsic function, given its raw body, the value of the whole body (`whole`) and — when the
    body is a list — the value of each element separately (`each`; `Fn::If` uses only the selected one).
    Not recursive: all recursion is in `Spec.resolve`. -/
def applyFn (env : Env) (fn : String) (raw : J) (whole : Option J) (each : List (Option J)) : Option J :=
  match resolverOf fn with
  | some "resolve_ref" => do
    let r ← whole
    let name ← strOf r
    match J.lookup name env.params with
    | some v => pure (renderScalars env.params v)
    | none => pure (undefinedParam name)
  | some "resolve_join" =>
    match each with
    | [rd, rl] => do
      match ← rd, ← rl with
      | .str sep, .arr items => do
        let ss ← pyStrsOf items
        pure (.str (String.ofList (join sep.toList (ss.map String.toList))))
      | _, _ => none
    | _ => none
  | some "resolve_find_in_map" =>
    match each with
    | [rm, r1, r2] => do
      match ← rm, ← r1, ← r2 with
      | .str sm, .str s1, .str s2 =>
        match J.lookup sm env.mappings with
        | some (.obj top) =>
          match J.lookup s1 top with
          | some (.obj second) =>
            match J.lookup s2 second with
            | some .null => pure (undefinedMapping sm s1 s2)
            | some v => pure v
            | none => pure (undefinedMapping sm s1 s2)
          | some _ => none
          | none => pure (undefinedMapping sm s1 s2)
        | some _ => none
        | none => pure (undefinedMapping sm s1 s2)
      | _, _, _ => none
    | _ => none
  | some "resolve_sub" =>
    match raw, each with
    | .str text, _ => subText env.params [] text
    | .arr [.str text, _], [_, rl] => do
      match ← rl with
      | .obj loc => subText env.params loc text
      | _ => none
    | _, _ => none
  | some "resolve_select" =>
    match each with
    | [ri, rl] => do
      match ← ri, ← rl with
      | .str si, .arr items =>
        match parseNat? si.toList with
        | some n => pure (items.getD n (.arr []))
        | none => none
      | _, _ => none
    | _ => none
  | some "resolve_split" =>
    match each with
    | [rd, rs] => do
      match ← rd, ← rs with
      | .str sep, .str src =>
        if sep.isEmpty then none
        else pure (.arr ((split sep.toList src.toList).map fun p => .str (String.ofList p)))
      | _, _ => none
    | _ => none
  | some "resolve_base64" => do
    let r ← whole
    let s ← strOf r
    pure (.str (base64OfString s))
  | some "resolve_if" =>
    match raw, each with
    | .arr [.str c, _, _], [_, ra, rb] => if condOf env c then ra else rb
    | _, _ => none
  | some "resolve_condition" =>
    match raw with
    | .str c => pure (.bool (condOf env c))
    | _ => none
  | some "resolve_and" =>
    match raw with
    | .arr _ => do
      let rs ← allSome each
      let bs ← rs.mapM extendedBool
      pure (.bool (bs.all id))
    | _ => none
  | some "resolve_or" =>
    match raw with
    | .arr _ => do
      let rs ← allSome each
      let bs ← rs.mapM extendedBool
      pure (.bool (bs.any id))
    | _ => none
  | some "resolve_not" =>
    match each with
    | rp :: _ => do
      let b ← extendedBool (← rp)
      pure (.bool (!b))
    | _ => none
  | some "resolve_equals" =>
    match each with
    | [ra, rb] => do
      let a ← ra
      let b ← rb
      pure (.bool (eqText a b))
    | _ => none
  | some "resolve_get_attr" => pure (.str "GETATT")
  | some "resolve_get_azs" => pure (.str "GETAZS")
  | _ => none

namespace Spec

mutual
  /-- S: the CloudFormation value of an expression -/
  def resolve (env : Env) : J → Option J
    | .null => some .null
    | .str s => some (resolveStr env.params s)
    | .bool b => some (.str (if b then "true" else "false"))
    | .int i => some (.str (String.ofList (intToChars i)))
    | .num r => some (.str r)
    | .leaf k p => some (if k = "bytes" then .leaf k p else .str p)  -- decoded binary values are data (D11)
    | .arr xs => (allSome (resolveEach env xs)).map fun ys => .arr (pruneList ys)
    | .obj kvs => resolveObj env kvs
  /-- each element separately -/
  def resolveEach (env : Env) : List J → List (Option J)
    | [] => []
    | x :: xs => resolve env x :: resolveEach env xs
  /-- an object: a call of an intrinsic function (exactly one member, named like a function) or plain data -/
  def resolveObj (env : Env) : List (String × J) → Option J
    | [] => some (.obj [])
    | [(k, v)] =>
      if isFunction k then
        match v with
        | .arr args =>
          let each := resolveEach env args
          applyFn env k v ((allSome each).map fun ys => .arr (pruneList ys)) each
        | other => applyFn env k other (resolve env other) []
      else (resolve env v).map fun y => .obj (pruneMembers [(k, y)])
    | (k, v) :: r :: rs =>
      match resolve env v, resolveMembers env (r :: rs) with
      | some y, some ys => some (.obj (pruneMembers ((k, y) :: ys)))
      | _, _ => none
  def resolveMembers (env : Env) : List (String × J) → Option (List (String × J))
    | [] => some []
    | (k, x) :: rest =>
      match resolve env x, resolveMembers env rest with
      | some y, some ys => some ((k, y) :: ys)
      | _, _ => none
end

end Spec
end PycfModel.Resolver
