import PycfModel.Basic.Json
import PycfModel.Model.Actions
/-
`action_expander.expand_actions`: the recursive walk that rewrites values under the keys
`Action` / `NotAction` (C10).  Transliteration of the repaired code: a value under such a key is
rewritten only when it is action text (a string or a list of strings). Core-only.
-/
namespace PycfModel.Expand
open PycfModel PycfModel.Actions

def allStr : List J → Bool
  | [] => true
  | .str _ :: rest => allStr rest
  | _ :: _ => false

/-- `_is_action_text`: a string or a list of strings -/
def isActionText : J → Bool
  | .str _ => true
  | .arr xs => allStr xs
  | _ => false

def isNull : J → Bool
  | .null => true
  | _ => false

def strsOf : List J → List Str
  | [] => []
  | .str s :: rest => s.toList :: strsOf rest
  | _ :: rest => strsOf rest

def toActionVal : J → Option ActionVal
  | .str s => some (.one s.toList)
  | .arr xs => if allStr xs then some (.many (strsOf xs)) else none
  | _ => none

def ofStrs (xs : List Str) : J := .arr (xs.map fun a => .str (String.ofList a))

/-- `_expand_actions(value, not_action)` on a JSON value that is action text, computed by the
    specification (`Actions.expand` / `expandNot`); `C10_expandJ_is_expander` shows this is exactly what
    the algorithm `Actions.expandActions` (the transliteration of `_expand_actions`) returns. -/
def expandJ (cat : List Str) (notAction : Bool) (v : J) : J :=
  match toActionVal v with
  | some av => ofStrs (if notAction then expandNot cat av.toList else expand cat av.toList)
  | none => v

mutual
  /-- the walk, parameterised by what happens under `Action` and under `NotAction` -/
  def walkWith (fA fN : J → J) : J → J
    | .obj kvs => .obj (walkMembers fA fN kvs)
    | .arr xs => .arr (walkList fA fN xs)
    | j => j
  def walkMembers (fA fN : J → J) : List (String × J) → List (String × J)
    | [] => []
    | (k, v) :: rest =>
      let v' :=
        if isNull v then v
        else if k = "Action" && isActionText v then fA v
        else if k = "NotAction" && isActionText v then fN v
        else walkWith fA fN v
      (k, v') :: walkMembers fA fN rest
  def walkList (fA fN : J → J) : List J → List J
    | [] => []
    | x :: xs => walkWith fA fN x :: walkList fA fN xs
end

def walk (cat : List Str) : J → J := walkWith (expandJ cat false) (expandJ cat true)

end PycfModel.Expand
