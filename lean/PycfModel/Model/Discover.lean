/-
Policy-document discovery (C13): `Resource.policy_documents` / `obtain_policy_documents` over the typed
value tree of a resource's properties, and `all_statement_conditions`. Core-only.
-/
namespace PycfModel.Discover

/-- the typed value tree as far as the collector can tell values apart -/
inductive TV where
  /-- a `PolicyDocument` object (identified by a number) -/
  | doc (id : Nat)
  /-- a `Policy` object: PolicyName and its PolicyDocument -/
  | policy (name : String) (id : Nat)
  /-- an `OptionallyNamedPolicyDocument` -/
  | named (name : Option String) (id : Nat)
  | list (xs : List TV)
  /-- a `Generic` object (or the field list of the Properties object): the fields that are set -/
  | generic (fields : List (String × TV))
  /-- anything else: strings, numbers, other property models -/
  | other
  deriving Repr

structure Found where
  name : Option String
  id : Nat
  deriving Repr, DecidableEq

inductive Step where
  | idx (i : Nat)
  | key (k : String)
  deriving Repr, DecidableEq

abbrev Path := List Step

mutual
  /-- documents found below a value, each with the path that leads to it -/
  def collectP : TV → List (Path × Found)
    | .doc id => [([], ⟨none, id⟩)]
    | .policy name id => [([], ⟨some name, id⟩)]
    | .named name id => [([], ⟨name, id⟩)]
    | .list xs => collectListP 0 xs
    | .generic fields => collectFieldsP fields
    | .other => []
  def collectListP (i : Nat) : List TV → List (Path × Found)
    | [] => []
    | x :: xs => ((collectP x).map fun pf => (Step.idx i :: pf.1, pf.2)) ++ collectListP (i + 1) xs
  def collectFieldsP : List (String × TV) → List (Path × Found)
    | [] => []
    | (k, x) :: rest => ((collectP x).map fun pf => (Step.key k :: pf.1, pf.2)) ++ collectFieldsP rest
end

/-- `Resource.policy_documents` for a resource whose set property fields are `fields` -/
def policyDocuments (fields : List (String × TV)) : List Found :=
  (collectFieldsP fields).map (·.2)

/-- `all_statement_conditions`: the Condition blocks (by id) present on the statements of the found documents, in order -/
def statementConditions (conditionsOfDoc : Nat → List (Option Nat)) (docs : List Found) : List Nat :=
  docs.flatMap fun d => (conditionsOfDoc d.id).filterMap id

end PycfModel.Discover
