import PycfModel.Basic.Text
/-
Network text → network (C17): the grammar `ipaddress.IPv4Network(text, strict=False)` /
`IPv6Network(text, strict=False)` accept, host bits masked; slash-zero and RDS `is_public` predicates.
Core-only.
-/
namespace PycfModel.Net
open PycfModel.Text

/-- split at every occurrence of one character (Python's `s.split(c)`) -/
def splitOn1 (c : Char) : List Char → List (List Char)
  | [] => [[]]
  | x :: xs =>
    if x = c then [] :: splitOn1 c xs
    else match splitOn1 c xs with
      | [] => [[x]]
      | p :: ps => (x :: p) :: ps

def digitVal (c : Char) : Nat := c.toNat - '0'.toNat

def decimal (s : List Char) : Nat := s.foldl (fun acc c => acc * 10 + digitVal c) 0

/-- `_parse_octet`: non-empty ASCII digits, at most 3, no leading zero unless "0", at most 255 -/
def parseOctet (s : List Char) : Option Nat :=
  if s.isEmpty || !s.all isDigit || s.length > 3 then none
  else if s != ['0'] && s.head? == some '0' then none
  else
    let n := decimal s
    if n > 255 then none else some n

def combine (base : Nat) (parts : List Nat) : Nat := parts.foldl (fun acc p => acc * base + p) 0

/-- dotted quad → 32-bit integer -/
def parseQuad (s : List Char) : Option Nat :=
  if s.isEmpty then none else
  match splitOn1 '.' s with
  | [a, b, c, d] => do
    let a ← parseOctet a
    let b ← parseOctet b
    let c ← parseOctet c
    let d ← parseOctet d
    pure (combine 256 [a, b, c, d])
  | _ => none

/-- number of trailing zero bits of `n`, at most `bits` -/
def trailingZeros : Nat → Nat → Nat
  | 0, _ => 0
  | bits + 1, n => if n % 2 = 1 then 0 else 1 + trailingZeros bits (n / 2)

/-- `_prefix_from_ip_int`: a netmask (ones then zeros) as a prefix length -/
def prefixFromInt (bits : Nat) (n : Nat) : Option Nat :=
  let tz := if n = 0 then bits else trailingZeros bits n
  let plen := bits - tz
  if n / 2 ^ tz = 2 ^ plen - 1 then some plen else none

/-- the part after `/` for IPv4: a prefix length, a netmask or a hostmask -/
def parsePrefix4 (s : List Char) : Option Nat :=
  if !s.isEmpty && s.all isDigit then
    (let n := decimal s; if n ≤ 32 then some n else none)
  else
    match parseQuad s with
    | none => none
    | some m =>
      match prefixFromInt 32 m with
      | some l => some l
      | none => prefixFromInt 32 (m ^^^ (2 ^ 32 - 1))

def maskAddr (bits addr plen : Nat) : Nat := addr / 2 ^ (bits - plen) * 2 ^ (bits - plen)

/-- `IPv4Network(text, strict=False)` as (network address, prefix length) -/
def parse4 (s : List Char) : Option (Nat × Nat) :=
  match splitOn1 '/' s with
  | [a] => (parseQuad a).map fun addr => (addr, 32)
  | [a, p] => do
    let addr ← parseQuad a
    let l ← parsePrefix4 p
    pure (maskAddr 32 addr l, l)
  | _ => none

def hexVal (c : Char) : Option Nat :=
  if '0' ≤ c && c ≤ '9' then some (c.toNat - '0'.toNat)
  else if 'a' ≤ c && c ≤ 'f' then some (c.toNat - 'a'.toNat + 10)
  else if 'A' ≤ c && c ≤ 'F' then some (c.toNat - 'A'.toNat + 10)
  else none

/-- `_parse_hextet`: 1–4 hex digits -/
def parseHextet (s : List Char) : Option Nat :=
  if s.isEmpty || s.length > 4 then none
  else s.foldlM (fun acc c => (hexVal c).map fun v => acc * 16 + v) 0

def allSomeNat : List (Option Nat) → Option (List Nat)
  | [] => some []
  | none :: _ => none
  | some x :: rest => (allSomeNat rest).map (x :: ·)

/-- positions 1 … n-2 holding an empty part (candidates for `::`) -/
def emptyMiddle (parts : List (List Char)) : List Nat :=
  ((List.range parts.length).filter fun i => 1 ≤ i && i + 1 < parts.length && (parts.getD i []).isEmpty)

/-- `_ip_int_from_string` for IPv6 (no scope id) -/
def parseV6Addr (s : List Char) : Option Nat :=
  if s.isEmpty then none else
  let parts0 := splitOn1 ':' s
  if parts0.length < 3 then none else
  -- IPv4-style suffix
  let lastPart := parts0.getLastD []
  let partsOpt : Option (List (List Char)) :=
    if lastPart.contains '.' then
      (parseQuad lastPart).map fun v4 =>
        parts0.dropLast ++ [Nat.toDigits 16 (v4 / 65536), Nat.toDigits 16 (v4 % 65536)]
    else some parts0
  match partsOpt with
  | none => none
  | some parts =>
    if parts.length > 9 then none else
    match emptyMiddle parts with
    | [] =>
      if parts.length != 8 then none
      else (allSomeNat (parts.map parseHextet)).map (combine 65536)
    | [skip] =>
      let first := parts.headD []
      let last := parts.getLastD []
      let hi0 := skip
      let lo0 := parts.length - skip - 1
      -- a leading / trailing empty part is only allowed as part of `::`
      if first.isEmpty && hi0 - 1 != 0 then none
      else if last.isEmpty && lo0 - 1 != 0 then none
      else
        let hi := if first.isEmpty then hi0 - 1 else hi0
        let lo := if last.isEmpty then lo0 - 1 else lo0
        if hi + lo > 7 then none
        else
          let hiParts := parts.take hi
          let loParts := parts.drop (parts.length - lo)
          match allSomeNat (hiParts.map parseHextet), allSomeNat (loParts.map parseHextet) with
          | some hs, some ls => some (combine 65536 (hs ++ List.replicate (8 - (hi + lo)) 0 ++ ls))
          | _, _ => none
    | _ => none

/-- `IPv6Network(text, strict=False)` -/
def parse6 (s : List Char) : Option (Nat × Nat) :=
  match splitOn1 '/' s with
  | [a] => (parseV6Addr a).map fun addr => (addr, 128)
  | [a, p] => do
    let addr ← parseV6Addr a
    if !p.isEmpty && p.all isDigit then
      let l := decimal p
      if l ≤ 128 then pure (maskAddr 128 addr l, l) else none
    else none
  | _ => none

/-! ### Predicates -/

/-- `ipv4_slash_zero()` / `ipv6_slash_zero()`: the field is present and equals the all-zero /0 network -/
def slashZero (n : Option (Nat × Nat)) : Bool :=
  match n with
  | none => false
  | some (addr, plen) => addr == 0 && plen == 0

/-- `a ⊆ b` for networks of one family: both ends of `a` lie in `b` -/
def subnetOf (bits : Nat) (a b : Nat × Nat) : Bool :=
  let aLo := a.1
  let aHi := a.1 + 2 ^ (bits - a.2) - 1
  let bLo := b.1
  let bHi := b.1 + 2 ^ (bits - b.2) - 1
  decide (bLo ≤ aLo) && decide (aHi ≤ bHi)

/-- `IPv4Network.is_global`, given the interpreter's private-range table and the shared range 100.64.0.0/10 -/
def isGlobal4 (privateTable : List (Nat × Nat)) (shared : Nat × Nat) (n : Nat × Nat) : Bool :=
  !subnetOf 32 n shared && !(privateTable.any fun r => subnetOf 32 n r)

/-- `DBSecurityGroupIngressProp.is_public()` -/
def isPublic (privateTable : List (Nat × Nat)) (shared : Nat × Nat)
    (cidr : Option (Nat × Nat)) (hasSourceGroup : Bool) : Bool :=
  match cidr with
  | none => !hasSourceGroup
  | some n => (n.1 == 0 && n.2 == 0) || isGlobal4 privateTable shared n

end PycfModel.Net
