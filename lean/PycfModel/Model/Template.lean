import PycfModel.Model.Resolver
/-
Template-level resolution: parameter binding (C04), condition table (C02), resource gating (C02),
per-resource resolution (C01, C07).  Transliteration of `Parameter.get_ref_value` and `CFModel.resolve`
(with the repairs of D4–D6), operating on the parsed model's python-mode dump. Core-only.
-/
namespace PycfModel.Template
open PycfModel PycfModel.Text PycfModel.Resolver

/-! ### Parameters -/

/-- Python's `str(value)` for the scalar kinds a parameter value can have; `none` for containers -/
def pyStr : J → Option String
  | .str s => some s
  | .int i => some (String.ofList (intToChars i))
  | .bool b => some (if b then "True" else "False")
  | .num r => some r
  | _ => none

/-- Python truthiness -/
def truthy : J → Bool
  | .null => false
  | .bool b => b
  | .int i => i != 0
  | .num r => !(r == "0.0" || r == "-0.0")
  | .str s => !s.isEmpty
  | .arr xs => !xs.isEmpty
  | .obj kvs => !kvs.isEmpty
  | .leaf _ _ => true

structure ParamDecl where
  type : String
  default : J
  noEcho : Bool
  deriving Repr

def isListType (t : String) : Bool := t == "List<Number>" || t == "CommaDelimitedList"

def isNull : J → Bool
  | .null => true
  | _ => false

def splitCommas (s : String) : J :=
  .arr ((split [','] s.toList).map fun p => .str (String.ofList p))

/-- `Parameter.get_ref_value(provided)`. Outer `none`: outside the typed fragment (`str()` of a container).
    Inner `none`: Python's `None` (no entry is made for the parameter). -/
def refValue (d : ParamDecl) (provided : J) : Option (Option J) :=
  let value := if isNull provided then d.default else provided
  if d.noEcho then
    if !isNull provided then some (some (.str Generated.noEchoWithValue))
    else if truthy d.default then some (some (.str Generated.noEchoWithDefault))
    else some (some (.str Generated.noEchoNoDefault))
  else if isNull value then some none
  else if isListType d.type then (pyStr value).map fun s => some (splitCommas s)
  else (pyStr value).map fun s => some (.str s)

def declaredParams (extra : List (String × J)) : List (String × ParamDecl) → Option (List (String × J))
  | [] => some []
  | (k, d) :: rest => do
    let v ← refValue d ((J.lookup k extra).getD .null)
    let tail ← declaredParams extra rest
    match v with
    | some x => pure ((k, x) :: tail)
    | none => pure tail

/-- `{**PSEUDO_PARAMETERS, **declared, **undeclared extra}` as a first-match association list -/
def bind (pseudo : List (String × J)) (decls : List (String × ParamDecl)) (extra : List (String × J)) :
    Option (List (String × J)) := do
  let declared ← declaredParams extra decls
  let undeclared := extra.filter fun kv => !(decls.any fun d => d.1 == kv.1)
  pure (undeclared ++ declared ++ pseudo)

/-! ### Conditions -/

def condRefsHead : List (String × J) → List String
  | [("Condition", .str c)] => [c]
  | [("Fn::If", .arr (.str c :: _))] => [c]
  | _ => []

mutual
  /-- `_condition_references`: names referenced by `{"Condition": name}` or as the first argument of `Fn::If` -/
  def condRefs : J → List String
    | .obj kvs => condRefsHead kvs ++ condRefsMembers kvs
    | .arr xs => condRefsList xs
    | _ => []
  def condRefsMembers : List (String × J) → List String
    | [] => []
    | (_, v) :: rest => condRefs v ++ condRefsMembers rest
  def condRefsList : List J → List String
    | [] => []
    | x :: xs => condRefs x ++ condRefsList xs
end

def dedup : List String → List String
  | [] => []
  | x :: xs => if xs.contains x then dedup xs else x :: dedup xs

/-- what the evaluation of conditions reads from the `Conditions` section: definitions and references *by name*
    (no notion of declaration order), and two step bounds -/
structure CondGraph where
  defOf : String → Option J
  /-- references restricted to declared names, duplicate-free -/
  refsOf : String → List String
  searchFuel : Nat
  depthFuel : Nat

def refsIn (defs : List (String × J)) (k : String) : List String :=
  match J.lookup k defs with
  | some d => dedup ((condRefs d).filter fun r => (J.lookup r defs).isSome)
  | none => []

def mkGraph (defs : List (String × J)) : CondGraph :=
  ⟨fun k => J.lookup k defs, refsIn defs,
   (defs.map fun kv => (condRefs kv.2).length).sum + defs.length + 1, defs.length + 1⟩

/-- nodes reachable by one or more references (visited-set search; `fuel` bounds the steps) -/
def reachFrom (refsOf : String → List String) : Nat → List String → List String → List String
  | 0, _, seen => seen
  | _ + 1, [], seen => seen
  | fuel + 1, x :: frontier, seen =>
    if seen.contains x then reachFrom refsOf fuel frontier seen
    else reachFrom refsOf fuel (refsOf x ++ frontier) (x :: seen)

/-- a condition that lies on a reference cycle -/
def isCyclic (g : CondGraph) (k : String) : Bool :=
  (reachFrom g.refsOf g.searchFuel (g.refsOf k) []).contains k

/-- the references of `k` whose value is visible to it: declared and not on a cycle -/
def visibleRefs (g : CondGraph) (k : String) : List String :=
  (g.refsOf k).filter fun r => !isCyclic g r

/-- value of a declared condition: its definition resolved with the values of the non-cyclic conditions it
    references (everything else reads `False`), recursively -/
def condValue (g : CondGraph) (params : List (String × J)) (mappings : List (String × J)) :
    Nat → String → Option Bool
  | 0, _ => none
  | fuel + 1, k => do
    let d ← g.defOf k
    let visible ← (visibleRefs g k).mapM fun r =>
      (condValue g params mappings fuel r).map fun b => (r, b)
    let v ← Spec.resolve ⟨params, mappings, visible⟩ d
    extendedBool v

def condTableOf (g : CondGraph) (params mappings : List (String × J)) (keys : List String) :
    Option (List (String × Bool)) :=
  keys.mapM fun k => (condValue g params mappings g.depthFuel k).map fun b => (k, b)

def condTable (defs : List (String × J)) (params mappings : List (String × J)) : Option (List (String × Bool)) :=
  condTableOf (mkGraph defs) params mappings (defs.map (·.1))

/-! ### Resources -/

/-- is the resource kept? (`none`: its Condition is not a plain name) -/
def present (table : List (String × Bool)) (res : J) : Option Bool :=
  match res with
  | .obj kvs =>
    match J.lookup "Condition" kvs with
    | none => some true
    | some .null => some true
    | some (.str c) => some ((J.lookup c table).getD true)
    | some _ => none
  | _ => none

/-- `d[k] = v` on a Python dict: replace the value of member `k` where it occurs, else add the member at the end -/
def setMember (k : String) (v : J) : List (String × J) → List (String × J)
  | [] => [(k, v)]
  | (k', x) :: rest => if k' = k then (k', v) :: rest else (k', x) :: setMember k v rest

/-- the resolved resource keeps, in its `Condition` attribute, the condition's name as written (a name is not text
    to normalise) -/
def keepConditionName (original resolved : J) : J :=
  match original, resolved with
  | .obj okvs, .obj rkvs =>
    match J.lookup "Condition" okvs with
    | some (.str c) => .obj (setMember "Condition" (.str c) rkvs)
    | _ => resolved
  | _, _ => resolved

def resolveResource (env : Env) (r : J) : Option J := (Spec.resolve env r).map (keepConditionName r)

def resolveResources (env : Env) : List (String × J) → Option (List (String × J))
  | [] => some []
  | (k, r) :: rest => do
    let keep ← present env.conds r
    let tail ← resolveResources env rest
    if keep then
      let v ← resolveResource env r
      pure ((k, v) :: tail)
    else pure tail

structure Tmpl where
  decls : List (String × ParamDecl)
  mappings : List (String × J)
  conditions : List (String × J)
  resources : List (String × J)

structure Resolved where
  params : List (String × J)
  conditions : List (String × Bool)
  resources : List (String × J)

/-- `CFModel.resolve(extra)` up to the final re-validation -/
def resolveT (pseudo : List (String × J)) (t : Tmpl) (extra : List (String × J)) : Option Resolved := do
  let params ← bind pseudo t.decls extra
  let table ← condTable t.conditions params t.mappings
  let res ← resolveResources ⟨params, t.mappings, table⟩ t.resources
  pure ⟨params, table, res⟩

end PycfModel.Template

namespace PycfModel.Template
open PycfModel PycfModel.Resolver

/-! ### Credential checks (`Resource.has_hardcoded_credentials`, `IAMUser.has_hardcoded_credentials`) -/

def authFields : List String := ["accessKeyId", "password", "secretKey"]

def isMarker (v : J) : Bool := v == .str Generated.noEchoNoDefault

/-- one entry of `AWS::CloudFormation::Authentication`: every credential field absent or the
    `NO_ECHO_NO_DEFAULT` marker -/
def authClean : J → Option Bool
  | .obj kvs => some (authFields.all fun f =>
      match J.lookup f kvs with
      | none => true
      | some v => isMarker v)
  | _ => none

def allClean : List (String × J) → Option Bool
  | [] => some true
  | (_, a) :: rest => do
    let c ← authClean a
    -- Python returns True at the first entry that is not clean (later entries are not inspected)
    if c then allClean rest else some false

/-- `Resource.has_hardcoded_credentials()` as a function of the resource's Metadata -/
def hardcodedMeta : J → Option Bool
  | .null => some false
  | .obj kvs =>
    match J.lookup "AWS::CloudFormation::Authentication" kvs with
    | none => some false
    | some a =>
      if !truthy a then some false
      else match a with
        | .obj auths => (allClean auths).map fun c => !c
        | _ => none
  | _ => none

/-- `IAMUser.has_hardcoded_credentials()` as a function of LoginProfile and Metadata -/
def hardcodedUser (loginProfile metadata : J) : Option Bool :=
  match loginProfile with
  | .null => hardcodedMeta metadata
  | .obj lp =>
    match J.lookup "Password" lp with
    | some pw => if truthy pw && !isMarker pw then some true else hardcodedMeta metadata
    | none => hardcodedMeta metadata
  | _ => none

end PycfModel.Template
