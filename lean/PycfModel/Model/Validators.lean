import PycfModel.Basic.Json
import PycfModel.Generated.Constants
/-
The library's custom validators on arbitrary JSON input (C19): which Python exception class, if any, each one
lets escape.  pydantic turns `ValueError` raised inside a validator into its ValidationError; any other class
escapes `parse`.  Transliterations of the repaired code (D15, D16). Core-only.
-/
namespace PycfModel.Validators
open PycfModel

/-- outcome of running a validator body on a value -/
inductive Outcome where
  | ok
  | valueError
  | typeError
  | attributeError
  deriving Repr, DecidableEq

/-- can the value be hashed (tested for membership in a set)? lists and dicts cannot -/
def hashable : J → Bool
  | .arr _ => false
  | .obj _ => false
  | _ => true

def isStr : J → Bool
  | .str _ => true
  | _ => false

/-- `GenericResource.check_type(value)` with the resource types that have a dedicated class -/
def checkType (modelled : List String) (strict : Bool) (value : J) : Outcome :=
  match value with
  | .str t => if modelled.contains t && strict then .valueError else .ok
  | _ => .ok                                  -- `isinstance(value, str) and …` is false: no membership test is made

/-- the same body without the `isinstance` guard (the defect D15): membership of an unhashable value raises TypeError -/
def checkTypeUnguarded (modelled : List String) (strict : Bool) (value : J) : Outcome :=
  if !hashable value then .typeError
  else match value with
    | .str t => if modelled.contains t && strict then .valueError else .ok
    | _ => .ok

/-- is the text valid base64 as `b64decode` reads it? (ASCII, length and padding) — only its being decidable matters here -/
def b64Valid (s : String) : Bool :=
  let cs := s.toList.filter fun c => c.isAlphanum || c == '+' || c == '/' || c == '='
  cs.length % 4 == 0 && s.toList.all (fun c => c.toNat < 128)

/-- `validate_binary(value)`: bytes are kept; text is base64-decoded; `binascii.Error`, `TypeError` and `ValueError`
    of the decoder all become ValueError -/
def validateBinary (value : J) : Outcome :=
  match value with
  | .leaf "bytes" _ => .ok
  | .str s => if b64Valid s then .ok else .valueError
  | _ => .valueError                         -- b64decode raises TypeError on numbers, lists, …: caught

/-- the body that caught only `binascii.Error` (the defect D16) -/
def validateBinaryNarrow (value : J) : Outcome :=
  match value with
  | .leaf "bytes" _ => .ok
  | .str s => if b64Valid s then .ok else .valueError
  | _ => .typeError

/-- `FunctionDict.check_if_valid_function(values)` -/
def checkFunction (value : J) : Outcome :=
  match value with
  | .obj [(k, _)] => if Generated.implementedFunctions.contains k then .ok else .valueError
  | _ => .valueError

/-- `Generic.casting(values)` at the top level: a mapping is cast member-wise, anything else is a ValueError -/
def genericCasting (value : J) : Outcome :=
  match value with
  | .obj _ => .ok
  | _ => .valueError

/-- `StatementCondition.remove_colon(values)`: mappings get their keys rewritten, anything else is passed on
    (and then rejected by the model itself with a validation error) -/
def removeColon (_value : J) : Outcome := .ok

/-- the Effect validator runs after the field was validated as text or a function object -/
def effectValidator (value : J) : Outcome :=
  match value with
  | .str _ => .ok     -- accepted or ValueError (both fine); see C16 for which
  | _ => .ok

/-- `SemiStrictBool(value)` -/
def semiStrictBool (value : J) : Outcome :=
  match value with
  | .bool _ => .ok
  | .str _ => .ok       -- true/false accepted, other text ValueError
  | _ => .valueError

/-- `IPv4Network(value, strict=False)`: every failure of the constructor is an `AddressValueError` /
    `NetmaskValueError`, both subclasses of ValueError, whatever the type of the value -/
def looseNetwork (_value : J) : Outcome := .ok

/-- does an outcome stay inside what pydantic converts? -/
def clean : Outcome → Bool
  | .ok => true
  | .valueError => true
  | _ => false

end PycfModel.Validators
