import PycfModel.Basic.Json
/-
C06 — the objects an API call can reach, the write sites of the library (extracted from the source into
Generated/Effects.lean) and what each of them writes to. Core-only.
-/
namespace PycfModel.World
open PycfModel

/-- what a write can land on -/
inductive Target where
  | template | extra | ctx | receiver | classLevel  -- observable: arguments, the model called on, library-level state
  | cache                                            -- the lazily built evaluator of a condition object
  | fresh                                            -- an object created during the call
  deriving DecidableEq, Repr

/-- a write statement of the source: the function it is in, the kind and name of the object written through, the operation -/
structure Site where
  fn : String
  kind : String
  root : String
  op : String
  deriving DecidableEq, Repr

/-- a call of a function that writes through parameter `param`: who calls, and what it passes there -/
structure Flow where
  callee : String
  param : String
  caller : String
  argKind : String
  argRoot : String
  deriving DecidableEq, Repr

/-- the argument is an object the caller created itself, or the callee's own (already judged) parameter on a recursive call -/
def flowOK (s : Site) (f : Flow) : Bool :=
  f.argKind == "fresh" || (f.caller == s.fn && f.argKind == "param" && f.argRoot == s.root)

/-- what a write site writes to -/
def classify (flows : List Flow) (s : Site) : Target :=
  if s.kind == "fresh" then .fresh
  else if s.kind == "self" then
    (if s.op == "setattr:_eval" && s.fn == "pycfmodel.model.resources.properties.statement_condition.StatementCondition.eval" then .cache else .receiver)
  else if s.kind == "param" then
    let fs := flows.filter fun f => f.callee == s.fn && f.param == s.root
    -- a parameter nobody inside the library passes is an argument of the API: the caller's object
    if !fs.isEmpty && fs.all (flowOK s) then .fresh else .extra
  else .classLevel  -- cls / global / an alias the extraction can not follow

def observable : Target → Bool
  | .fresh | .cache => false
  | _ => true

/-- no write site of the library lands on an argument, the receiver or library-level state -/
def effectsOK (sites : List Site) (flows : List Flow) : Bool :=
  sites.all fun s => !observable (classify flows s)

/-! ### The world and its steps -/

/-- everything a caller can observe -/
structure Obs where
  template : J
  extra : J
  ctx : J
  receiver : J
  classLevel : J
  deriving DecidableEq

/-- `E` = evaluators; the cache of a condition object holds one or nothing -/
structure W (E : Type) where
  obs : Obs
  cache : Option E

/-- one executed write: the site and the (arbitrary) new value it stores -/
structure Step where
  site : Site
  upd : J → J

/-- executing a write, according to where the site lands; a cache fill stores the evaluator built from the receiver -/
def step {E : Type} (flows : List Flow) (build : J → E) (w : W E) (st : Step) : W E :=
  match classify flows st.site with
  | .fresh => w
  | .cache => { w with cache := some (build w.obs.receiver) }
  | .template => { w with obs := { w.obs with template := st.upd w.obs.template } }
  | .extra => { w with obs := { w.obs with extra := st.upd w.obs.extra } }
  | .ctx => { w with obs := { w.obs with ctx := st.upd w.obs.ctx } }
  | .receiver => { w with obs := { w.obs with receiver := st.upd w.obs.receiver } }
  | .classLevel => { w with obs := { w.obs with classLevel := st.upd w.obs.classLevel } }

def run {E : Type} (flows : List Flow) (build : J → E) (w : W E) (steps : List Step) : W E :=
  steps.foldl (step flows build) w

/-- the cache holds nothing, or exactly the evaluator of the receiver -/
def CacheInv {E : Type} (build : J → E) (w : W E) : Prop :=
  w.cache = none ∨ w.cache = some (build w.obs.receiver)

/-- an API call: the writes it executes and its result, a function of what it can read -/
structure Call (E R : Type) where
  steps : List Step
  result : Obs → Option E → R

/-- calling a condition: the evaluator is built on first use and kept -/
def condResult {E R : Type} (build : J → E) (runE : E → J → R) (o : Obs) (cache : Option E) : R :=
  runE (cache.getD (build o.receiver)) o.ctx

end PycfModel.World
