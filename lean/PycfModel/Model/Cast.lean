import PycfModel.Basic.Json
import PycfModel.Basic.Text
import PycfModel.Model.Net
import PycfModel.Generated.Constants
/-
Generic property casting (C18): the control flow of `_Auxiliar.cast` / `Generic.casting` (with the repairs
of D13, D14, D30) over an `Engine` that records what pydantic-core and `json.loads` do on each leaf.
The engine is a parameter: its per-leaf soundness is checked against the text predicates below on every
observed leaf; the theorem in Props/C18 is about the control flow. Core-only.
-/
namespace PycfModel.Cast
open PycfModel PycfModel.Text

/-- what the trusted engine (json.loads, pydantic-core's lax validators) answers for a string leaf / an object -/
structure Engine where
  jsonLoads : String → Option J
  boolOf : String → Option Bool
  intOf : String → Option Int
  dateOf : String → Option String
  datetimeOf : String → Option String
  ip4Of : String → Option String
  ip6Of : String → Option String
  /-- an integral float (by its repr) read as an integer -/
  floatInt : String → Option Int
  /-- which member of the `Properties` union accepts this object (class name) -/
  propertyModel : J → Option String
  /-- for a string whose JSON text is a list: the list the left-to-right union makes of it (typed leaves as `J.leaf`) -/
  listUnion : String → Option (List J)

/-- result of casting -/
inductive CV where
  | null
  | bool (b : Bool)
  | int (i : Int)
  | num (repr : String)
  | str (s : String)
  | typed (kind : String) (payload : String)
  | list (xs : List CV)
  | generic (fields : List (String × CV))
  | model (cls : String) (raw : J)
  | fn (raw : J)
  deriving Inhabited

def isFunctionObj : List (String × J) → Bool
  | [(k, _)] => Generated.implementedFunctions.contains k
  | _ => false

/-- the scalar members of the union on a string, in the order of `AuxType`: bool, int, date, datetime, IP, string -/
def scalarUnion (E : Engine) (s : String) : CV :=
  match E.boolOf s with
  | some b => .bool b
  | none =>
  match E.intOf s with
  | some i => .int i
  | none =>
  match E.dateOf s with
  | some p => .typed "date" p
  | none =>
  match E.datetimeOf s with
  | some p => .typed "datetime" p
  | none =>
  match E.ip4Of s with
  | some p => .typed "ip4" p
  | none =>
  match E.ip6Of s with
  | some p => .typed "ip6" p
  | none => .str s

/-- a value that is already typed or a plain scalar is kept (`cast` returns it untouched) -/
def keepScalar : J → CV
  | .null => .null
  | .bool b => .bool b
  | .int i => .int i
  | .num r => .num r
  | .leaf k p => .typed k p
  | .str s => .str s
  | _ => .null

mutual
  /-- the structural part of `_Auxiliar.cast(value)`: lists element-wise, objects by the union's object members or
      field-wise, typed values and plain scalars kept; string leaves are handed to `onStr` -/
  def castWith (E : Engine) (onStr : String → CV) : J → CV
    | .null => .null
    | .bool b => .bool b
    | .int i => .int i
    | .num r => .num r
    | .leaf k p => .typed k p
    | .str s => onStr s
    | .arr xs => .list (castListWith E onStr xs)
    | .obj kvs =>
      if kvs.isEmpty then .generic []
      else if isFunctionObj kvs then .fn (.obj kvs)
      else match E.propertyModel (.obj kvs) with
        | some cls => .model cls (.obj kvs)
        | none => .generic (castMembersWith E onStr kvs)
  def castListWith (E : Engine) (onStr : String → CV) : List J → List CV
    | [] => []
    | x :: xs => castWith E onStr x :: castListWith E onStr xs
  def castMembersWith (E : Engine) (onStr : String → CV) : List (String × J) → List (String × CV)
    | [] => []
    | (k, v) :: rest => (k, castWith E onStr v) :: castMembersWith E onStr rest
end

/-- what becomes of a string whose JSON text decodes to `d` (`inner` casts the elements of a decoded list) -/
def fromDecoded (E : Engine) (inner : Option (String → CV)) (s : String) (d : J) : CV :=
  match d with
  | .null => .str s
  | .bool b => .bool b
  | .int i => .int i
  | .num r => (match E.floatInt r with | some i => .int i | none => .num r)
  | .leaf _ _ => .str s
  | .str _ => .str s  -- a quoted JSON string is text: kept with its quotes (D32)
  | .obj kvs =>
    if isFunctionObj kvs then .fn (.obj kvs)
    else match E.propertyModel (.obj kvs) with
      | some cls => .model cls (.obj kvs)
      | none => .str s
  | .arr _ =>
    match E.listUnion s, inner with
    | some ys, some f => .list (castListWith E f ys)
    | _, _ => .str s

/-- casting of a string leaf; `fuel` bounds the nesting of JSON text inside strings inside JSON text -/
def strCast (E : Engine) : Nat → String → CV
  | 0, s =>
    match E.jsonLoads s with
    | none => scalarUnion E s
    | some d => fromDecoded E none s d
  | fuel + 1, s =>
    match E.jsonLoads s with
    | none => scalarUnion E s
    | some d => fromDecoded E (some (strCast E fuel)) s d

/-- `_Auxiliar.cast(value)` -/
def cast (E : Engine) (fuel : Nat) (j : J) : CV := castWith E (strCast E fuel) j

/-! ### Text predicates: what it means for a conversion to denote the same thing -/

def isSpace (c : Char) : Bool := c == ' ' || c == '\t' || c == '\n' || c == '\r'

def stripSpaces (s : List Char) : List Char :=
  ((s.dropWhile isSpace).reverse.dropWhile isSpace).reverse

/-- digits with single underscores between digits -/
def digitsValue : List Char → Option Nat
  | [] => none
  | cs =>
    let noUnderscore := cs.filter (· != '_')
    if noUnderscore.isEmpty || !noUnderscore.all isDigit then none
    else if cs.head? == some '_' || cs.getLast? == some '_' then none
    else some (noUnderscore.foldl (fun acc c => acc * 10 + (c.toNat - '0'.toNat)) 0)

/-- integer text in the lax grammar: blanks, sign, digits (single underscores), an all-zero fraction -/
def intTextValue (s : List Char) : Option Int :=
  let t := stripSpaces s
  let (neg, body) := match t with
    | '-' :: r => (true, r)
    | '+' :: r => (false, r)
    | r => (false, r)
  let intPart := body.takeWhile (· != '.')
  let frac := body.dropWhile (· != '.')
  let fracOK := match frac with
    | [] => true
    | '.' :: zs => !zs.isEmpty && zs.all (· == '0')
    | _ => false
  if !fracOK then none
  else (digitsValue intPart).map fun n => if neg then -(Int.ofNat n) else Int.ofNat n

def twoDigits : List Char → Bool
  | [a, b] => isDigit a && isDigit b
  | _ => false

/-- `YYYY-MM-DD` -/
def isIsoDate (s : List Char) : Bool :=
  match s with
  | [y1, y2, y3, y4, '-', m1, m2, '-', d1, d2] =>
    isDigit y1 && isDigit y2 && isDigit y3 && isDigit y4 && isDigit m1 && isDigit m2 && isDigit d1 && isDigit d2
  | _ => false

/-- `YYYY-MM-DD` followed by `T` or a blank and a time `HH:MM…` (seconds, fraction, zone not inspected) -/
def isIsoTimestamp (s : List Char) : Bool :=
  isIsoDate (s.take 10) &&
    (match s.drop 10 with
     | sep :: h1 :: h2 :: ':' :: m1 :: m2 :: _ =>
       (sep == 'T' || sep == 't' || sep == ' ') && isDigit h1 && isDigit h2 && isDigit m1 && isDigit m2
     | _ => false)

/-- the zone a timestamp text carries after its `HH:MM`: `none` when it is naive, else sign and the four digits of
    `±HH:MM` (`Z` is `+00:00`; `±HHMM` and `±HH` are the same offsets written shorter) -/
def zoneOf (s : List Char) : Option (Bool × List Char) :=
  match (s.drop 16).dropWhile (fun c => !(c == '+' || c == '-' || c == 'Z' || c == 'z')) with
  | [] => none
  | c :: rest =>
    if c == 'Z' || c == 'z' then some (true, ['0', '0', '0', '0'])
    else
      let ds := (rest.filter isDigit).take 4
      some (c == '+' || ds.all (· == '0'), ds ++ List.replicate (4 - ds.length) '0')

/-- the rendered timestamp `p` (`YYYY-MM-DD HH:MM:SS[.ffffff][±HH:MM]`) says the day, the hour and minute and the zone
    that the text `s` says: a conversion that drops or shifts the zone denotes another instant -/
def sameInstantText (s p : List Char) : Bool :=
  s.take 10 == p.take 10 && (s.drop 11).take 5 == (p.drop 11).take 5 && zoneOf s == zoneOf p

/-- is the conversion of string `s` into `v` faithful? (decidable; evaluated on every observed leaf) -/
def leafSound (s : String) (v : CV) : Bool :=
  match v with
  | .bool b => lower s.toList == (if b then "true".toList else "false".toList)
  | .int i => intTextValue s.toList == some i
  | .typed "date" p => (isIsoDate s.toList && s == p) || (isIsoTimestamp s.toList && (s.toList.take 10 == p.toList))
  | .typed "datetime" p => (isIsoTimestamp s.toList && sameInstantText s.toList p.toList) ||
      (isIsoDate s.toList && s.toList == p.toList.take 10 && zoneOf p.toList == none)
  | .typed "ip4" p => (Net.parse4 s.toList).isSome && Net.parse4 s.toList == Net.parse4 p.toList
  | .typed "ip6" p => (Net.parse6 s.toList).isSome && Net.parse6 s.toList == Net.parse6 p.toList
  | .str t => s == t
  | _ => false

/-- the element `y` the union made of the decoded list element `x` is `x` itself or a faithful leaf conversion of it -/
def elemSound (E : Engine) (x y : J) : Bool :=
  x == y ||
  (match x, y with
   | .str s, .bool b => leafSound s (.bool b)
   | .str s, .int i => leafSound s (.int i)
   | .str s, .leaf k p => leafSound s (.typed k p)
   | .num r, .int i => E.floatInt r == some i
   | _, _ => false)

def elemsSound (E : Engine) : List J → List J → Bool
  | [], [] => true
  | x :: xs, y :: ys => elemSound E x y && elemsSound E xs ys
  | _, _ => false

end PycfModel.Cast
