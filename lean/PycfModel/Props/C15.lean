import PycfModel.Model.RoundTrip
set_option linter.unusedSimpArgs false
set_option linter.unusedVariables false
/-!
C15 — serialise / validate round trip is lossless.

`C15_cast_roundtrip`: for every JSON value `j`, casting the dump of the cast of `j` returns the cast of `j`
(the generic half of every model: unmodelled resources, unmodelled properties of modelled ones), over an arbitrary
engine that satisfies three stated laws. `C15_bool_*`, `C15_binary_*`, `C15_colon_*`: each custom leaf validator
accepts its own dump and returns it. The typed resource models are pydantic-core's: their round trip is checked on
the implementation only (see DESIGN.md, C15 partial).
-/
namespace PycfModel.Cast
open PycfModel PycfModel.Text

/-! ### Round-trippable values -/

mutual
  /-- `RT E g v`: every piece of `v` is re-read as itself — a string leaf is its own cast, a generic object is not
      taken for a property model or a function once its members are cast, a model / function object is recognised again -/
  def RT (E : Engine) (g : String → CV) : CV → Prop
    | .str s => g s = .str s
    | .list xs => RTList E g xs
    | .generic fs => (isFunctionObj (dumpMembers fs) = false ∧ E.propertyModel (.obj (dumpMembers fs)) = none) ∧ RTMembers E g fs
    | .model cls raw => ∃ kvs, raw = .obj kvs ∧ kvs.isEmpty = false ∧ isFunctionObj kvs = false ∧ E.propertyModel (.obj kvs) = some cls
    | .fn raw => ∃ kvs, raw = .obj kvs ∧ isFunctionObj kvs = true
    | _ => True
  def RTList (E : Engine) (g : String → CV) : List CV → Prop
    | [] => True
    | x :: xs => RT E g x ∧ RTList E g xs
  def RTMembers (E : Engine) (g : String → CV) : List (String × CV) → Prop
    | [] => True
    | (_, v) :: rest => RT E g v ∧ RTMembers E g rest
end

theorem isFunctionObj_nonempty (kvs : List (String × J)) (h : isFunctionObj kvs = true) : kvs.isEmpty = false := by
  cases kvs with
  | nil => simp [isFunctionObj] at h
  | cons a r => rfl

mutual
  /-- a round-trippable value is returned by casting its dump -/
  theorem rt_sound (E : Engine) (g : String → CV) (hE : E.propertyModel (.obj []) = none) :
      (v : CV) → RT E g v → castWith E g (dump v) = v
    | .null, _ => by simp [dump, castWith]
    | .bool _, _ => by simp [dump, castWith]
    | .int _, _ => by simp [dump, castWith]
    | .num _, _ => by simp [dump, castWith]
    | .typed _ _, _ => by simp [dump, castWith]
    | .str s, h => by simpa [dump, castWith, RT] using h
    | .list xs, h => by
      simp only [dump, castWith]
      rw [rt_sound_list E g hE xs (by simpa [RT] using h)]
    | .generic fs, h => by
      have h' : (isFunctionObj (dumpMembers fs) = false ∧ E.propertyModel (.obj (dumpMembers fs)) = none) ∧ RTMembers E g fs := by
        simpa [RT] using h
      simp only [dump, castWith]
      cases hfs : fs with
      | nil => simp [dumpMembers]
      | cons a r =>
        obtain ⟨k, v⟩ := a
        have hne : (dumpMembers ((k, v) :: r)).isEmpty = false := by simp [dumpMembers]
        rw [hfs] at h'
        simp only [hne, h'.1.1, h'.1.2, Bool.false_eq_true, if_false]
        rw [rt_sound_members E g hE _ h'.2]
    | .model cls raw, h => by
      obtain ⟨kvs, hr, hne, hf, hm⟩ : ∃ kvs, raw = .obj kvs ∧ kvs.isEmpty = false ∧ isFunctionObj kvs = false ∧ E.propertyModel (.obj kvs) = some cls := by
        simpa [RT] using h
      subst hr
      simp [dump, castWith, hne, hf, hm]
    | .fn raw, h => by
      obtain ⟨kvs, hr, hf⟩ : ∃ kvs, raw = .obj kvs ∧ isFunctionObj kvs = true := by simpa [RT] using h
      subst hr
      simp [dump, castWith, isFunctionObj_nonempty kvs hf, hf]
  theorem rt_sound_list (E : Engine) (g : String → CV) (hE : E.propertyModel (.obj []) = none) :
      (xs : List CV) → RTList E g xs → castListWith E g (dumpList xs) = xs
    | [], _ => by simp [dumpList, castListWith]
    | x :: xs, h => by
      have h' : RT E g x ∧ RTList E g xs := by simpa [RTList] using h
      simp only [dumpList, castListWith, rt_sound E g hE x h'.1, rt_sound_list E g hE xs h'.2]
  theorem rt_sound_members (E : Engine) (g : String → CV) (hE : E.propertyModel (.obj []) = none) :
      (fs : List (String × CV)) → RTMembers E g fs → castMembersWith E g (dumpMembers fs) = fs
    | [], _ => by simp [dumpMembers, castMembersWith]
    | (k, v) :: rest, h => by
      have h' : RT E g v ∧ RTMembers E g rest := by simpa [RTMembers] using h
      simp only [dumpMembers, castMembersWith, rt_sound E g hE v h'.1, rt_sound_members E g hE rest h'.2]
end

/-! ### Every cast value is round-trippable -/

/-- the laws of the engine the theorem needs (each is evaluated on every object / string the check observes) -/
structure Laws (E : Engine) (g : String → CV) : Prop where
  /-- an empty object is no property model (`_Auxiliar`'s validator rejects it) -/
  empty : E.propertyModel (.obj []) = none
  /-- an object that is no property model is none either once its members are cast (typed members are accepted
      wherever their text was, never the other way round) -/
  generic : ∀ kvs, E.propertyModel (.obj kvs) = none → E.propertyModel (.obj (dumpMembers (castMembersWith E g kvs))) = none
  /-- `g` is the string cast: one level of decoding over itself (no fuel ran out) -/
  fix : ∀ s, g s = strStep E g s

theorem isFunctionObj_cast (E : Engine) (g : String → CV) (kvs : List (String × J)) :
    isFunctionObj (dumpMembers (castMembersWith E g kvs)) = isFunctionObj kvs := by
  match kvs with
  | [] => rfl
  | [(k, v)] => simp [castMembersWith, dumpMembers, isFunctionObj]
  | (k, v) :: (k2, v2) :: r => simp [castMembersWith, dumpMembers, isFunctionObj]

theorem scalarUnion_cases (E : Engine) (s : String) :
    (∃ b, scalarUnion E s = .bool b) ∨ (∃ i, scalarUnion E s = .int i) ∨ (∃ k p, scalarUnion E s = .typed k p) ∨ scalarUnion E s = .str s := by
  unfold scalarUnion
  repeat' split
  all_goals simp

theorem rt_of_scalarUnion (E : Engine) (g : String → CV) (s : String) (hs : g s = scalarUnion E s) : RT E g (scalarUnion E s) := by
  rcases scalarUnion_cases E s with ⟨b, h⟩ | ⟨i, h⟩ | ⟨k, p, h⟩ | h
  · rw [h]; simp [RT]
  · rw [h]; simp [RT]
  · rw [h]; simp [RT]
  · rw [h]; simp only [RT]; rw [hs, h]

theorem sz_pos (v : CV) : 0 < v.sz := by cases v <;> simp [CV.sz] <;> omega

/-- all values below a size are round-trippable whenever they are casts -/
def Below (E : Engine) (g : String → CV) (n : Nat) : Prop := ∀ v : CV, v.sz ≤ n → ∀ y, castWith E g y = v → RT E g v

theorem rt_list_of_below (E : Engine) (g : String → CV) (n : Nat) (ih : Below E g n) :
    ∀ xs : List J, szList (castListWith E g xs) ≤ n → RTList E g (castListWith E g xs)
  | [], _ => by simp [castListWith, RTList]
  | x :: xs, h => by
    simp only [castListWith, szList] at h
    simp only [castListWith, RTList]
    exact ⟨ih _ (by omega) x rfl, rt_list_of_below E g n ih xs (by omega)⟩

theorem rt_members_of_below (E : Engine) (g : String → CV) (n : Nat) (ih : Below E g n) :
    ∀ kvs : List (String × J), szMembers (castMembersWith E g kvs) ≤ n → RTMembers E g (castMembersWith E g kvs)
  | [], _ => by simp [castMembersWith, RTMembers]
  | (k, v) :: rest, h => by
    simp only [castMembersWith, szMembers] at h
    simp only [castMembersWith, RTMembers]
    exact ⟨ih _ (by omega) v rfl, rt_members_of_below E g n ih rest (by omega)⟩

theorem rt_obj (E : Engine) (g : String → CV) (L : Laws E g) (n : Nat) (ih : Below E g n) (kvs : List (String × J))
    (hsz : (castWith E g (.obj kvs)).sz ≤ n + 1) : RT E g (castWith E g (.obj kvs)) := by
  simp only [castWith] at hsz ⊢
  by_cases he : kvs.isEmpty = true
  · simp only [he, if_true]
    simp [RT, RTMembers, dumpMembers, isFunctionObj, L.empty]
  · have he' : kvs.isEmpty = false := by simpa using he
    simp only [he', Bool.false_eq_true, if_false] at hsz ⊢
    by_cases hf : isFunctionObj kvs = true
    · simp only [hf, if_true]
      simp only [RT]; exact ⟨kvs, rfl, hf⟩
    · have hf' : isFunctionObj kvs = false := by simpa using hf
      simp only [hf', Bool.false_eq_true, if_false] at hsz ⊢
      cases hm : E.propertyModel (.obj kvs) with
      | some cls => simp only [RT]; exact ⟨kvs, rfl, he', hf', hm⟩
      | none =>
        simp only [hm] at hsz
        simp only [RT]
        refine ⟨⟨?_, L.generic kvs hm⟩, rt_members_of_below E g n ih kvs (by simp only [CV.sz] at hsz; omega)⟩
        rw [isFunctionObj_cast]; exact hf'

theorem rt_str (E : Engine) (g : String → CV) (L : Laws E g) (n : Nat) (ih : Below E g n) (s : String)
    (hsz : (g s).sz ≤ n + 1) : RT E g (g s) := by
  have hfix := L.fix s
  unfold strStep at hfix
  cases hj : E.jsonLoads s with
  | none =>
    simp only [hj] at hfix
    rw [hfix]; exact rt_of_scalarUnion E g s hfix
  | some d =>
    simp only [hj] at hfix
    have hself : ∀ v, g s = v → v = .str s → RT E g v := by
      intro v h1 h2; subst h2; simpa [RT] using h1
    cases d with
    | null => exact hself _ rfl (by rw [hfix]; simp [fromDecoded])
    | leaf k p => exact hself _ rfl (by rw [hfix]; simp [fromDecoded])
    | str t => exact hself _ rfl (by rw [hfix]; simp [fromDecoded])
    | bool b => rw [hfix]; simp [fromDecoded, RT]
    | int i => rw [hfix]; simp [fromDecoded, RT]
    | num r =>
      rw [hfix]; simp only [fromDecoded]
      cases E.floatInt r <;> simp [RT]
    | obj kvs =>
      simp only [fromDecoded] at hfix
      by_cases hf : isFunctionObj kvs = true
      · simp only [hf, if_true] at hfix
        rw [hfix]; simp only [RT]; exact ⟨kvs, rfl, hf⟩
      · have hf' : isFunctionObj kvs = false := by simpa using hf
        simp only [hf', Bool.false_eq_true, if_false] at hfix
        cases hm : E.propertyModel (.obj kvs) with
        | some cls =>
          simp only [hm] at hfix
          rw [hfix]; simp only [RT]
          refine ⟨kvs, rfl, ?_, hf', hm⟩
          cases kvs with
          | nil => rw [L.empty] at hm; cases hm
          | cons a r => rfl
        | none =>
          simp only [hm] at hfix
          exact hself _ rfl hfix
    | arr xs =>
      simp only [fromDecoded] at hfix
      cases hl : E.listUnion s with
      | none => simp only [hl] at hfix; exact hself _ rfl hfix
      | some ys =>
        simp only [hl] at hfix
        rw [hfix] at hsz ⊢
        simp only [RT]
        exact rt_list_of_below E g n ih ys (by simp only [CV.sz] at hsz; omega)

/-- every cast is round-trippable (strong induction on the size of the result) -/
theorem rt_below (E : Engine) (g : String → CV) (L : Laws E g) : ∀ n, Below E g n
  | 0 => by intro v hv; have := sz_pos v; omega
  | n + 1 => by
    have ih := rt_below E g L n
    intro v hv y hy
    subst hy
    cases y with
    | null => simp [castWith, RT]
    | bool b => simp [castWith, RT]
    | int i => simp [castWith, RT]
    | num r => simp [castWith, RT]
    | leaf k p => simp [castWith, RT]
    | str s => simp only [castWith] at hv ⊢; exact rt_str E g L n ih s hv
    | arr xs =>
      simp only [castWith] at hv ⊢
      simp only [RT]
      exact rt_list_of_below E g n ih xs (by simp only [CV.sz] at hv; omega)
    | obj kvs => exact rt_obj E g L n ih kvs hv

/-- C15_cast_roundtrip_general: over any string cast `g` that is its own one-level unfolding -/
theorem C15_cast_roundtrip_general (E : Engine) (g : String → CV) (L : Laws E g) (j : J) :
    castWith E g (dump (castWith E g j)) = castWith E g j :=
  rt_sound E g L.empty _ (rt_below E g L _ _ (Nat.le_refl _) j rfl)

theorem strCast_succ (E : Engine) (k : Nat) (s : String) : strCast E (k + 1) s = strStep E (strCast E k) s := by
  simp only [strCast, strStep]
  cases E.jsonLoads s <;> rfl

/-- C15_cast_roundtrip: `cast (dump (cast j)) = cast j` for every JSON value, whenever the fuel sufficed
    (one more level changes nothing) and the engine satisfies the two object laws -/
theorem C15_cast_roundtrip (E : Engine) (fuel : Nat)
    (hfuel : ∀ s, strCast E (fuel + 1) s = strCast E fuel s)
    (hempty : E.propertyModel (.obj []) = none)
    (hgeneric : ∀ kvs, E.propertyModel (.obj kvs) = none →
      E.propertyModel (.obj (dumpMembers (castMembersWith E (strCast E fuel) kvs))) = none)
    (j : J) : cast E fuel (dump (cast E fuel j)) = cast E fuel j :=
  C15_cast_roundtrip_general E (strCast E fuel)
    ⟨hempty, hgeneric, fun s => by rw [← strCast_succ, hfuel]⟩ j

/-! ### The excluded point, before the repair of D32: a quoted JSON string did not round-trip -/

/-- the engine on the two strings `"\"[1]\""` and `"[1]"` (what json.loads answers) -/
def quotedEngine : Engine :=
  { jsonLoads := fun s => if s = "\"[1]\"" then some (.str "[1]") else if s = "[1]" then some (.arr [.int 1]) else none
    boolOf := fun _ => none, intOf := fun _ => none, dateOf := fun _ => none, datetimeOf := fun _ => none
    ip4Of := fun _ => none, ip6Of := fun _ => none, floatInt := fun _ => none, propertyModel := fun _ => none
    listUnion := fun s => if s = "[1]" then some [.int 1] else none }

/-- the string cast before the repair: a decoded JSON string was unwrapped and cast as a scalar -/
def strCastOld (E : Engine) (fuel : Nat) (s : String) : CV :=
  match E.jsonLoads s with
  | some (.str t) => scalarUnion E t
  | _ => strCast E fuel s

/-- C15_quoted_json_needed_repair: with the unwrapping, the dump of the cast of `"\"[1]\""` is re-read as a list -/
theorem C15_quoted_json_needed_repair :
    strCastOld quotedEngine 2 "\"[1]\"" = .str "[1]" ∧ strCastOld quotedEngine 2 "[1]" = .list [.int 1] := by
  constructor <;> simp [strCastOld, quotedEngine, scalarUnion, strCast, fromDecoded, castListWith, castWith]

/-! ### Leaf validators accept their own dumps -/

/-- C15_bool_roundtrip: whatever `SemiStrictBool` accepted, it accepts the bool it dumps, with the same result -/
theorem C15_bool_roundtrip (x : J) (b : Bool) (h : semiBool x = some b) : semiBool (.bool b) = some b := rfl

/-- C15_binary_roundtrip: the bytes a binary value dumps are accepted and returned unchanged -/
theorem C15_binary_roundtrip (x : BinIn) (b : List Nat) (h : validateBinary x = some b) : validateBinary (.bytes b) = some b := rfl

/-- C15_binary_guard_needed: decoding the bytes again (the code before the repair of D12) changes `QUJDRA==`
    (b"ABCD" → b"\x00\x10\x83") and rejects `QQ==` (b"A") -/
theorem C15_binary_guard_needed :
    validateBinaryOld (.text "QUJDRA==".toList) = some [65, 66, 67, 68] ∧
    validateBinaryOld (.bytes [65, 66, 67, 68]) = some [0, 16, 131] ∧
    validateBinaryOld (.text "QQ==".toList) = some [65] ∧
    validateBinaryOld (.bytes [65]) = none := by decide +kernel

/-- C15_colon_roundtrip: operator names dump without colons, and removing colons again changes nothing -/
theorem C15_colon_roundtrip (s : List Char) : removeColon (removeColon s) = removeColon s := by
  simp [removeColon, List.filter_filter]

theorem C15_colon_example : removeColon "ForAllValues:StringLike".toList = "ForAllValuesStringLike".toList := by decide +kernel

-- Non-vacuity: an engine with a date, a JSON list text and a property model satisfies the laws at fuel 2
def sampleEngine : Engine :=
  { jsonLoads := fun s => if s = "[\"2019-12-04\",5]" then some (.arr [.str "2019-12-04", .int 5]) else none
    boolOf := fun _ => none, intOf := fun _ => none
    dateOf := fun s => if s = "2019-12-04" then some "2019-12-04" else none
    datetimeOf := fun _ => none, ip4Of := fun _ => none, ip6Of := fun _ => none, floatInt := fun _ => none
    propertyModel := fun _ => none
    listUnion := fun s => if s = "[\"2019-12-04\",5]" then some [.leaf "date" "2019-12-04", .int 5] else none }

example : cast sampleEngine 2 (.obj [("When", .str "[\"2019-12-04\",5]")]) =
    .generic [("When", .list [.typed "date" "2019-12-04", .int 5])] := by
  simp [cast, castWith, castMembersWith, strCast, sampleEngine, isFunctionObj, fromDecoded, castListWith]
  decide +kernel

end PycfModel.Cast
