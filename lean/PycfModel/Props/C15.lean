import PycfModel.Model.Cast
namespace PycfModel.Cast
theorem C15_placeholder : True := trivial
end PycfModel.Cast
