import PycfModel.Model.Net
import PycfModel.Generated.Net
set_option linter.unusedSimpArgs false
/-!
C17 — network exposure predicates reflect the address range actually denoted.
-/
namespace PycfModel.Net
open PycfModel.Text

/-! ### Splitting -/

theorem splitOn1_no (c : Char) (a : List Char) (h : c ∉ a) : splitOn1 c a = [a] := by
  induction a with
  | nil => rfl
  | cons x xs ih =>
    have hx : x ≠ c := fun e => h (by simp [e])
    have hxs : c ∉ xs := fun m => h (by simp [m])
    simp [splitOn1, hx, ih hxs]

theorem splitOn1_append (c : Char) (a rest : List Char) (h : c ∉ a) :
    splitOn1 c (a ++ c :: rest) = a :: splitOn1 c rest := by
  induction a with
  | nil => simp [splitOn1]
  | cons x xs ih =>
    have hx : x ≠ c := fun e => h (by simp [e])
    have hxs : c ∉ xs := fun m => h (by simp [m])
    simp [splitOn1, hx, ih hxs]

/-! ### Octets and dotted quads: every value, by complete enumeration in the kernel -/

def octetText (n : Nat) : List Char := Nat.toDigits 10 n

theorem octets_roundtrip_all :
    (List.range 256).all (fun n => parseOctet (octetText n) == some n && !(octetText n).contains '.' &&
      !(octetText n).contains '/') = true := by decide +kernel

theorem octet_roundtrip (n : Nat) (h : n < 256) :
    parseOctet (octetText n) = some n ∧ '.' ∉ octetText n ∧ '/' ∉ octetText n := by
  have := List.all_eq_true.mp octets_roundtrip_all n (List.mem_range.mpr h)
  simp only [Bool.and_eq_true, beq_iff_eq, Bool.not_eq_true', List.contains_eq_mem, decide_eq_false_iff_not] at this
  exact ⟨this.1.1, this.1.2, this.2⟩

/-- the dotted-quad spelling of four octets -/
def quadText (a b c d : Nat) : List Char :=
  octetText a ++ '.' :: (octetText b ++ '.' :: (octetText c ++ '.' :: octetText d))

theorem quadText_ne_nil (a b c d : Nat) : (quadText a b c d).isEmpty = false := by
  simp [quadText]

/-- C17_parse_quad: every dotted quad of octets 0–255 denotes the 32-bit integer with those bytes -/
theorem C17_parse_quad (a b c d : Nat) (ha : a < 256) (hb : b < 256) (hc : c < 256) (hd : d < 256) :
    parseQuad (quadText a b c d) = some (((a * 256 + b) * 256 + c) * 256 + d) := by
  obtain ⟨pa, na, _⟩ := octet_roundtrip a ha
  obtain ⟨pb, nb, _⟩ := octet_roundtrip b hb
  obtain ⟨pc, nc, _⟩ := octet_roundtrip c hc
  obtain ⟨pd, nd, _⟩ := octet_roundtrip d hd
  unfold parseQuad
  rw [quadText_ne_nil]
  simp only [Bool.false_eq_true, if_false]
  unfold quadText
  rw [splitOn1_append _ _ _ na, splitOn1_append _ _ _ nb, splitOn1_append _ _ _ nc, splitOn1_no _ _ nd]
  simp [pa, pb, pc, pd, combine]

theorem quadText_no_slash (a b c d : Nat) (ha : a < 256) (hb : b < 256) (hc : c < 256) (hd : d < 256) :
    '/' ∉ quadText a b c d := by
  obtain ⟨_, _, sa⟩ := octet_roundtrip a ha
  obtain ⟨_, _, sb⟩ := octet_roundtrip b hb
  obtain ⟨_, _, sc⟩ := octet_roundtrip c hc
  obtain ⟨_, _, sd⟩ := octet_roundtrip d hd
  simp only [quadText, List.mem_append, List.mem_cons, not_or]
  refine ⟨sa, by decide, sb, by decide, sc, by decide, sd⟩

/-! ### The three spellings of a prefix length: complete enumeration of the 33 lengths -/

def netmaskInt (l : Nat) : Nat := 2 ^ 32 - 2 ^ (32 - l)
def hostmaskInt (l : Nat) : Nat := 2 ^ (32 - l) - 1
def intQuadText (n : Nat) : List Char :=
  quadText (n / 16777216 % 256) (n / 65536 % 256) (n / 256 % 256) (n % 256)

/-- C17_prefix_spellings: for every prefix length 0–32, the decimal form (also with a leading zero), the dotted
    netmask and (for 0 < l < 32) the dotted hostmask all denote that length; none of them contains `/` -/
theorem C17_prefix_spellings :
    (List.range 33).all (fun l =>
      parsePrefix4 (Nat.toDigits 10 l) == some l &&
      parsePrefix4 ('0' :: Nat.toDigits 10 l) == some l &&
      parsePrefix4 (intQuadText (netmaskInt l)) == some l &&
      (l == 0 || l == 32 || parsePrefix4 (intQuadText (hostmaskInt l)) == some l) &&
      !(Nat.toDigits 10 l).contains '/' && !(intQuadText (netmaskInt l)).contains '/' &&
      !(intQuadText (hostmaskInt l)).contains '/') = true := by decide +kernel

/-! ### Whole networks -/

/-- C17_parse4: address text `/` prefix text is stored as the network it denotes, host bits masked off —
    for every dotted quad and every spelling of the prefix that denotes `l` -/
theorem C17_parse4 (a b c d : Nat) (ha : a < 256) (hb : b < 256) (hc : c < 256) (hd : d < 256)
    (p : List Char) (l : Nat) (hp : parsePrefix4 p = some l) (hs : '/' ∉ p) :
    parse4 (quadText a b c d ++ '/' :: p) =
      some (maskAddr 32 (((a * 256 + b) * 256 + c) * 256 + d) l, l) := by
  unfold parse4
  rw [splitOn1_append _ _ _ (quadText_no_slash a b c d ha hb hc hd), splitOn1_no _ _ hs]
  simp [C17_parse_quad a b c d ha hb hc hd, hp]

/-- a bare address is the /32 network of that address -/
theorem C17_parse4_bare (a b c d : Nat) (ha : a < 256) (hb : b < 256) (hc : c < 256) (hd : d < 256) :
    parse4 (quadText a b c d) = some (((a * 256 + b) * 256 + c) * 256 + d, 32) := by
  unfold parse4
  rw [splitOn1_no _ _ (quadText_no_slash a b c d ha hb hc hd)]
  simp [C17_parse_quad a b c d ha hb hc hd]

/-- C17_masked: the stored network address has no host bits, is the start of the block containing the
    written address, and the written address lies in the stored network -/
theorem C17_masked (bits addr l : Nat) :
    maskAddr bits addr l % 2 ^ (bits - l) = 0 ∧ maskAddr bits addr l ≤ addr ∧
    addr < maskAddr bits addr l + 2 ^ (bits - l) := by
  unfold maskAddr
  have hpos : 0 < 2 ^ (bits - l) := Nat.two_pow_pos _
  refine ⟨Nat.mul_mod_left _ _, Nat.div_mul_le_self _ _, ?_⟩
  have := Nat.div_add_mod addr (2 ^ (bits - l))
  have hm := Nat.mod_lt addr hpos
  rw [Nat.mul_comm] at this
  omega

theorem maskAddr_idem (bits addr l : Nat) : maskAddr bits (maskAddr bits addr l) l = maskAddr bits addr l := by
  unfold maskAddr
  have hpos : 0 < 2 ^ (bits - l) := Nat.two_pow_pos _
  rw [Nat.mul_div_cancel _ hpos]

/-! ### Slash zero -/

/-- C17_absent_false: an absent CIDR field is not slash-zero -/
theorem C17_absent_false : slashZero none = false := rfl

/-- C17_slash_zero: for a stored (masked, in-range) network, slash-zero holds exactly when the prefix length is 0,
    i.e. exactly when the network is the entire address space -/
theorem C17_slash_zero (bits addr l : Nat) (hl : l ≤ bits) (ha : addr < 2 ^ bits) :
    (slashZero (some (maskAddr bits addr l, l)) = true ↔ l = 0) ∧
    (l = 0 ↔ ∀ ip, ip < 2 ^ bits → maskAddr bits addr l ≤ ip ∧ ip < maskAddr bits addr l + 2 ^ (bits - l)) := by
  have hpos : 0 < 2 ^ (bits - l) := Nat.two_pow_pos _
  constructor
  · simp only [slashZero, Bool.and_eq_true, beq_iff_eq]
    constructor
    · exact fun h => h.2
    · intro h; subst h
      refine ⟨?_, rfl⟩
      simp [maskAddr, Nat.div_eq_of_lt ha]
  · constructor
    · intro h; subst h
      intro ip hip
      have : maskAddr bits addr 0 = 0 := by simp [maskAddr, Nat.div_eq_of_lt ha]
      simp [this, hip]
    · intro h
      apply Classical.byContradiction
      intro hne
      have hlt : 2 ^ (bits - l) < 2 ^ bits := Nat.pow_lt_pow_right (by decide) (by omega)
      have m := C17_masked bits addr l
      -- the block has fewer than 2^bits addresses, so 0 or the last address lies outside it
      have h0 := h 0 (Nat.two_pow_pos _)
      have hlast := h (2 ^ bits - 1) (by have : 0 < 2 ^ bits := Nat.two_pow_pos _; omega)
      omega

/-- the constants the predicates compare with are the all-zero /0 networks -/
theorem C17_zero_constants : parse4 "0.0.0.0/0".toList = some (0, 0) ∧ parse6 "::/0".toList = some (0, 0) := by
  constructor <;> decide +kernel

/-! ### RDS is_public -/

/-- C17_rds_public: public exactly when there is neither a CIDR nor a source security group, or the CIDR is
    0.0.0.0/0, or it lies in globally routable space (in no private range and not in the shared range) -/
theorem C17_rds_public (T : List (Nat × Nat)) (S : Nat × Nat) (cidr : Option (Nat × Nat)) (g : Bool) :
    isPublic T S cidr g = true ↔
      (cidr = none ∧ g = false) ∨
      (∃ n, cidr = some n ∧ (n = (0, 0) ∨ (subnetOf 32 n S = false ∧ ∀ r ∈ T, subnetOf 32 n r = false))) := by
  cases cidr with
  | none => simp [isPublic]
  | some n =>
    obtain ⟨a, l⟩ := n
    simp only [isPublic, isGlobal4, Bool.or_eq_true, Bool.and_eq_true, beq_iff_eq, Bool.not_eq_true',
      List.any_eq_false, reduceCtorEq, false_and, false_or, Option.some.injEq, exists_eq_left', Prod.mk.injEq]
    constructor
    · rintro (h | ⟨h1, h2⟩)
      · exact Or.inl h
      · exact Or.inr ⟨h1, fun r hr => by simpa using h2 r hr⟩
    · rintro (h | ⟨h1, h2⟩)
      · exact Or.inl h
      · exact Or.inr ⟨h1, fun r hr => by simpa using h2 r hr⟩

/-- C17_private_not_public: a CIDR that lies inside a private range (and is not 0.0.0.0/0) is not public -/
theorem C17_private_not_public (T : List (Nat × Nat)) (S : Nat × Nat) (n r : Nat × Nat) (g : Bool)
    (hr : r ∈ T) (hsub : subnetOf 32 n r = true) (hz : n ≠ (0, 0)) : isPublic T S (some n) g = false := by
  obtain ⟨a, l⟩ := n
  have hany : (T.any fun r => subnetOf 32 (a, l) r) = true := List.any_eq_true.mpr ⟨r, hr, hsub⟩
  have hz' : (a == 0 && l == 0) = false := by
    cases h : (a == 0 && l == 0) with
    | false => rfl
    | true =>
      simp only [Bool.and_eq_true, beq_iff_eq] at h
      exact absurd (by rw [h.1, h.2]) hz
  simp [isPublic, isGlobal4, hany, hz']

/-- C17_shared_not_public: a CIDR inside the shared address space 100.64.0.0/10 (RFC 6598: neither private nor
    globally routable) is not public either — "not private" is not the test. -/
theorem C17_shared_not_public (T : List (Nat × Nat)) (S : Nat × Nat) (n : Nat × Nat) (g : Bool)
    (hsub : subnetOf 32 n S = true) (hz : n ≠ (0, 0)) : isPublic T S (some n) g = false := by
  obtain ⟨a, l⟩ := n
  have hz' : (a == 0 && l == 0) = false := by
    cases h : (a == 0 && l == 0) with
    | false => rfl
    | true =>
      simp only [Bool.and_eq_true, beq_iff_eq] at h
      exact absurd (by rw [h.1, h.2]) hz
  simp [isPublic, isGlobal4, hsub, hz']

/-- containment of networks is reflexive and transitive -/
theorem subnetOf_refl (bits : Nat) (a : Nat × Nat) : subnetOf bits a a = true := by
  simp [subnetOf]

theorem subnetOf_trans (bits : Nat) (a b c : Nat × Nat) (h₁ : subnetOf bits a b = true)
    (h₂ : subnetOf bits b c = true) : subnetOf bits a c = true := by
  simp only [subnetOf, Bool.and_eq_true, decide_eq_true_eq] at *
  exact ⟨Nat.le_trans h₂.1 h₁.1, Nat.le_trans h₁.2 h₂.2⟩

/-- C17_narrower_stays_private: every network contained in a non-public one (inside a private range or the shared
    space) is itself not public, whatever its prefix length — narrowing a rule can never expose it. -/
theorem C17_narrower_stays_private (T : List (Nat × Nat)) (S : Nat × Nat) (n m r : Nat × Nat) (g : Bool)
    (hr : r ∈ T ∨ r = S) (hm : subnetOf 32 m r = true) (hn : subnetOf 32 n m = true) (hz : n ≠ (0, 0)) :
    isPublic T S (some n) g = false := by
  have hsub := subnetOf_trans 32 n m r hn hm
  rcases hr with hr | rfl
  · exact C17_private_not_public T S n r g hr hsub hz
  · exact C17_shared_not_public T r n g hsub hz

/-- C17_source_group_irrelevant: once a CIDR is present, the source security group plays no part. -/
theorem C17_source_group_irrelevant (T : List (Nat × Nat)) (S : Nat × Nat) (n : Nat × Nat) (g g' : Bool) :
    isPublic T S (some n) g = isPublic T S (some n) g' := rfl

/-- the regenerated table of the running interpreter contains the RFC 1918 ranges, loopback and link-local -/
theorem C17_private_table :
    (167772160, 8) ∈ Generated.privateTable4 ∧ (2886729728, 12) ∈ Generated.privateTable4 ∧
    (3232235520, 16) ∈ Generated.privateTable4 ∧ (2130706432, 8) ∈ Generated.privateTable4 ∧
    (2851995648, 16) ∈ Generated.privateTable4 ∧ Generated.sharedRange4 = (1681915904, 10) := by decide

-- Non-vacuity
example : parse4 "10.1.2.3/8".toList = some (167772160, 8) := by decide +kernel
example : parse4 "10.1.2.3/255.255.0.0".toList = some (167837696, 16) := by decide +kernel
example : parse4 "10.1.2.3/0.0.255.255".toList = some (167837696, 16) := by decide +kernel
example : parse4 "01.2.3.4/8".toList = none := by decide +kernel
example : parse6 "2001:DB8::1/32".toList = some (42540766411282592856903984951653826560, 32) := by decide +kernel
example : parse6 "::ffff:10.1.2.3/128".toList = some (281470849581571, 128) := by decide +kernel
example : isPublic Generated.privateTable4 Generated.sharedRange4 (parse4 "10.0.0.0/8".toList) false = false := by decide +kernel
example : isPublic Generated.privateTable4 Generated.sharedRange4 (parse4 "8.8.8.0/24".toList) false = true := by decide +kernel
example : isPublic Generated.privateTable4 Generated.sharedRange4 (parse4 "100.64.3.7/16".toList) false = false ∧
    subnetOf 32 (1681915904, 16) Generated.sharedRange4 = true := by decide +kernel
example : isPublic Generated.privateTable4 Generated.sharedRange4 (parse4 "100.128.0.0/16".toList) false = true := by decide +kernel
example : isPublic Generated.privateTable4 Generated.sharedRange4 (parse4 "0.0.0.0/0".toList) false = true := by decide +kernel

end PycfModel.Net
