import PycfModel.Model.Template
import PycfModel.Lemmas.ResolveExt
import PycfModel.Lemmas.Lookup
/-!
C07 — resolution is local and independent of declaration order.

The resolved form of a resource is a function of that resource's own definition and of what the
environment answers to lookups by name; nothing else of the template enters.
-/
namespace PycfModel.Template
open PycfModel PycfModel.Resolver

theorem resolveResources_keys (env : Env) :
    ∀ (res out : List (String × J)), resolveResources env res = some out →
      ∀ k, k ∈ out.map (·.1) → k ∈ res.map (·.1)
  | [], out, h, k, hk => by simp [resolveResources] at h; subst h; simp at hk
  | (k', r) :: rest, out, h, k, hk => by
    simp only [resolveResources, Option.bind_eq_bind] at h
    cases hp : present env.conds r with
    | none => simp [hp] at h
    | some keep =>
      cases ht : resolveResources env rest with
      | none => simp [hp, ht] at h
      | some tail =>
        have ih := resolveResources_keys env rest tail ht k
        cases keep with
        | false =>
          simp [hp, ht] at h; subst h
          simp only [List.map_cons, List.mem_cons]; exact Or.inr (ih hk)
        | true =>
          cases hv : resolveResource env r with
          | none => simp [hp, ht, hv] at h
          | some v =>
            simp [hp, ht, hv] at h; subst h
            simp only [List.map_cons, List.mem_cons] at hk ⊢
            rcases hk with e | hk
            · exact Or.inl e
            · exact Or.inr (ih hk)

/-- what the resolved resource section answers for one logical id -/
theorem resolveResources_lookup (env : Env) :
    ∀ (res out : List (String × J)), resolveResources env res = some out → (res.map (·.1)).Nodup →
      ∀ k r, J.lookup k res = some r →
        J.lookup k out = (if present env.conds r = some true then resolveResource env r else none)
  | [], out, _, _, k, r, hk => by simp [J.lookup] at hk
  | (k', r') :: rest, out, h, hn, k, r, hk => by
    rw [List.map_cons, List.nodup_cons] at hn
    simp only [resolveResources, Option.bind_eq_bind] at h
    cases hp : present env.conds r' with
    | none => simp [hp] at h
    | some keep =>
      cases ht : resolveResources env rest with
      | none => simp [hp, ht] at h
      | some tail =>
        have ih := resolveResources_lookup env rest tail ht hn.2 k r
        have hkeys := resolveResources_keys env rest tail ht
        rw [J.lookup_cons] at hk
        by_cases hkk : k' = k
        · subst hkk
          simp at hk; subst hk
          have hnot : J.lookup k' tail = none := by
            rw [J.lookup_eq_none_iff]; intro hm; exact hn.1 (hkeys k' hm)
          cases keep with
          | false => simp [hp, ht] at h; subst h; simp [hnot, hp]
          | true =>
            cases hv : resolveResource env r' with
            | none => simp [hp, ht, hv] at h
            | some v => simp [hp, ht, hv] at h; subst h; simp [J.lookup_cons, hp, hv]
        · simp only [hkk, if_false] at hk
          cases keep with
          | false => simp [hp, ht] at h; subst h; exact ih hk
          | true =>
            cases hv : resolveResource env r' with
            | none => simp [hp, ht, hv] at h
            | some v =>
              simp [hp, ht, hv] at h; subst h
              rw [J.lookup_cons]; simp only [hkk, if_false]; exact ih hk

/-- C07_resource_local: two resource sections that contain the same definition under a logical id give that
    resource the same resolved form, whatever else they contain and in whatever order (this covers removing,
    adding and reordering other resources). -/
theorem C07_resource_local (env : Env) (res res' out out' : List (String × J))
    (h : resolveResources env res = some out) (h' : resolveResources env res' = some out')
    (hn : (res.map (·.1)).Nodup) (hn' : (res'.map (·.1)).Nodup)
    (k : String) (r : J) (hk : J.lookup k res = some r) (hk' : J.lookup k res' = some r) :
    J.lookup k out = J.lookup k out' := by
  rw [resolveResources_lookup env res out h hn k r hk, resolveResources_lookup env res' out' h' hn' k r hk']

/-- C07_resources_perm: reordering the Resources section does not change any resource -/
theorem C07_resources_perm (env : Env) (res res' out out' : List (String × J)) (hp : res.Perm res')
    (h : resolveResources env res = some out) (h' : resolveResources env res' = some out')
    (hn : (res.map (·.1)).Nodup) (k : String) : J.lookup k out = J.lookup k out' := by
  have hn' : (res'.map (·.1)).Nodup := (hp.map _).nodup_iff.mp hn
  cases hk : J.lookup k res with
  | some r =>
    exact C07_resource_local env res res' out out' h h' hn hn' k r hk (by rw [← J.lookup_perm hp hn]; exact hk)
  | none =>
    have hk' : J.lookup k res' = none := by rw [← J.lookup_perm hp hn]; exact hk
    have a : J.lookup k out = none := by
      rw [J.lookup_eq_none_iff] at hk ⊢; exact fun hm => hk (resolveResources_keys env res out h k hm)
    have b : J.lookup k out' = none := by
      rw [J.lookup_eq_none_iff] at hk' ⊢; exact fun hm => hk' (resolveResources_keys env res' out' h' k hm)
    rw [a, b]

/-- C07_env_by_name: resolution of the resources depends on parameters, mappings and conditions only through
    lookups by name — so reordering those sections (unique names) changes nothing. -/
theorem C07_env_by_name (env env' : Env) (he : EnvEquiv env env') :
    ∀ res, resolveResources env res = resolveResources env' res
  | [] => rfl
  | (k, r) :: rest => by
    have hp : present env.conds r = present env'.conds r := by
      unfold present
      simp only [he.conds]
    simp only [resolveResources, resolveResource, hp, resolve_ext he r, C07_env_by_name env env' he rest]

/-- C07_mappings_perm / C07_params_perm: permuted sections with unique names answer lookups alike -/
theorem C07_sections_perm (p p' m m' : List (String × J)) (c c' : List (String × Bool))
    (hp : p.Perm p') (hm : m.Perm m') (hc : c.Perm c')
    (np : (p.map (·.1)).Nodup) (nm : (m.map (·.1)).Nodup) (nc : (c.map (·.1)).Nodup) :
    EnvEquiv ⟨p, m, c⟩ ⟨p', m', c'⟩ :=
  ⟨J.lookup_perm hp np, J.lookup_perm hm nm, J.lookup_perm hc nc⟩

theorem C07_sections_perm_resolve (p p' m m' : List (String × J)) (c c' : List (String × Bool))
    (hp : p.Perm p') (hm : m.Perm m') (hc : c.Perm c')
    (np : (p.map (·.1)).Nodup) (nm : (m.map (·.1)).Nodup) (nc : (c.map (·.1)).Nodup) (e : J) :
    Spec.resolve ⟨p, m, c⟩ e = Spec.resolve ⟨p', m', c'⟩ e :=
  resolve_ext (C07_sections_perm p p' m m' c c' hp hm hc np nm nc) e

-- Non-vacuity
example : resolveResources ⟨[("A", .str "a")], [], [("T", true), ("F", false)]⟩
    [("R1", .obj [("Type", .str "X"), ("Condition", .str "F")]),
     ("R2", .obj [("Type", .str "X"), ("P", .obj [("Ref", .str "A")])])] =
    some [("R2", .obj [("Type", .str "X"), ("P", .str "a")])] := by decide +kernel

end PycfModel.Template
