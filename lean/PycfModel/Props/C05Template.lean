import PycfModel.Props.C05
import PycfModel.Props.C02Termination
set_option linter.unusedSimpArgs false
set_option linter.unusedVariables false
/-!
C05 — progress for whole templates: when the parameters bind, every condition definition is a well-typed condition
expression (under whatever values the conditions it can see have) and every resource is well typed under the resulting
condition table, `Template.resolveT` is defined: no stage of the resolution raises, and no step bound is exhausted.
-/
namespace PycfModel.Template
open PycfModel PycfModel.Resolver

/-- every declared condition is a well-typed condition expression, whatever the values of the conditions it sees -/
def CondsWT (defs : List (String × J)) (p m : List (String × J)) : Prop :=
  ∀ k d, J.lookup k defs = some d → ∀ visible : List (String × Bool), WT ⟨p, m, visible⟩ d .bool

theorem mapM_some_of_forall {α β : Type} (f : α → Option β) : ∀ l : List α, (∀ x ∈ l, ∃ y, f x = some y) → ∃ ys, l.mapM f = some ys
  | [], _ => ⟨[], rfl⟩
  | x :: xs, h => by
    obtain ⟨y, hy⟩ := h x (by simp)
    obtain ⟨ys, hys⟩ := mapM_some_of_forall f xs (fun z hz => h z (by simp [hz]))
    exact ⟨y :: ys, by simp [List.mapM_cons, hy, hys]⟩

theorem condValue_defined (defs : List (String × J)) (hn : (defs.map (·.1)).Nodup) (p m : List (String × J))
    (hE : ∀ visible, EnvOK ⟨p, m, visible⟩) (hwt : CondsWT defs p m) :
    ∀ (fuel : Nat) (k : String) (rest : List String), Chain (mkGraph defs) (k :: rest) →
      (∀ z ∈ (k :: rest), z ∈ defs.map (·.1)) → defs.length + 1 ≤ fuel + (k :: rest).length →
      ∃ b, condValue (mkGraph defs) p m fuel k = some b
  | 0, k, rest, hc, hd, hlen => by
    have hnd := C02_chain_nodup defs hn (k :: rest) hc
    have := (List.subperm_of_subset hnd (fun z hz => hd z hz)).length_le
    simp only [List.length_map] at this
    omega
  | fuel + 1, k, rest, hc, hd, hlen => by
    have hk : k ∈ defs.map (·.1) := hd k (by simp)
    obtain ⟨d, hdef⟩ : ∃ d, J.lookup k defs = some d := by
      cases hl : J.lookup k defs with
      | none => exact absurd hk ((J.lookup_eq_none_iff k defs).mp hl)
      | some d => exact ⟨d, rfl⟩
    obtain ⟨vis, hvis⟩ := mapM_some_of_forall
      (fun r => (condValue (mkGraph defs) p m fuel r).map fun b => (r, b)) (visibleRefs (mkGraph defs) k) (by
        intro r hr
        have hrd : r ∈ defs.map (·.1) := refsIn_declared defs k r (by simpa [mkGraph] using (visible_sub _ k r hr).1)
        obtain ⟨b, hb⟩ := condValue_defined defs hn p m hE hwt fuel r (k :: rest) ⟨hr, hc⟩
          (fun z hz => by rcases List.mem_cons.mp hz with e | e; exact e ▸ hrd; exact hd z e)
          (by simp only [List.length_cons] at hlen ⊢; omega)
        exact ⟨(r, b), by simp [hb]⟩)
    obtain ⟨v, hv, b, hb⟩ := C05_expression_progress ⟨p, m, vis⟩ (hE vis) d .bool (hwt k d hdef vis)
    refine ⟨b, ?_⟩
    unfold condValue
    have hdo : (mkGraph defs).defOf k = some d := by simpa [mkGraph] using hdef
    simp only [hdo, Option.bind_eq_bind, Option.bind_some, hvis, hv, hb]

/-- C05_conditions_progress: the condition table of a section of well-typed conditions is defined -/
theorem C05_conditions_progress (defs : List (String × J)) (hn : (defs.map (·.1)).Nodup) (p m : List (String × J))
    (hE : ∀ visible, EnvOK ⟨p, m, visible⟩) (hwt : CondsWT defs p m) : ∃ table, condTable defs p m = some table := by
  unfold condTable condTableOf
  apply mapM_some_of_forall
  intro k hk
  obtain ⟨b, hb⟩ := condValue_defined defs hn p m hE hwt (mkGraph defs).depthFuel k [] trivial
    (fun z hz => by simp at hz; exact hz ▸ hk) (by simp [mkGraph])
  exact ⟨(k, b), by simp [hb]⟩

/-- C05_template_progress: parameters bind, conditions and resources are well typed ⇒ the template resolves -/
theorem C05_template_progress (pseudo : List (String × J)) (t : Tmpl) (extra params : List (String × J))
    (hb : bind pseudo t.decls extra = some params) (hn : (t.conditions.map (·.1)).Nodup)
    (hE : ∀ visible, EnvOK ⟨params, t.mappings, visible⟩) (hc : CondsWT t.conditions params t.mappings)
    (hr : ∀ table, condTable t.conditions params t.mappings = some table →
      ∀ kr ∈ t.resources, (∃ b, present table kr.2 = some b) ∧ WT ⟨params, t.mappings, table⟩ kr.2 .any) :
    ∃ r, resolveT pseudo t extra = some r := by
  obtain ⟨table, ht⟩ := C05_conditions_progress t.conditions hn params t.mappings hE hc
  obtain ⟨res, hres⟩ := C05_resources_progress ⟨params, t.mappings, table⟩ (hE table) t.resources (hr table ht)
  exact ⟨⟨params, table, res⟩, by simp [resolveT, hb, ht, hres]⟩

end PycfModel.Template
