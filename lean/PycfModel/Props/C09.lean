import PycfModel.Model.Actions
import PycfModel.Lemmas.Order
import PycfModel.Props.C08
/-!
C09 — action expansion obeys set laws over the catalogue, the same in every API.
All theorems are generic in the catalogue; the facts about the shipped catalogue are in
`Props/C09Catalogue.lean` (regenerated table).
-/
namespace PycfModel.Actions
open PycfModel.Text PycfModel.Glob

/-- C09_expand_mem: exactly the catalogue actions matched by at least one pattern -/
theorem C09_expand_mem (cat ps : List Str) (a : Str) :
    a ∈ expand cat ps ↔ a ∈ cat ∧ ∃ p ∈ ps, gmatchCI p a = true := by
  have := matchesAny_eq ps a
  unfold matchesAny at this
  simp [expand, mem_sortDedup, List.mem_filter, this, List.any_eq_true]

/-- C09_not_mem: exactly the catalogue actions matched by none of the patterns -/
theorem C09_not_mem (cat ps : List Str) (a : Str) :
    a ∈ expandNot cat ps ↔ a ∈ cat ∧ ∀ p ∈ ps, gmatchCI p a = false := by
  have := matchesAny_eq ps a
  unfold matchesAny at this
  simp [expandNot, mem_sortDedup, List.mem_filter, this]

/-- C09_sorted_nodup: every expansion is strictly increasing in code-point order (sorted, duplicate-free) -/
theorem C09_sorted_nodup (cat ps : List Str) :
    StrictSorted (expand cat ps) ∧ StrictSorted (expandNot cat ps) ∧
    (expand cat ps).Nodup ∧ (expandNot cat ps).Nodup :=
  ⟨strictSorted_sortDedup _, strictSorted_sortDedup _,
   (strictSorted_sortDedup _).nodup, (strictSorted_sortDedup _).nodup⟩

/-- C09_partition: Action and NotAction over the same patterns partition the catalogue -/
theorem C09_partition (cat ps : List Str) (a : Str) :
    (a ∈ cat ↔ (a ∈ expand cat ps ∨ a ∈ expandNot cat ps)) ∧
    ¬ (a ∈ expand cat ps ∧ a ∈ expandNot cat ps) := by
  rw [C09_expand_mem, C09_not_mem]
  constructor
  · constructor
    · intro h
      by_cases hm : ∃ p ∈ ps, gmatchCI p a = true
      · exact Or.inl ⟨h, hm⟩
      · right; refine ⟨h, fun p hp => ?_⟩
        cases hg : gmatchCI p a with
        | false => rfl
        | true => exact absurd ⟨p, hp, hg⟩ hm
    · rintro (h | h) <;> exact h.1
  · rintro ⟨⟨_, p, hp, hm⟩, _, hn⟩
    rw [hn p hp] at hm; cases hm

theorem sorted_expand (cat ps : List Str) : StrictSorted (expand cat ps) := strictSorted_sortDedup _
theorem sorted_expandNot (cat ps : List Str) : StrictSorted (expandNot cat ps) := strictSorted_sortDedup _
theorem sorted_stmtExpanded (cat : List Str) (x y : Option ActionVal) : StrictSorted (stmtExpanded cat x y) :=
  strictSorted_sortDedup _

/-- C09_union: a list expands to the union of its members -/
theorem C09_union (cat ps qs : List Str) :
    expand cat (ps ++ qs) = sortDedup (expand cat ps ++ expand cat qs) := by
  apply strictSorted_ext (sorted_expand _ _) (strictSorted_sortDedup _)
  intro a
  rw [mem_sortDedup, List.mem_append, C09_expand_mem, C09_expand_mem, C09_expand_mem]
  constructor
  · rintro ⟨hc, p, hp, hm⟩
    rcases List.mem_append.mp hp with h | h
    · exact Or.inl ⟨hc, p, h, hm⟩
    · exact Or.inr ⟨hc, p, h, hm⟩
  · rintro (⟨hc, p, hp, hm⟩ | ⟨hc, p, hp, hm⟩)
    · exact ⟨hc, p, List.mem_append.mpr (Or.inl hp), hm⟩
    · exact ⟨hc, p, List.mem_append.mpr (Or.inr hp), hm⟩

theorem C09_union_mem (cat ps qs : List Str) (a : Str) :
    a ∈ expand cat (ps ++ qs) ↔ a ∈ expand cat ps ∨ a ∈ expand cat qs := by
  rw [C09_union, mem_sortDedup, List.mem_append]

/-! ### Further set laws: extremes, monotonicity, independence of pattern order and repetition -/

/-- C09_ext: the expansion depends only on the *set* of patterns — reordering the list, or writing a
    pattern twice, changes nothing (for Action and for NotAction). -/
theorem C09_ext (cat ps qs : List Str) (h : ∀ p, p ∈ ps ↔ p ∈ qs) :
    expand cat ps = expand cat qs ∧ expandNot cat ps = expandNot cat qs := by
  constructor
  · apply strictSorted_ext (sorted_expand _ _) (sorted_expand _ _)
    intro a; rw [C09_expand_mem, C09_expand_mem]
    constructor
    · rintro ⟨hc, p, hp, hm⟩; exact ⟨hc, p, (h p).1 hp, hm⟩
    · rintro ⟨hc, p, hp, hm⟩; exact ⟨hc, p, (h p).2 hp, hm⟩
  · apply strictSorted_ext (sorted_expandNot _ _) (sorted_expandNot _ _)
    intro a; rw [C09_not_mem, C09_not_mem]
    constructor
    · rintro ⟨hc, hn⟩; exact ⟨hc, fun p hp => hn p ((h p).2 hp)⟩
    · rintro ⟨hc, hn⟩; exact ⟨hc, fun p hp => hn p ((h p).1 hp)⟩

/-- C09_mono: more patterns allow more under Action and exclude more under NotAction. -/
theorem C09_mono (cat ps qs : List Str) (h : ∀ p ∈ ps, p ∈ qs) (a : Str) :
    (a ∈ expand cat ps → a ∈ expand cat qs) ∧ (a ∈ expandNot cat qs → a ∈ expandNot cat ps) := by
  rw [C09_expand_mem, C09_expand_mem, C09_not_mem, C09_not_mem]
  constructor
  · rintro ⟨hc, p, hp, hm⟩; exact ⟨hc, p, h p hp, hm⟩
  · rintro ⟨hc, hn⟩; exact ⟨hc, fun p hp => hn p (h p hp)⟩

/-- C09_no_patterns: no pattern matches nothing; its complement is the whole catalogue. -/
theorem C09_no_patterns (cat : List Str) :
    expand cat [] = [] ∧ expandNot cat [] = sortDedup cat := by
  constructor
  · apply strictSorted_ext (sorted_expand _ _) (by simp [StrictSorted])
    intro a; rw [C09_expand_mem]; simp
  · apply strictSorted_ext (sorted_expandNot _ _) (strictSorted_sortDedup _)
    intro a; rw [C09_not_mem, mem_sortDedup]; simp

/-- C09_star: `*` expands to the whole catalogue (sorted, duplicate-free); `NotAction: "*"` to nothing —
    also when `*` is only one of several patterns. -/
theorem C09_star (cat ps : List Str) (h : ['*'] ∈ ps) :
    expand cat ps = sortDedup cat ∧ expandNot cat ps = [] := by
  have hstar : ∀ a : Str, gmatchCI ['*'] a = true := by
    intro a
    have : gmatchCI ['*'] a = gmatchCS ['*'] (a.map lowerChar) := by
      simp [gmatchCI, gmatchFold, gmatchCS, lowerChar]
    rw [this]; exact C08_star_all _
  constructor
  · apply strictSorted_ext (sorted_expand _ _) (strictSorted_sortDedup _)
    intro a; rw [C09_expand_mem, mem_sortDedup]
    exact ⟨fun h' => h'.1, fun hc => ⟨hc, ['*'], h, hstar a⟩⟩
  · apply strictSorted_ext (sorted_expandNot _ _) (by simp [StrictSorted])
    intro a; rw [C09_not_mem]
    constructor
    · rintro ⟨_, hn⟩; have := hn _ h; rw [hstar a] at this; cases this
    · intro h'; cases h'

/-- C09_subset_catalogue: whatever the patterns, an expansion never names an action outside the catalogue. -/
theorem C09_subset_catalogue (cat ps : List Str) (a : Str) :
    (a ∈ expand cat ps → a ∈ cat) ∧ (a ∈ expandNot cat ps → a ∈ cat) := by
  rw [C09_expand_mem, C09_not_mem]; exact ⟨fun h => h.1, fun h => h.1⟩

/-! ### The algorithms as written agree with the specification -/

theorem mem_expandAction_pos (cat : List Str) (p a : Str) :
    a ∈ expandAction cat p false ↔ a ∈ cat ∧ gmatchCI p a = true := by
  simp [expandAction, mem_sortDedup, List.mem_filter]

theorem mem_expandAction_neg (cat : List Str) (p a : Str) :
    a ∈ expandAction cat p true ↔ a ∈ cat ∧ gmatchCI p a = false := by
  simp only [expandAction, if_true, mem_sortDedup, List.mem_filter, Bool.not_eq_true',
    List.contains_eq_mem, decide_eq_false_iff_not]
  constructor
  · rintro ⟨hc, hn⟩
    refine ⟨hc, ?_⟩
    cases hg : gmatchCI p a with
    | false => rfl
    | true => exact absurd ⟨hc, hg⟩ hn
  · rintro ⟨hc, hg⟩
    exact ⟨hc, fun h => by rw [hg] at h; cases h.2⟩

theorem mem_foldl_expand (cat : List Str) (ps : List Str) (init : List Str) (a : Str) :
    a ∈ ps.foldl (fun acc p => acc ++ expandAction cat p false) init ↔
      a ∈ init ∨ (a ∈ cat ∧ ∃ p ∈ ps, gmatchCI p a = true) := by
  induction ps generalizing init with
  | nil => simp
  | cons q qs ih =>
    simp only [List.foldl_cons, ih, List.mem_append, mem_expandAction_pos, List.mem_cons]
    constructor
    · rintro ((h | ⟨hc, hm⟩) | ⟨hc, p, hp, hm⟩)
      · exact Or.inl h
      · exact Or.inr ⟨hc, q, Or.inl rfl, hm⟩
      · exact Or.inr ⟨hc, p, Or.inr hp, hm⟩
    · rintro (h | ⟨hc, p, hp | hp, hm⟩)
      · exact Or.inl (Or.inl h)
      · subst hp; exact Or.inl (Or.inr ⟨hc, hm⟩)
      · exact Or.inr ⟨hc, p, hp, hm⟩

theorem mem_expandActions (cat : List Str) (v : ActionVal) (a : Str) :
    (a ∈ expandActions cat v false ↔ a ∈ expand cat v.toList) ∧
    (a ∈ expandActions cat v true ↔ a ∈ expandNot cat v.toList) := by
  cases v with
  | one p =>
    simp only [expandActions, ActionVal.toList, mem_expandAction_pos, mem_expandAction_neg,
      C09_expand_mem, C09_not_mem, List.mem_singleton]
    constructor
    · constructor
      · rintro ⟨h, m⟩; exact ⟨h, p, rfl, m⟩
      · rintro ⟨h, q, rfl, m⟩; exact ⟨h, m⟩
    · constructor
      · rintro ⟨h, m⟩; exact ⟨h, fun q hq => hq ▸ m⟩
      · rintro ⟨h, m⟩; exact ⟨h, m p rfl⟩
  | many ps =>
    simp only [expandActions, ActionVal.toList, Bool.false_eq_true, if_false, if_true, mem_sortDedup,
      C09_expand_mem, C09_not_mem, List.mem_filter, Bool.not_eq_true', List.contains_eq_mem,
      decide_eq_false_iff_not, mem_foldl_expand, List.not_mem_nil, false_or]
    refine ⟨trivial, ?_⟩
    · constructor
      · rintro ⟨hc, hn⟩
        refine ⟨hc, fun p hp => ?_⟩
        cases hg : gmatchCI p a with
        | false => rfl
        | true => exact absurd ⟨hc, p, hp, hg⟩ hn
      · rintro ⟨hc, hn⟩
        refine ⟨hc, ?_⟩
        rintro ⟨_, p, hp, hg⟩
        rw [hn p hp] at hg; cases hg

/-- C09_apis_agree (module level): `_expand_actions` on a single pattern or a list of any length is the specification -/
theorem C09_apis_agree_expander (cat : List Str) (v : ActionVal) :
    expandActions cat v false = expand cat v.toList ∧
    expandActions cat v true = expandNot cat v.toList := by
  have sorted : ∀ b, StrictSorted (expandActions cat v b) := by
    intro b; cases v <;> cases b <;> simp only [expandActions, expandAction] <;>
      first | exact strictSorted_sortDedup _ | (split <;> exact strictSorted_sortDedup _)
  exact ⟨strictSorted_ext (sorted false) (sorted_expand _ _) (fun a => (mem_expandActions cat v a).1),
         strictSorted_ext (sorted true) (sorted_expandNot _ _) (fun a => (mem_expandActions cat v a).2)⟩

theorem mem_stmtExpanded (cat : List Str) (action notAction : Option ActionVal) (a : Str) :
    a ∈ stmtExpanded cat action notAction ↔
      (a ∈ expand cat (optToList action)) ∨
      (∃ v, notAction = some v ∧ a ∈ expandNot cat v.toList) := by
  unfold stmtExpanded
  simp only [mem_sortDedup]
  cases notAction with
  | none =>
    simp only [mem_foldl_expand, List.not_mem_nil, false_or, C09_expand_mem]
    simp
  | some v =>
    simp only [List.mem_append, mem_foldl_expand, List.not_mem_nil, false_or, C09_expand_mem,
      Option.some.injEq, exists_eq_left']
    have := (mem_expandActions cat (.many v.toList) a).2
    have e : (ActionVal.many v.toList).toList = v.toList := rfl
    rw [e] at this
    rw [this]

/-- C09_apis_agree (statement level): a statement with only `Action` expands to `expand`, one with only
    `NotAction` (single pattern or list of any length, including the empty list) to `expandNot` -/
theorem C09_apis_agree_statement (cat : List Str) (v : ActionVal) :
    stmtExpanded cat (some v) none = expand cat v.toList ∧
    stmtExpanded cat none (some v) = expandNot cat v.toList := by
  constructor
  · apply strictSorted_ext (sorted_stmtExpanded _ _ _) (sorted_expand _ _)
    intro a; rw [mem_stmtExpanded]; simp [optToList]
  · apply strictSorted_ext (sorted_stmtExpanded _ _ _) (sorted_expandNot _ _)
    intro a; rw [mem_stmtExpanded]; simp [optToList, C09_expand_mem]

/-- C09_apis_agree (policy level): the allowed-action query is the union over the Allow statements -/
theorem C09_apis_agree_policy (cat : List Str) (stmts : List Stmt) (a : Str) :
    a ∈ allowedActions cat stmts ↔
      ∃ s ∈ stmts, s.allow = true ∧ a ∈ stmtExpanded cat s.action s.notAction := by
  unfold allowedActions
  rw [mem_sortDedup]
  suffices h : ∀ init : List Str,
      a ∈ stmts.foldl (fun acc s => if s.allow then acc ++ stmtExpanded cat s.action s.notAction else acc) init ↔
        a ∈ init ∨ ∃ s ∈ stmts, s.allow = true ∧ a ∈ stmtExpanded cat s.action s.notAction by
    simpa using h []
  induction stmts with
  | nil => intro init; simp
  | cons s ss ih =>
    intro init
    simp only [List.foldl_cons, ih, List.mem_cons]
    by_cases hs : s.allow = true
    · simp only [hs, if_true, List.mem_append]
      constructor
      · rintro ((h | h) | ⟨t, ht, h⟩)
        · exact Or.inl h
        · exact Or.inr ⟨s, Or.inl rfl, hs, h⟩
        · exact Or.inr ⟨t, Or.inr ht, h⟩
      · rintro (h | ⟨t, ht | ht, h⟩)
        · exact Or.inl (Or.inl h)
        · subst ht; exact Or.inl (Or.inr h.2)
        · exact Or.inr ⟨t, ht, h⟩
    · simp only [hs, Bool.false_eq_true, if_false]
      constructor
      · rintro (h | ⟨t, ht, h⟩)
        · exact Or.inl h
        · exact Or.inr ⟨t, Or.inr ht, h⟩
      · rintro (h | ⟨t, ht | ht, h⟩)
        · exact Or.inl h
        · subst ht; exact absurd h.1 hs
        · exact Or.inr ⟨t, ht, h⟩

theorem C09_policy_sorted (cat : List Str) (stmts : List Stmt) :
    StrictSorted (allowedActions cat stmts) ∧ StrictSorted (iamActions cat stmts) :=
  ⟨strictSorted_sortDedup _, strictSorted_sortDedup _⟩

-- Non-vacuity on a small catalogue: the list-under-NotAction case where union-of-complements differs.
def demoCat : List Str := ["ec2:Run".toList, "iam:Get".toList, "s3:Get".toList, "s3:Put".toList]
example : stmtExpanded demoCat none (some (.many ["s3:*".toList, "ec2:*".toList])) = ["iam:Get".toList] := by decide
example : expandNot demoCat ["s3:*".toList, "ec2:*".toList] = ["iam:Get".toList] := by decide
example : expand demoCat ["S3:g*".toList, "iam:*".toList] = ["iam:Get".toList, "s3:Get".toList] := by decide
example : expand demoCat ["s3:*".toList, "*".toList] = demoCat ∧ expandNot demoCat ["s3:*".toList, "*".toList] = [] := by decide
example : expand demoCat ["s3:*".toList, "iam:*".toList, "s3:*".toList] = expand demoCat ["iam:*".toList, "s3:*".toList] := by decide

end PycfModel.Actions

namespace PycfModel.Actions
open PycfModel.Text PycfModel.Glob

theorem cstmtPred_compile (b : Bool) (x y : Option ActionVal) (a : Str) :
    cstmtPred (compileStmt b x y) a =
      ((optToList x).any (fun p => gmatchCI p a) ||
        (match y with
         | none => false
         | some v => !(v.toList.any (fun p => gmatchCI p a)))) := by
  cases y with
  | none => simp [cstmtPred, compileStmt, ← matchesAny_eq, matchesAny]
  | some v => simp [cstmtPred, compileStmt, ← matchesAny_eq, matchesAny]

theorem stmtPred_iff (cat : List Str) (x y : Option ActionVal) (a : Str) :
    (a ∈ cat ∧ stmtPred x y a = true) ↔ a ∈ stmtExpanded cat x y := by
  rw [mem_stmtExpanded, C09_expand_mem, stmtPred, cstmtPred_compile]
  cases y with
  | none => simp [List.any_eq_true]
  | some v =>
    simp only [Bool.or_eq_true, Bool.not_eq_true', Option.some.injEq, exists_eq_left', C09_not_mem,
      List.any_eq_true, List.any_eq_false]
    constructor
    · rintro ⟨hc, h | h⟩
      · exact Or.inl ⟨hc, h⟩
      · exact Or.inr ⟨hc, fun p hp => by simpa using h p hp⟩
    · rintro (⟨hc, h⟩ | ⟨hc, h⟩)
      · exact ⟨hc, Or.inl h⟩
      · exact ⟨hc, Or.inr (fun p hp => by simp [h p hp])⟩

/-- C09_stmt_closed_form: the statement-level algorithm equals one filtering pass over the catalogue -/
theorem C09_stmt_closed_form (cat : List Str) (x y : Option ActionVal) :
    stmtExpanded cat x y = stmtSpec cat x y := by
  apply strictSorted_ext (sorted_stmtExpanded _ _ _) (strictSorted_sortDedup _)
  intro a
  rw [mem_sortDedup, List.mem_filter]
  exact (stmtPred_iff cat x y a).symm

/-- C09_allowed_closed_form: `get_allowed_actions` equals one filtering pass (Allow statements only) -/
theorem C09_allowed_closed_form (cat : List Str) (stmts : List Stmt) :
    allowedActions cat stmts = allowedSpec cat stmts := by
  apply strictSorted_ext (C09_policy_sorted cat stmts).1 (strictSorted_sortDedup _)
  intro a
  rw [C09_apis_agree_policy, mem_sortDedup, List.mem_filter, List.any_map, List.any_eq_true]
  have key : ∀ s : Stmt, cstmtPred (compileStmt s.allow s.action s.notAction) a = stmtPred s.action s.notAction a := by
    intro s; rw [stmtPred, cstmtPred_compile, cstmtPred_compile]
  constructor
  · rintro ⟨s, hs, ha, hm⟩
    have := (stmtPred_iff cat s.action s.notAction a).2 hm
    refine ⟨this.1, s, hs, ?_⟩
    simp only [Function.comp, Bool.and_eq_true]
    exact ⟨by simpa [compileStmt] using ha, by rw [key s]; exact this.2⟩
  · rintro ⟨hc, s, hs, h⟩
    simp only [Function.comp, Bool.and_eq_true] at h
    refine ⟨s, hs, by simpa [compileStmt] using h.1, (stmtPred_iff cat _ _ a).1 ⟨hc, ?_⟩⟩
    rw [← key s]; exact h.2

theorem mem_iamActions (cat : List Str) (stmts : List Stmt) (a : Str) :
    a ∈ iamActions cat stmts ↔
      isPrefix iamPrefix a = true ∧ ∃ s ∈ stmts, a ∈ stmtExpanded cat s.action s.notAction := by
  unfold iamActions
  rw [mem_sortDedup]
  suffices h : ∀ init : List Str,
      a ∈ stmts.foldl (fun acc s => acc ++ (stmtExpanded cat s.action s.notAction).filter (isPrefix iamPrefix)) init ↔
        a ∈ init ∨ (isPrefix iamPrefix a = true ∧ ∃ s ∈ stmts, a ∈ stmtExpanded cat s.action s.notAction) by
    simpa using h []
  induction stmts with
  | nil => intro init; simp
  | cons s ss ih =>
    intro init
    simp only [List.foldl_cons, ih, List.mem_cons, List.mem_append, List.mem_filter]
    constructor
    · rintro ((h | ⟨h, hp⟩) | ⟨hp, t, ht, h⟩)
      · exact Or.inl h
      · exact Or.inr ⟨hp, s, Or.inl rfl, h⟩
      · exact Or.inr ⟨hp, t, Or.inr ht, h⟩
    · rintro (h | ⟨hp, t, ht | ht, h⟩)
      · exact Or.inl (Or.inl h)
      · subst ht; exact Or.inl (Or.inr ⟨h, hp⟩)
      · exact Or.inr ⟨hp, t, ht, h⟩

/-- C09_iam_closed_form: `get_iam_actions()` equals one filtering pass (every statement, `iam:` prefix) -/
theorem C09_iam_closed_form (cat : List Str) (stmts : List Stmt) :
    iamActions cat stmts = iamSpec cat stmts := by
  apply strictSorted_ext (C09_policy_sorted cat stmts).2 (strictSorted_sortDedup _)
  intro a
  rw [mem_iamActions, mem_sortDedup, List.mem_filter, Bool.and_eq_true, List.any_map, List.any_eq_true]
  have key : ∀ s : Stmt, cstmtPred (compileStmt s.allow s.action s.notAction) a = stmtPred s.action s.notAction a := by
    intro s; rw [stmtPred, cstmtPred_compile, cstmtPred_compile]
  constructor
  · rintro ⟨hp, s, hs, hm⟩
    have := (stmtPred_iff cat s.action s.notAction a).2 hm
    exact ⟨this.1, hp, s, hs, by simp only [Function.comp]; rw [key s]; exact this.2⟩
  · rintro ⟨hc, hp, s, hs, h⟩
    simp only [Function.comp] at h
    exact ⟨hp, s, hs, (stmtPred_iff cat _ _ a).1 ⟨hc, by rw [← key s]; exact h⟩⟩

end PycfModel.Actions
