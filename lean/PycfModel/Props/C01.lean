import PycfModel.Model.Resolver
import PycfModel.Lemmas.Tokens
/-!
C01 — intrinsic value functions resolve to their CloudFormation-defined value.

`Spec.resolve` is the specification the implementation is compared with on every run.  The theorems
below state, clause by clause, what that specification says (so that the clauses of the property are
theorems and not a reading of a definition), for every environment and every expression: the
dispatch table, scalar rendering, the three placeholder texts, compositionality ("wherever it sits"),
and the token semantics of `Fn::Sub`.
-/
namespace PycfModel.Resolver
open PycfModel PycfModel.Text

/-! ### The regenerated tables are the ones the property names -/

/-- C01_function_table: the dispatch table read from the live `FUNCTION_MAPPINGS`; `Fn::ImportValue`
    resolves like `Ref`. -/
theorem C01_function_table :
    Generated.functionMappings =
      [("Condition", "resolve_condition"), ("Fn::And", "resolve_and"), ("Fn::Base64", "resolve_base64"),
       ("Fn::Equals", "resolve_equals"), ("Fn::FindInMap", "resolve_find_in_map"), ("Fn::GetAZs", "resolve_get_azs"),
       ("Fn::GetAtt", "resolve_get_attr"), ("Fn::If", "resolve_if"), ("Fn::ImportValue", "resolve_ref"),
       ("Fn::Join", "resolve_join"), ("Fn::Not", "resolve_not"), ("Fn::Or", "resolve_or"),
       ("Fn::Select", "resolve_select"), ("Fn::Split", "resolve_split"), ("Fn::Sub", "resolve_sub"),
       ("Ref", "resolve_ref")] ∧
    Generated.implementedFunctions = Generated.functionMappings.map (·.1) ∧
    Generated.awsNoValue = "AWS::NoValue" := by decide

/-- C01_sub_token_pattern: the token pattern of the live code is the one the scanner implements -/
theorem C01_sub_token_pattern :
    Generated.cfSubTokenSrc = "\\$\\{(?:!([^${}]+)|([\\w\\:]+))\\}" ∧
    Generated.containsSsmSrc = "{{resolve:ssm:([a-zA-Z0-9_./-]+:\\d+)}}" := by decide

/-- the value of each element of a list-shaped function body -/
def eachOf (env : Env) : J → List (Option J)
  | .arr args => Spec.resolveEach env args
  | _ => []

/-- a single-member object named like a function is a call of that function -/
theorem resolve_fn (env : Env) (fn : String) (body : J) (h : isFunction fn = true) :
    Spec.resolve env (.obj [(fn, body)]) = applyFn env fn body (Spec.resolve env body) (eachOf env body) := by
  cases body <;> simp [Spec.resolve, Spec.resolveObj, h, eachOf]

theorem ro_ref : resolverOf "Ref" = some "resolve_ref" := by decide
theorem ro_import : resolverOf "Fn::ImportValue" = some "resolve_ref" := by decide
theorem ro_join : resolverOf "Fn::Join" = some "resolve_join" := by decide
theorem ro_fim : resolverOf "Fn::FindInMap" = some "resolve_find_in_map" := by decide
theorem ro_sub : resolverOf "Fn::Sub" = some "resolve_sub" := by decide
theorem ro_select : resolverOf "Fn::Select" = some "resolve_select" := by decide
theorem ro_split : resolverOf "Fn::Split" = some "resolve_split" := by decide
theorem ro_b64 : resolverOf "Fn::Base64" = some "resolve_base64" := by decide

theorem eachOf_two (env : Env) (a b : J) : eachOf env (.arr [a, b]) = [Spec.resolve env a, Spec.resolve env b] := by
  simp [eachOf, Spec.resolveEach]

theorem eachOf_three (env : Env) (a b c : J) :
    eachOf env (.arr [a, b, c]) = [Spec.resolve env a, Spec.resolve env b, Spec.resolve env c] := by
  simp [eachOf, Spec.resolveEach]

/-! ### Scalars are rendered as strings -/

/-- C01_scalar_strings: booleans, integers and numbers written in the template resolve to their text -/
theorem C01_scalar_strings (env : Env) :
    Spec.resolve env (.bool true) = some (.str "true") ∧
    Spec.resolve env (.bool false) = some (.str "false") ∧
    (∀ i : Int, Spec.resolve env (.int i) = some (.str (String.ofList (intToChars i)))) ∧
    (∀ r : String, Spec.resolve env (.num r) = some (.str r)) := by
  refine ⟨by simp [Spec.resolve], by simp [Spec.resolve], fun i => by simp [Spec.resolve], fun r => by simp [Spec.resolve]⟩

/-- values reached through a reference are rendered the same way, and text goes through the same string clause as
    text written in the template -/
theorem C01_ref_renders_scalars (params : List (String × J)) :
    renderScalars params (.bool true) = .str "true" ∧ renderScalars params (.bool false) = .str "false" ∧
    (∀ i : Int, renderScalars params (.int i) = .str (String.ofList (intToChars i))) ∧
    (∀ s : String, renderScalars params (.str s) = resolveStr params s) := by
  refine ⟨rfl, rfl, fun _ => rfl, fun _ => rfl⟩

/-! ### Ref / Fn::ImportValue -/

theorem applyFn_ref (env : Env) (fn : String) (h : resolverOf fn = some "resolve_ref") (raw : J)
    (whole : Option J) (each : List (Option J)) :
    applyFn env fn raw whole each = (do
      let r ← whole
      let name ← strOf r
      match J.lookup name env.params with
      | some v => pure (renderScalars env.params v)
      | none => pure (undefinedParam name)) := by
  unfold applyFn; simp only [h]; rfl

/-- C01_ref_bound: a reference whose name has a value resolves to that value (scalars rendered) -/
theorem C01_ref_bound (env : Env) (body : J) (name : String) (v : J)
    (hb : Spec.resolve env body = some (.str name)) (hv : J.lookup name env.params = some v) :
    Spec.resolve env (.obj [("Ref", body)]) = some (renderScalars env.params v) ∧
    Spec.resolve env (.obj [("Fn::ImportValue", body)]) = some (renderScalars env.params v) := by
  constructor
  · rw [resolve_fn _ _ _ (by decide), applyFn_ref _ _ ro_ref]; simp [hb, strOf, hv]
  · rw [resolve_fn _ _ _ (by decide), applyFn_ref _ _ ro_import]; simp [hb, strOf, hv]

/-- C01_ref_undefined: a reference that cannot be resolved yields `UNDEFINED_PARAM_<name>` -/
theorem C01_ref_undefined (env : Env) (body : J) (name : String)
    (hb : Spec.resolve env body = some (.str name)) (hv : J.lookup name env.params = none) :
    Spec.resolve env (.obj [("Ref", body)]) = some (.str ("UNDEFINED_PARAM_" ++ name)) ∧
    Spec.resolve env (.obj [("Fn::ImportValue", body)]) = some (.str ("UNDEFINED_PARAM_" ++ name)) := by
  constructor
  · rw [resolve_fn _ _ _ (by decide), applyFn_ref _ _ ro_ref]; simp [hb, strOf, hv, undefinedParam]
  · rw [resolve_fn _ _ _ (by decide), applyFn_ref _ _ ro_import]; simp [hb, strOf, hv, undefinedParam]

/-! ### Fn::FindInMap -/

theorem applyFn_fim (env : Env) (raw : J) (whole : Option J) (sm s1 s2 : String) :
    applyFn env "Fn::FindInMap" raw whole [some (.str sm), some (.str s1), some (.str s2)] =
      (match J.lookup sm env.mappings with
       | some (.obj top) =>
         match J.lookup s1 top with
         | some (.obj second) =>
           match J.lookup s2 second with
           | some .null => some (undefinedMapping sm s1 s2)
           | some v => some v
           | none => some (undefinedMapping sm s1 s2)
         | some _ => none
         | none => some (undefinedMapping sm s1 s2)
       | some _ => none
       | none => some (undefinedMapping sm s1 s2)) := by
  unfold applyFn; simp only [ro_fim]; rfl

/-- C01_find_in_map_found: the mapped value, as stored -/
theorem C01_find_in_map_found (env : Env) (m k1 k2 : J) (sm s1 s2 : String) (top second : List (String × J)) (v : J)
    (hm : Spec.resolve env m = some (.str sm)) (h1 : Spec.resolve env k1 = some (.str s1))
    (h2 : Spec.resolve env k2 = some (.str s2))
    (ht : J.lookup sm env.mappings = some (.obj top)) (hs : J.lookup s1 top = some (.obj second))
    (hv : J.lookup s2 second = some v) (hn : v ≠ .null) :
    Spec.resolve env (.obj [("Fn::FindInMap", .arr [m, k1, k2])]) = some v := by
  rw [resolve_fn _ _ _ (by decide), eachOf_three, hm, h1, h2, applyFn_fim]
  simp only [ht, hs, hv]

/-- C01_find_in_map_undefined: a missing map, top-level key or second-level key yields
    `UNDEFINED_MAPPING_<map>_<key1>_<key2>` -/
theorem C01_find_in_map_undefined (env : Env) (m k1 k2 : J) (sm s1 s2 : String)
    (hm : Spec.resolve env m = some (.str sm)) (h1 : Spec.resolve env k1 = some (.str s1))
    (h2 : Spec.resolve env k2 = some (.str s2))
    (hmiss : J.lookup sm env.mappings = none ∨
      (∃ top, J.lookup sm env.mappings = some (.obj top) ∧ (J.lookup s1 top = none ∨
        ∃ second, J.lookup s1 top = some (.obj second) ∧ J.lookup s2 second = none))) :
    Spec.resolve env (.obj [("Fn::FindInMap", .arr [m, k1, k2])]) =
      some (.str ("UNDEFINED_MAPPING_" ++ sm ++ "_" ++ s1 ++ "_" ++ s2)) := by
  rw [resolve_fn _ _ _ (by decide), eachOf_three, hm, h1, h2, applyFn_fim]
  rcases hmiss with h | ⟨top, ht, h | ⟨second, hs, h⟩⟩
  · simp [h, undefinedMapping]
  · simp [ht, h, undefinedMapping]
  · simp [ht, hs, h, undefinedMapping]

/-! ### Fn::Select / Fn::Join / Fn::Split / Fn::Base64 -/

/-- C01_select: the element at the index; an out-of-range index yields the empty list -/
theorem C01_select (env : Env) (i l : J) (si : String) (n : Nat) (items : List J)
    (hi : Spec.resolve env i = some (.str si)) (hn : parseNat? si.toList = some n)
    (hl : Spec.resolve env l = some (.arr items)) :
    (∀ h : n < items.length,
      Spec.resolve env (.obj [("Fn::Select", .arr [i, l])]) = some (items[n]'h)) ∧
    (items.length ≤ n →
      Spec.resolve env (.obj [("Fn::Select", .arr [i, l])]) = some (.arr [])) := by
  rw [resolve_fn _ _ _ (by decide), eachOf_two, hi, hl]
  unfold applyFn; simp only [ro_select]
  constructor
  · intro h; simp [hn, List.getD, List.getElem?_eq_getElem h]
  · intro h; simp [hn, List.getD, List.getElem?_eq_none h]

/-- C01_join: the resolved members joined by the resolved delimiter -/
theorem C01_join (env : Env) (d l : J) (sep : String) (items : List J) (ss : List String)
    (hd : Spec.resolve env d = some (.str sep)) (hl : Spec.resolve env l = some (.arr items))
    (hs : strsOf items = some ss) :
    Spec.resolve env (.obj [("Fn::Join", .arr [d, l])]) =
      some (.str (String.ofList (join sep.toList (ss.map String.toList)))) := by
  rw [resolve_fn _ _ _ (by decide), eachOf_two, hd, hl]
  unfold applyFn; simp only [ro_join]; simp [pyStrsOf_of_strsOf items ss hs]

/-- C01_join_scalars: members that are not text (numbers and booleans a mapping holds, handed over raw by
    `Fn::FindInMap`) are joined as the text they render to in a template: `true` / `false`, never Python's `True` (D41) -/
theorem C01_join_scalars (env : Env) (d l : J) (sep : String) (items : List J) (ss : List String)
    (hd : Spec.resolve env d = some (.str sep)) (hl : Spec.resolve env l = some (.arr items))
    (hs : pyStrsOf items = some ss) :
    Spec.resolve env (.obj [("Fn::Join", .arr [d, l])]) =
      some (.str (String.ofList (join sep.toList (ss.map String.toList)))) := by
  rw [resolve_fn _ _ _ (by decide), eachOf_two, hd, hl]
  unfold applyFn; simp only [ro_join]; simp [hs]

theorem C01_join_scalars_example :
    pyStrsOf [.str "x", .bool true, .bool false, .int 1, .num "1.5"] = some ["x", "true", "false", "1", "1.5"] := by
  decide +kernel

/-- C01_split: the pieces of the resolved string between occurrences of the (non-empty) delimiter -/
theorem C01_split (env : Env) (d s : J) (sep src : String)
    (hd : Spec.resolve env d = some (.str sep)) (hs : Spec.resolve env s = some (.str src))
    (hne : sep ≠ "") :
    Spec.resolve env (.obj [("Fn::Split", .arr [d, s])]) =
      some (.arr ((split sep.toList src.toList).map fun p => .str (String.ofList p))) := by
  rw [resolve_fn _ _ _ (by decide), eachOf_two, hd, hs]
  unfold applyFn; simp only [ro_split]; simp [hne]

/-- C01_base64: base64 of the UTF-8 bytes of the resolved string -/
theorem C01_base64 (env : Env) (body : J) (s : String) (hb : Spec.resolve env body = some (.str s)) :
    Spec.resolve env (.obj [("Fn::Base64", body)]) = some (.str (base64OfString s)) := by
  rw [resolve_fn _ _ _ (by decide)]
  unfold applyFn; simp only [ro_b64]; simp [hb, strOf]

/-! ### Wherever it sits: lists and objects are resolved member-wise -/

/-- C01_anywhere_list: a list resolves to the list of its resolved elements (minus AWS::NoValue, see C02):
    an expression has the same value as a list element as on its own -/
theorem C01_anywhere_list (env : Env) (xs : List J) :
    Spec.resolve env (.arr xs) = (allSome (xs.map (Spec.resolve env))).map (fun ys => .arr (pruneList ys)) := by
  rw [Spec.resolve]
  congr 2
  induction xs with
  | nil => rfl
  | cons x xs ih => simp [Spec.resolveEach, ih]

theorem resolveMembers_eq (env : Env) (kvs : List (String × J)) :
    Spec.resolveMembers env kvs =
      (allSome (kvs.map fun kv => Spec.resolve env kv.2)).map (fun ys => (kvs.map (·.1)).zip ys) := by
  induction kvs with
  | nil => simp [Spec.resolveMembers, allSome]
  | cons kv rest ih =>
    obtain ⟨k, x⟩ := kv
    rw [Spec.resolveMembers, ih]
    cases hx : Spec.resolve env x with
    | none => simp [allSome, hx]
    | some y =>
      simp only [List.map_cons, allSome, hx]
      cases allSome (rest.map fun kv => Spec.resolve env kv.2) <;> simp

theorem resolveObj_single_nonfn (env : Env) (k : String) (v : J) (h : isFunction k = false) :
    Spec.resolveObj env [(k, v)] = (Spec.resolve env v).map fun y => .obj (pruneMembers [(k, y)]) := by
  cases v <;> simp [Spec.resolveObj, h]

/-- C01_anywhere_obj: an object that is not a function call resolves member-wise, keys and order kept:
    an expression has the same value as an object member as on its own -/
theorem C01_anywhere_obj (env : Env) (kvs : List (String × J))
    (h : ∀ fn body, kvs = [(fn, body)] → isFunction fn = false) :
    Spec.resolve env (.obj kvs) =
      (allSome (kvs.map fun kv => Spec.resolve env kv.2)).map
        (fun ys => .obj (pruneMembers ((kvs.map (·.1)).zip ys))) := by
  rw [Spec.resolve]
  match kvs, h with
  | [], _ => simp [Spec.resolveObj, allSome, pruneMembers]
  | [(fn, body)], h =>
    have hf := h fn body rfl
    rw [resolveObj_single_nonfn _ _ _ hf]
    cases hb : Spec.resolve env body with
    | none => simp [allSome, hb]
    | some y => simp [allSome, hb]
  | (k, v) :: r :: rs, _ =>
    rw [Spec.resolveObj, resolveMembers_eq]
    simp only [List.map_cons]
    cases hv : Spec.resolve env v with
    | none => simp [allSome]
    | some y =>
      simp only [allSome]
      cases allSome (Spec.resolve env r.2 :: rs.map fun kv => Spec.resolve env kv.2) <;> simp

/-! ### Fn::Sub: token semantics -/

/-- the text of a token list -/
def srcOf (toks : List Tok) : List Char := toks.flatMap Tok.src

/-- C01_sub_roundtrip: the scanner partitions the text — nothing is dropped, duplicated or reordered -/
theorem C01_sub_roundtrip (s : List Char) : srcOf (tokens s) = s := tokens_src s

/-- C01_sub_tokens_exact: a text written as plain characters, `${name}` placeholders and `${!literal}`
    escapes is scanned into exactly those tokens -/
theorem C01_sub_tokens_exact (toks : List Tok) (h : ∀ t ∈ toks, t.WF) : tokens (srcOf toks) = toks :=
  tokens_of_src toks h

/-- C01_sub_once: the result of `Fn::Sub` is the concatenation of the renderings of the tokens of the
    *original* text: each placeholder is replaced exactly once by its bound value, and the inserted value is
    never scanned again (it is not an argument of `tokens`), whatever it contains. -/
theorem C01_sub_once (params loc : List (String × J)) (toks : List Tok) (h : ∀ t ∈ toks, t.WF) :
    subText params loc (String.ofList (srcOf toks)) =
      (renderToks (subLookup params loc) toks).map (fun out => .str (String.ofList out)) := by
  unfold subText
  rw [String.toList_ofList, C01_sub_tokens_exact toks h]
  cases renderToks (subLookup params loc) toks <;> rfl

/-- C01_sub_bound_verbatim: a placeholder bound to text `v` renders as exactly `v` — also when `v` itself
    looks like a placeholder -/
theorem C01_sub_bound_verbatim (lk : List Char → Option (Option String)) (n : List Char) (v : String)
    (h : lk n = some (some v)) : renderTok lk (.var n) = some v.toList := by
  simp [renderTok, h]

/-- C01_sub_escape: `${!literal}` yields the literal `${literal}`, whatever `literal` is bound to -/
theorem C01_sub_escape (lk : List Char → Option (Option String)) (b : List Char) :
    renderTok lk (.esc b) = some ('$' :: '{' :: b ++ ['}']) := rfl

/-- C01_sub_unbound: an unbound placeholder is left verbatim -/
theorem C01_sub_unbound (lk : List Char → Option (Option String)) (n : List Char) (h : lk n = none) :
    renderTok lk (.var n) = some ('$' :: '{' :: n ++ ['}']) := by
  simp [renderTok, h, Tok.src]

/-- C01_sub_local_first: a variable bound in the expression's own map shadows a parameter of the same name;
    otherwise the parameter (or pseudo parameter) is used -/
theorem C01_sub_local_first (params loc : List (String × J)) (n : List Char) (s : String) :
    (J.lookup (String.ofList n) loc = some (.str s) →
      subLookup params loc n = some (strOf (resolveStr params s))) ∧
    (J.lookup (String.ofList n) loc = none → J.lookup (String.ofList n) params = some (.str s) →
      subLookup params loc n = some (strOf (resolveStr params s))) ∧
    (J.lookup (String.ofList n) loc = none → J.lookup (String.ofList n) params = none →
      subLookup params loc n = none) := by
  refine ⟨fun h => by simp [subLookup, h], fun h1 h2 => by simp [subLookup, h1, h2],
    fun h1 h2 => by simp [subLookup, h1, h2]⟩

/-- C01_sub: `Fn::Sub` with and without a variable map is the token substitution over parameters
    extended by the (resolved) map -/
theorem C01_sub (env : Env) (text : String) (locExpr : J) (loc : List (String × J))
    (hl : Spec.resolve env locExpr = some (.obj loc)) :
    Spec.resolve env (.obj [("Fn::Sub", .str text)]) = subText env.params [] text ∧
    Spec.resolve env (.obj [("Fn::Sub", .arr [.str text, locExpr])]) = subText env.params loc text := by
  constructor
  · rw [resolve_fn _ _ _ (by decide)]; unfold applyFn; simp only [ro_sub]
  · rw [resolve_fn _ _ _ (by decide), eachOf_two, hl]; unfold applyFn; simp only [ro_sub]; rfl

/-- C01_base64_alphabet: the encoding is standard base64 (RFC 4648 §4: `+` and `/` as the last two letters, `=` padding),
    not the URL-safe variant -/
theorem C01_base64_alphabet :
    base64OfString "???" = "Pz8/" ∧ base64OfString "~~~" = "fn5+" ∧ base64OfString "a" = "YQ==" ∧ base64OfString "ab" = "YWI=" ∧
    b64Alphabet.length = 64 ∧ b64Alphabet.getD 62 'A' = '+' ∧ b64Alphabet.getD 63 'A' = '/' := by
  decide +kernel

end PycfModel.Resolver

namespace PycfModel.Resolver
open PycfModel

-- Non-vacuity: concrete environments and expressions (evaluated by the kernel)
def demoEnv : Env :=
  ⟨[("A", .str "${B}"), ("B", .str "b"), ("Port", .int 8080), ("L", .arr [.str "x", .str "y"])],
   [("M", .obj [("k1", .obj [("k2", .str "v")])])], [("C", true)]⟩

example : Spec.resolve demoEnv (.obj [("Fn::Sub", .str "${A}-${B}-${!B}-${Z}")]) = some (.str "${B}-b-${B}-${Z}") := by
  decide +kernel
example : Spec.resolve demoEnv (.arr [.obj [("Fn::Sub", .arr [.str "${B}", .obj [("B", .str "loc")]])], .obj [("Ref", .str "B")]])
    = some (.arr [.str "loc", .str "b"]) := by decide +kernel
example : Spec.resolve demoEnv (.obj [("Ref", .str "Port")]) = some (.str "8080") := by decide +kernel
example : Spec.resolve demoEnv (.obj [("Fn::Select", .arr [.int 5, .obj [("Ref", .str "L")]])]) = some (.arr []) := by
  decide +kernel
example : Spec.resolve demoEnv (.obj [("Fn::FindInMap", .arr [.str "M", .str "k1", .str "zz"])]) =
    some (.str "UNDEFINED_MAPPING_M_k1_zz") := by decide +kernel
example : Tok.WF (.lit 'a') := by simp [Tok.WF]
example : Tok.WF (.var "A:b".toList) := ⟨by decide, by decide⟩
example : Tok.WF (.esc "x y".toList) := ⟨by decide, by decide⟩

end PycfModel.Resolver
