import PycfModel.Props.C10
import PycfModel.Props.C09Catalogue
/-!
C10 (catalogue part) — idempotence of Action expansion on the shipped catalogue.
-/
namespace PycfModel.Expand
open PycfModel PycfModel.Actions PycfModel.Text PycfModel.Catalogue

theorem not_wild_of_lowerClass {c : Char} (h : isLowerAlnumHyphen c = true) : c ≠ '*' ∧ c ≠ '?' := by
  constructor <;> (intro e; subst e; revert h; decide)

theorem not_wild_of_class {c : Char} (h : isAlnumHyphen c = true) : c ≠ '*' ∧ c ≠ '?' := by
  constructor <;> (intro e; subst e; revert h; decide)

theorem noWild_of_formOK {a : List Char} (h : formOK a = true) : ∀ c ∈ a, c ≠ '*' ∧ c ≠ '?' := by
  unfold formOK at h
  simp only [Bool.and_eq_true, Bool.not_eq_true', List.all_eq_true] at h
  obtain ⟨⟨_, hsvc⟩, hrest⟩ := h
  intro c hc
  rw [← List.takeWhile_append_dropWhile (p := (· != ':')) (l := a)] at hc
  rcases List.mem_append.mp hc with hc | hc
  · exact not_wild_of_lowerClass (hsvc c hc)
  · cases hd : a.dropWhile (· != ':') with
    | nil => rw [hd] at hc; cases hc
    | cons x name =>
      rw [hd] at hrest hc
      by_cases hx : x = ':'
      · subst hx
        simp only [Bool.and_eq_true, Bool.not_eq_true', List.all_eq_true] at hrest
        rcases List.mem_cons.mp hc with rfl | hc
        · decide
        · exact not_wild_of_class (hrest.2 c hc)
      · exfalso
        revert hrest
        split
        · rename_i heq; cases heq; exact absurd rfl hx
        · simp

/-- the shipped catalogue contains no wildcard characters -/
theorem C10_catalogue_no_wild : NoWild catalogue :=
  fun a ha => noWild_of_formOK (C09_catalogue_form a ha)

theorem inj_of_nodup_map {α β} (f : α → β) : ∀ (l : List α), (l.map f).Nodup →
    ∀ a ∈ l, ∀ b ∈ l, f a = f b → a = b
  | [], _, a, ha, _, _, _ => by cases ha
  | x :: xs, h, a, ha, b, hb, hab => by
    rw [List.map_cons, List.nodup_cons] at h
    rcases List.mem_cons.mp ha with ea | ha' <;> rcases List.mem_cons.mp hb with eb | hb'
    · rw [ea, eb]
    · subst ea; exact absurd (List.mem_map.mpr ⟨b, hb', hab.symm⟩) h.1
    · subst eb; exact absurd (List.mem_map.mpr ⟨a, ha', hab⟩) h.1
    · exact inj_of_nodup_map f xs h.2 a ha' b hb' hab

/-- the shipped catalogue is duplicate-free ignoring case -/
theorem C10_catalogue_nodup_ci : NodupCI catalogue := by
  intro a ha b hb h
  exact inj_of_nodup_map lower catalogue C09_catalogue_nodup_ci a ha b hb h

/-- C10_idem_action_shipped: on the shipped catalogue, expanding an expansion returns it unchanged,
    for every pattern list -/
theorem C10_idem_action_shipped (ps : List Str) :
    expand catalogue (expand catalogue ps) = expand catalogue ps :=
  C10_idem_action catalogue C10_catalogue_no_wild C10_catalogue_nodup_ci ps

theorem C10_idem_action_json_shipped (v : J) (ht : isActionText v = true) :
    expandJ catalogue false (expandJ catalogue false v) = expandJ catalogue false v :=
  C10_idem_action_json catalogue C10_catalogue_no_wild C10_catalogue_nodup_ci v ht

/-- C10_idem_tree_shipped: on the shipped catalogue, a second expansion of the `Action` elements leaves the whole
    tree — every resource, statement and nested property — as the first left it. -/
theorem C10_idem_tree_shipped (j : J) :
    walkWith (expandJ catalogue false) id (walkWith (expandJ catalogue false) id j) =
      walkWith (expandJ catalogue false) id j :=
  C10_idem_tree catalogue C10_catalogue_no_wild C10_catalogue_nodup_ci j

end PycfModel.Expand
