import PycfModel.Model.Expand
import PycfModel.Props.C09
set_option linter.unusedSimpArgs false
/-!
C10 — expand_actions changes only Action/NotAction elements and is idempotent on Action.
-/
namespace PycfModel.Expand
open PycfModel PycfModel.Actions PycfModel.Text PycfModel.Glob

mutual
  /-- `Frame j j'`: `j'` differs from `j` only in members named `Action` / `NotAction` whose value is
      action text (a string or a list of strings), and there both values are action text. -/
  inductive Frame : J → J → Prop
    | same (j : J) : Frame j j
    | arr {xs ys} : FrameList xs ys → Frame (.arr xs) (.arr ys)
    | obj {xs ys} : FrameMembers xs ys → Frame (.obj xs) (.obj ys)
  inductive FrameList : List J → List J → Prop
    | nil : FrameList [] []
    | cons {x y xs ys} : Frame x y → FrameList xs ys → FrameList (x :: xs) (y :: ys)
  inductive FrameMembers : List (String × J) → List (String × J) → Prop
    | nil : FrameMembers [] []
    | keep {k x y xs ys} : Frame x y → FrameMembers xs ys → FrameMembers ((k, x) :: xs) ((k, y) :: ys)
    | action {k x y xs ys} : (k = "Action" ∨ k = "NotAction") → isActionText x = true → isActionText y = true →
        FrameMembers xs ys → FrameMembers ((k, x) :: xs) ((k, y) :: ys)
end

theorem allStr_map_str (xs : List Str) : allStr (xs.map fun a => J.str (String.ofList a)) = true := by
  induction xs with
  | nil => rfl
  | cons x xs ih => simpa [allStr] using ih

theorem isActionText_ofStrs (xs : List Str) : isActionText (ofStrs xs) = true := by
  simp [ofStrs, isActionText, allStr_map_str]

theorem isActionText_expandJ (cat : List Str) (b : Bool) (v : J) (h : isActionText v = true) :
    isActionText (expandJ cat b v) = true := by
  unfold expandJ
  cases hv : toActionVal v with
  | none => simpa using h
  | some av => exact isActionText_ofStrs _

mutual
  theorem frame_walk (fA fN : J → J)
      (hA : ∀ v, isActionText v = true → isActionText (fA v) = true)
      (hN : ∀ v, isActionText v = true → isActionText (fN v) = true) :
      (j : J) → Frame j (walkWith fA fN j)
    | .obj kvs => by rw [walkWith]; exact Frame.obj (frame_walkMembers fA fN hA hN kvs)
    | .arr xs => by rw [walkWith]; exact Frame.arr (frame_walkList fA fN hA hN xs)
    | .null => by simp only [walkWith]; exact Frame.same _
    | .bool _ => by simp only [walkWith]; exact Frame.same _
    | .int _ => by simp only [walkWith]; exact Frame.same _
    | .num _ => by simp only [walkWith]; exact Frame.same _
    | .str _ => by simp only [walkWith]; exact Frame.same _
    | .leaf _ _ => by simp only [walkWith]; exact Frame.same _
  theorem frame_walkMembers (fA fN : J → J)
      (hA : ∀ v, isActionText v = true → isActionText (fA v) = true)
      (hN : ∀ v, isActionText v = true → isActionText (fN v) = true) :
      (kvs : List (String × J)) → FrameMembers kvs (walkMembers fA fN kvs)
    | [] => by rw [walkMembers]; exact FrameMembers.nil
    | (k, v) :: rest => by
      rw [walkMembers]
      have ih := frame_walkMembers fA fN hA hN rest
      cases v with
      | null => simp only [isNull, if_true]; exact FrameMembers.keep (Frame.same _) ih
      | obj kvs' =>
        simp only [isNull, isActionText, Bool.and_false, Bool.false_eq_true, if_false]
        exact FrameMembers.keep (frame_walk fA fN hA hN _) ih
      | bool b =>
        simp only [isNull, isActionText, Bool.and_false, Bool.false_eq_true, if_false]
        exact FrameMembers.keep (frame_walk fA fN hA hN _) ih
      | int i =>
        simp only [isNull, isActionText, Bool.and_false, Bool.false_eq_true, if_false]
        exact FrameMembers.keep (frame_walk fA fN hA hN _) ih
      | num r =>
        simp only [isNull, isActionText, Bool.and_false, Bool.false_eq_true, if_false]
        exact FrameMembers.keep (frame_walk fA fN hA hN _) ih
      | leaf a b =>
        simp only [isNull, isActionText, Bool.and_false, Bool.false_eq_true, if_false]
        exact FrameMembers.keep (frame_walk fA fN hA hN _) ih
      | str s =>
        simp only [isNull, isActionText, Bool.and_true, decide_eq_true_eq, Bool.false_eq_true, if_false]
        by_cases h1 : k = "Action"
        · simp only [h1, if_true]
          exact FrameMembers.action (Or.inl rfl) rfl (hA _ rfl) ih
        · by_cases h2 : k = "NotAction"
          · simp only [h1, if_false, h2, if_true]
            exact FrameMembers.action (Or.inr rfl) rfl (hN _ rfl) ih
          · simp only [h1, h2, if_false]
            exact FrameMembers.keep (frame_walk fA fN hA hN _) ih
      | arr xs =>
        simp only [isNull, isActionText, Bool.false_eq_true, if_false]
        by_cases ht : allStr xs = true
        · by_cases h1 : k = "Action"
          · simp only [h1, ht, decide_true, Bool.and_self, if_true]
            exact FrameMembers.action (Or.inl rfl) (by simp [isActionText, ht]) (hA _ (by simp [isActionText, ht])) ih
          · by_cases h2 : k = "NotAction"
            · simp only [h1, h2, ht, decide_false, decide_true, Bool.false_and, Bool.and_self, Bool.false_eq_true, if_false, if_true]
              exact FrameMembers.action (Or.inr rfl) (by simp [isActionText, ht]) (hN _ (by simp [isActionText, ht])) ih
            · simp only [h1, h2, decide_false, Bool.false_and, Bool.false_eq_true, if_false]
              exact FrameMembers.keep (frame_walk fA fN hA hN _) ih
        · simp only [ht, Bool.and_false, Bool.false_eq_true, if_false]
          exact FrameMembers.keep (frame_walk fA fN hA hN _) ih
  theorem frame_walkList (fA fN : J → J)
      (hA : ∀ v, isActionText v = true → isActionText (fA v) = true)
      (hN : ∀ v, isActionText v = true → isActionText (fN v) = true) :
      (xs : List J) → FrameList xs (walkList fA fN xs)
    | [] => by rw [walkList]; exact FrameList.nil
    | x :: xs => by
      rw [walkList]; exact FrameList.cons (frame_walk fA fN hA hN x) (frame_walkList fA fN hA hN xs)
end

/-- C10_frame: the expanded tree differs from the original only in `Action` / `NotAction` members whose
    value is a string or a list of strings; every other member, at any depth, is unchanged. -/
theorem C10_frame (cat : List Str) (j : J) : Frame j (walk cat j) :=
  frame_walk _ _ (isActionText_expandJ cat false) (isActionText_expandJ cat true) j

/-- C10_object_action_kept: a member named `Action` (or `NotAction`) whose value is an object is not expanded:
    its value is the walked object (same keys), never an error and never a list of actions. -/
theorem C10_object_action_kept (cat : List Str) (k : String) (kvs : List (String × J)) (rest : List (String × J)) :
    walkMembers (expandJ cat false) (expandJ cat true) ((k, .obj kvs) :: rest) =
      (k, .obj (walkMembers (expandJ cat false) (expandJ cat true) kvs)) ::
        walkMembers (expandJ cat false) (expandJ cat true) rest := by
  rw [walkMembers]
  simp [isNull, isActionText, walkWith]

/-- a mixed list (not all strings) under `Action` is walked element-wise, not expanded -/
theorem C10_mixed_action_kept (cat : List Str) (k : String) (xs : List J) (rest : List (String × J))
    (h : allStr xs = false) :
    walkMembers (expandJ cat false) (expandJ cat true) ((k, .arr xs) :: rest) =
      (k, .arr (walkList (expandJ cat false) (expandJ cat true) xs)) ::
        walkMembers (expandJ cat false) (expandJ cat true) rest := by
  rw [walkMembers]
  simp [isNull, isActionText, h, walkWith]

/-- C10_text_action_expanded: action text under `Action` becomes the specified expansion (C09). -/
theorem C10_text_action_expanded (cat : List Str) (v : J) (av : ActionVal) (h : toActionVal v = some av) :
    expandJ cat false v = ofStrs (expand cat av.toList) ∧
    expandJ cat true v = ofStrs (expandNot cat av.toList) := by
  simp [expandJ, h]

/-- C10_expandJ_is_expander: what the walk writes under Action / NotAction is what the module-level algorithm
    `_expand_actions` (model: `Actions.expandActions`) computes. -/
theorem C10_expandJ_is_expander (cat : List Str) (b : Bool) (v : J) :
    expandJ cat b v =
      (match toActionVal v with
       | some av => ofStrs (expandActions cat av b)
       | none => v) := by
  unfold expandJ
  cases toActionVal v with
  | none => rfl
  | some av =>
    cases b
    · simp [(C09_apis_agree_expander cat av).1]
    · simp [(C09_apis_agree_expander cat av).2]

/-! ### Idempotence on Action -/

def NoWild (cat : List Str) : Prop := ∀ a ∈ cat, ∀ c ∈ a, c ≠ '*' ∧ c ≠ '?'
def NodupCI (cat : List Str) : Prop := ∀ a ∈ cat, ∀ b ∈ cat, lower a = lower b → a = b

theorem lowerChar_not_wild {c : Char} (h : c ≠ '*' ∧ c ≠ '?') : lowerChar c ≠ '*' ∧ lowerChar c ≠ '?' := by
  unfold lowerChar
  split
  · rename_i hc
    have h1 : 65 ≤ c.toNat := hc.1
    have h2 : c.toNat ≤ 90 := hc.2
    have hv : (c.toNat + 32).isValidChar := by left; omega
    have : (Char.ofNat (c.toNat + 32)).toNat = c.toNat + 32 := by
      rw [Char.ofNat, dif_pos hv]; rfl
    constructor <;> intro e <;> rw [e] at this <;> simp at this <;> omega
  · exact h

/-- a catalogue entry without wildcards, used as a pattern, matches exactly the strings equal to it ignoring case -/
theorem gmatchCI_literal (q a : Str) (hq : ∀ c ∈ q, c ≠ '*' ∧ c ≠ '?') :
    gmatchCI q a = true ↔ lower q = lower a := by
  unfold gmatchCI gmatchFold
  have := C08_literal (q.map lowerChar) (a.map lowerChar) (by
    intro c hc
    rcases List.mem_map.mp hc with ⟨c', hc', rfl⟩
    exact lowerChar_not_wild (hq c' hc'))
  unfold gmatchCS at this
  rw [this]; unfold lower; exact eq_comm

/-- C10_idem_action: on a catalogue without wildcard characters and duplicate-free ignoring case,
    expanding an expansion returns it unchanged. -/
theorem C10_idem_action (cat : List Str) (hw : NoWild cat) (hn : NodupCI cat) (ps : List Str) :
    expand cat (expand cat ps) = expand cat ps := by
  apply strictSorted_ext (sorted_expand _ _) (sorted_expand _ _)
  intro a
  rw [C09_expand_mem]
  constructor
  · rintro ⟨ha, q, hq, hm⟩
    have hqc := ((C09_expand_mem cat ps q).1 hq).1
    have := (gmatchCI_literal q a (hw q hqc)).1 hm
    have e := hn q hqc a ha this
    subst e; exact hq
  · intro h
    have ha := ((C09_expand_mem cat ps a).1 h).1
    exact ⟨ha, a, h, (gmatchCI_literal a a (hw a ha)).2 rfl⟩

theorem strsOf_map_str (xs : List Str) : strsOf (xs.map fun a => J.str (String.ofList a)) = xs := by
  induction xs with
  | nil => rfl
  | cons x xs ih => simp [strsOf, ih]

/-- the JSON-level statement: the value under an `Action` key is a fixed point after one expansion -/
theorem C10_idem_action_json (cat : List Str) (hw : NoWild cat) (hn : NodupCI cat) (v : J)
    (ht : isActionText v = true) :
    expandJ cat false (expandJ cat false v) = expandJ cat false v := by
  have key : ∀ xs : List Str, expandJ cat false (ofStrs (expand cat xs)) = ofStrs (expand cat xs) := by
    intro xs
    have h1 : toActionVal (ofStrs (expand cat xs)) = some (.many (expand cat xs)) := by
      simp [ofStrs, toActionVal, allStr_map_str, strsOf_map_str]
    rw [(C10_text_action_expanded cat _ _ h1).1]
    simp [ActionVal.toList, C10_idem_action cat hw hn]
  cases v with
  | str s =>
    have h1 : toActionVal (J.str s) = some (.one s.toList) := rfl
    rw [(C10_text_action_expanded cat _ _ h1).1]; exact key _
  | arr xs =>
    have hx : allStr xs = true := by simpa [isActionText] using ht
    have h1 : toActionVal (J.arr xs) = some (.many (strsOf xs)) := by simp [toActionVal, hx]
    rw [(C10_text_action_expanded cat _ _ h1).1]; exact key _
  | null => simp [isActionText] at ht
  | bool _ => simp [isActionText] at ht
  | int _ => simp [isActionText] at ht
  | num _ => simp [isActionText] at ht
  | leaf _ _ => simp [isActionText] at ht
  | obj _ => simp [isActionText] at ht

/-! ### Idempotence of the whole walk -/

theorem isNull_walkWith (fA fN : J → J) (v : J) : isNull (walkWith fA fN v) = isNull v := by
  cases v <;> simp [walkWith, isNull]

theorem allStr_walkList (fA fN : J → J) : (xs : List J) → allStr (walkList fA fN xs) = allStr xs
  | [] => by simp [walkList]
  | x :: xs => by
    rw [walkList]
    cases x <;> simp [allStr, walkWith, allStr_walkList fA fN xs]

theorem isActionText_walkWith (fA fN : J → J) (v : J) :
    isActionText (walkWith fA fN v) = isActionText v := by
  cases v <;> simp [walkWith, isActionText, allStr_walkList]

theorem isNull_of_text {v : J} (h : isActionText v = true) : isNull v = false := by
  cases v <;> simp_all [isActionText, isNull]

mutual
  theorem idem_walk (fA fN : J → J)
      (hA : ∀ v, isActionText v = true → isActionText (fA v) = true)
      (hN : ∀ v, isActionText v = true → isActionText (fN v) = true)
      (iA : ∀ v, isActionText v = true → fA (fA v) = fA v)
      (iN : ∀ v, isActionText v = true → fN (fN v) = fN v) :
      (j : J) → walkWith fA fN (walkWith fA fN j) = walkWith fA fN j
    | .obj kvs => by rw [walkWith, walkWith, idem_walkMembers fA fN hA hN iA iN kvs]
    | .arr xs => by rw [walkWith, walkWith, idem_walkList fA fN hA hN iA iN xs]
    | .null => by simp only [walkWith]
    | .bool _ => by simp only [walkWith]
    | .int _ => by simp only [walkWith]
    | .num _ => by simp only [walkWith]
    | .str _ => by simp only [walkWith]
    | .leaf _ _ => by simp only [walkWith]
  theorem idem_walkMembers (fA fN : J → J)
      (hA : ∀ v, isActionText v = true → isActionText (fA v) = true)
      (hN : ∀ v, isActionText v = true → isActionText (fN v) = true)
      (iA : ∀ v, isActionText v = true → fA (fA v) = fA v)
      (iN : ∀ v, isActionText v = true → fN (fN v) = fN v) :
      (kvs : List (String × J)) → walkMembers fA fN (walkMembers fA fN kvs) = walkMembers fA fN kvs
    | [] => by simp only [walkMembers]
    | (k, v) :: rest => by
      have ih := idem_walkMembers fA fN hA hN iA iN rest
      have ihv := idem_walk fA fN hA hN iA iN v
      rw [walkMembers]
      by_cases hnull : isNull v = true
      · simp only [hnull, if_true]
        rw [walkMembers]; simp only [hnull, if_true, ih]
      · have hnull' : isNull v = false := by simpa using hnull
        by_cases ht : isActionText v = true
        · by_cases h1 : k = "Action"
          · simp only [hnull', Bool.false_eq_true, if_false, h1, ht, decide_true, Bool.and_self, if_true]
            rw [walkMembers]
            simp only [isNull_of_text (hA v ht), Bool.false_eq_true, if_false, hA v ht, decide_true,
              Bool.and_self, if_true, iA v ht, ih]
          · by_cases h2 : k = "NotAction"
            · subst h2
              have hne : ("NotAction" = "Action") = False := by simp
              simp only [hnull', Bool.false_eq_true, if_false, hne, ht, decide_true, decide_false,
                Bool.false_and, Bool.and_self, if_true]
              rw [walkMembers]
              simp only [isNull_of_text (hN v ht), Bool.false_eq_true, if_false, hN v ht, decide_true,
                decide_false, Bool.false_and, Bool.and_self, if_true, iN v ht, ih, hne]
            · simp only [hnull', Bool.false_eq_true, if_false, h1, h2, decide_false, Bool.false_and]
              rw [walkMembers]
              simp only [isNull_walkWith, hnull', Bool.false_eq_true, if_false, h1, h2, decide_false,
                Bool.false_and, ihv, ih]
        · have ht' : isActionText v = false := by simpa using ht
          simp only [hnull', Bool.false_eq_true, if_false, ht', Bool.and_false]
          rw [walkMembers]
          simp only [isNull_walkWith, hnull', Bool.false_eq_true, if_false, isActionText_walkWith, ht',
            Bool.and_false, ihv, ih]
  theorem idem_walkList (fA fN : J → J)
      (hA : ∀ v, isActionText v = true → isActionText (fA v) = true)
      (hN : ∀ v, isActionText v = true → isActionText (fN v) = true)
      (iA : ∀ v, isActionText v = true → fA (fA v) = fA v)
      (iN : ∀ v, isActionText v = true → fN (fN v) = fN v) :
      (xs : List J) → walkList fA fN (walkList fA fN xs) = walkList fA fN xs
    | [] => by simp only [walkList]
    | x :: xs => by
      rw [walkList, walkList, idem_walk fA fN hA hN iA iN x, idem_walkList fA fN hA hN iA iN xs]
end

/-- C10_idem_tree: over a catalogue whose entries contain no wildcard characters and are distinct up to letter case
    (both proved of the shipped catalogue), expanding the `Action` elements of an already expanded tree changes
    nothing, anywhere in the tree (the `NotAction` elements, about which the property says nothing, are held fixed
    here). -/
theorem C10_idem_tree (cat : List Str) (hw : NoWild cat) (hn : NodupCI cat) (j : J) :
    walkWith (expandJ cat false) id (walkWith (expandJ cat false) id j) = walkWith (expandJ cat false) id j :=
  idem_walk _ _ (isActionText_expandJ cat false) (fun _ h => h)
    (C10_idem_action_json cat hw hn) (fun _ _ => rfl) j

/-- C10_total: the walk is a total function into JSON: it has no error outcome on any input tree. -/
theorem C10_total (cat : List Str) (j : J) : ∃ j', walk cat j = j' := ⟨_, rfl⟩

-- Non-vacuity: a WAF-style object-valued Action next to an IAM statement.
example :
    walk demoCat (.obj [("Rules", .arr [.obj [("Action", .obj [("Block", .obj [])])]]),
                        ("Statement", .obj [("Action", .str "s3:*"), ("Resource", .str "*")])]) =
      .obj [("Rules", .arr [.obj [("Action", .obj [("Block", .obj [])])]]),
            ("Statement", .obj [("Action", .arr [.str "s3:Get", .str "s3:Put"]), ("Resource", .str "*")])] := by
  decide

end PycfModel.Expand
