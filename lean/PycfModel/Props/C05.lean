import PycfModel.Props.C01
import PycfModel.Props.C03
import PycfModel.Props.C04
import PycfModel.Model.Cast
set_option linter.unusedSimpArgs false
set_option linter.unusedVariables false
/-!
C05 — the analysis pipeline never fails on a valid, fully resolvable template.

`C05_resolve_progress`: a typing judgement `WT env e τ` for template expressions (text, text lists, booleans, plain data)
and the theorem that every well-typed expression resolves — the model's `none` (every raise site of the resolver) is
unreachable — to a value of its type ("well-typed templates do not go wrong"). `C05_resources_progress` lifts it to
the resource table. `C05_network_kept`, `C05_binary_kept`: typed leaves (a CIDR range of any width, decoded bytes)
are handed over as they are, in one step, by the generic casting and by the resolver — the sites of D13 and D11.
Time and memory of the real pipeline are measured in a sandbox (see DESIGN.md, C05 partial).
-/
namespace PycfModel.Resolver
open PycfModel PycfModel.Text

inductive Ty where
  | str      -- text
  | strList  -- a list of text
  | bool     -- a condition value
  | any      -- plain data
  deriving DecidableEq

/-- a resolved value has the type -/
def ValTy (v : J) : Ty → Prop
  | .str => ∃ s, v = .str s
  | .strList => ∃ items ss, v = .arr items ∧ strsOf items = some ss
  | .bool => ∃ b, extendedBool v = some b
  | .any => True

/-- the environment is well formed: every mapping has two levels of objects and text leaves, and every parameter is a
    scalar or a list of scalars (what `Parameter.get_ref_value` produces, theorem C04_total) -/
structure EnvOK (env : Env) : Prop where
  mapTop : ∀ sm v, J.lookup sm env.mappings = some v → ∃ top, v = .obj top
  mapSecond : ∀ sm top s1 v, J.lookup sm env.mappings = some (.obj top) → J.lookup s1 top = some v → ∃ second, v = .obj second
  mapLeaf : ∀ sm top s1 second s2 v, J.lookup sm env.mappings = some (.obj top) → J.lookup s1 top = some (.obj second) →
    J.lookup s2 second = some v → ∃ s, v = .str s

/-- what a reference to parameter `name` has as its type: text when it is unbound (the UNDEFINED_PARAM_ text) -/
def RefTy (env : Env) (name : String) (τ : Ty) : Prop :=
  match J.lookup name env.params with
  | none => τ = .str ∨ τ = .any
  | some v => ValTy (renderScalars env.params v) τ

/-- no variable of the text is bound to a container -/
def SubOK (params loc : List (String × J)) (text : String) : Prop :=
  ∀ n, Tok.var n ∈ tokens text.toList → subLookup params loc n ≠ some none

mutual
  /-- well-typed expressions -/
  inductive WT (env : Env) : J → Ty → Prop where
    | text (s : String) : WT env (.str s) .str
    | boolLit (b : Bool) : WT env (.bool b) .str
    | intLit (i : Int) : WT env (.int i) .str
    | numLit (r : String) : WT env (.num r) .str
    | null : WT env .null .any
    | sub (e : J) (τ : Ty) : WT env e τ → WT env e .any
    | list (xs : List J) : WTList env xs .str → WT env (.arr xs) .strList
    | data (xs : List J) : WTList env xs .any → WT env (.arr xs) .any
    | obj (kvs : List (String × J)) : (∀ k v, kvs = [(k, v)] → isFunction k = false) → WTMembers env kvs → WT env (.obj kvs) .any
    | ref (n name : String) (τ : Ty) : resolveStr env.params n = .str name → RefTy env name τ → WT env (.obj [("Ref", .str n)]) τ
    | importValue (n name : String) (τ : Ty) : resolveStr env.params n = .str name → RefTy env name τ →
        WT env (.obj [("Fn::ImportValue", .str n)]) τ
    | join (d l : J) (sep : String) : Spec.resolve env d = some (.str sep) → WT env l .strList → WT env (.obj [("Fn::Join", .arr [d, l])]) .str
    | split (d s : J) (sep : String) : Spec.resolve env d = some (.str sep) → sep.isEmpty = false → WT env s .str →
        WT env (.obj [("Fn::Split", .arr [d, s])]) .strList
    | select (i l : J) (si : String) (n : Nat) : Spec.resolve env i = some (.str si) → parseNat? si.toList = some n →
        WT env l .strList → (∀ items, Spec.resolve env l = some (.arr items) → n < items.length) →
        WT env (.obj [("Fn::Select", .arr [i, l])]) .str
    | base64 (e : J) : WT env e .str → WT env (.obj [("Fn::Base64", e)]) .str
    | subText (text : String) : SubOK env.params [] text → WT env (.obj [("Fn::Sub", .str text)]) .str
    | subMap (text : String) (l : J) : WT env l .any →
        (∀ loc, Spec.resolve env l = some (.obj loc) → SubOK env.params loc text) → (∀ v, Spec.resolve env l = some v → ∃ loc, v = .obj loc) →
        WT env (.obj [("Fn::Sub", .arr [.str text, l])]) .str
    | ite (c : String) (a b : J) (τ : Ty) : WT env a τ → WT env b τ → WT env (.obj [("Fn::If", .arr [.str c, a, b])]) τ
    | findInMap (m k1 k2 : J) : WT env m .str → WT env k1 .str → WT env k2 .str → WT env (.obj [("Fn::FindInMap", .arr [m, k1, k2])]) .str
    | getAtt (body : J) : WT env (.obj [("Fn::GetAtt", body)]) .str
    | getAZs (body : J) : WT env (.obj [("Fn::GetAZs", body)]) .str
    | condition (c : String) : WT env (.obj [("Condition", .str c)]) .bool
    | equals (a b : J) (τa τb : Ty) : WT env a τa → WT env b τb → WT env (.obj [("Fn::Equals", .arr [a, b])]) .bool
    | not (p : J) : WT env p .bool → WT env (.obj [("Fn::Not", .arr [p])]) .bool
    | and (ps : List J) : WTList env ps .bool → WT env (.obj [("Fn::And", .arr ps)]) .bool
    | or (ps : List J) : WTList env ps .bool → WT env (.obj [("Fn::Or", .arr ps)]) .bool
  inductive WTList (env : Env) : List J → Ty → Prop where
    | nil (τ : Ty) : WTList env [] τ
    | cons (x : J) (xs : List J) (τ : Ty) : WT env x τ → WTList env xs τ → WTList env (x :: xs) τ
  inductive WTMembers (env : Env) : List (String × J) → Prop where
    | nil : WTMembers env []
    | cons (k : String) (v : J) (rest : List (String × J)) : WT env v .any → WTMembers env rest → WTMembers env ((k, v) :: rest)
end

/-! ### Helper lemmas -/

theorem strsOf_pruneList (ys : List J) (h : ∀ y ∈ ys, ∃ s, y = .str s) : ∃ ss, strsOf (pruneList ys) = some ss := by
  induction ys with
  | nil => exact ⟨[], by simp [pruneList, strsOf]⟩
  | cons y ys ih =>
    obtain ⟨s, hs⟩ := h y (by simp)
    obtain ⟨ss, hss⟩ := ih (fun z hz => h z (by simp [hz]))
    subst hs
    simp only [pruneList, List.filter_cons]
    split
    · simp only [pruneList] at hss; exact ⟨s :: ss, by simp [strsOf, hss]⟩
    · simp only [pruneList] at hss; exact ⟨ss, hss⟩

theorem renderTok_total (lk : List Char → Option (Option String)) (t : Tok) (h : ∀ n, t = .var n → lk n ≠ some none) :
    ∃ out, renderTok lk t = some out := by
  cases t with
  | lit c => exact ⟨_, rfl⟩
  | esc b => exact ⟨_, rfl⟩
  | var n =>
    simp only [renderTok]
    cases hl : lk n with
    | none => exact ⟨_, rfl⟩
    | some o =>
      cases o with
      | none => exact absurd hl (h n rfl)
      | some v => exact ⟨_, rfl⟩

theorem renderToks_total (lk : List Char → Option (Option String)) :
    ∀ toks : List Tok, (∀ n, Tok.var n ∈ toks → lk n ≠ some none) → ∃ out, renderToks lk toks = some out
  | [], _ => ⟨[], rfl⟩
  | t :: ts, h => by
    obtain ⟨a, ha⟩ := renderTok_total lk t (fun n hn => h n (by simp [hn]))
    obtain ⟨b, hb⟩ := renderToks_total lk ts (fun n hn => h n (by simp [hn]))
    exact ⟨a ++ b, by simp [renderToks, ha, hb]⟩

theorem strsOf_get : ∀ (items : List J) (ss : List String) (n : Nat), strsOf items = some ss → (h : n < items.length) → ∃ s, items[n] = .str s
  | [], _, _, _, h => by simp at h
  | x :: xs, ss, n, hss, h => by
    cases x <;> simp [strsOf] at hss
    rename_i s
    obtain ⟨ss', hss', _⟩ := hss
    cases n with
    | zero => exact ⟨s, by simp⟩
    | succ m => simpa using strsOf_get xs ss' m hss' (by simpa using h)

theorem extendedBool_bool (b : Bool) : extendedBool (.bool b) = some b := rfl

theorem mapM_extendedBool (rs : List J) (h : ∀ r ∈ rs, ∃ b, extendedBool r = some b) : ∃ bs, rs.mapM extendedBool = some bs := by
  induction rs with
  | nil => exact ⟨[], rfl⟩
  | cons r rs ih =>
    obtain ⟨b, hb⟩ := h r (by simp)
    obtain ⟨bs, hbs⟩ := ih (fun z hz => h z (by simp [hz]))
    exact ⟨b :: bs, by simp [List.mapM_cons, hb, hbs]⟩

/-! ### Progress and preservation -/

mutual
  /-- C05_resolve_progress: a well-typed expression resolves, to a value of its type -/
  theorem C05_resolve_progress (env : Env) (hE : EnvOK env) : ∀ (e : J) (τ : Ty), WT env e τ → ∃ v, Spec.resolve env e = some v ∧ ValTy v τ
    | _, _, .text s => by
      obtain ⟨t, ht⟩ := resolveStr_isStr env.params s
      exact ⟨.str t, by simp [Spec.resolve, ht], ⟨t, rfl⟩⟩
    | _, _, .boolLit b => ⟨.str (if b then "true" else "false"), by simp [Spec.resolve], ⟨_, rfl⟩⟩
    | _, _, .intLit i => ⟨.str (String.ofList (intToChars i)), by simp [Spec.resolve], ⟨_, rfl⟩⟩
    | _, _, .numLit r => ⟨.str r, by simp [Spec.resolve], ⟨_, rfl⟩⟩
    | _, _, .null => ⟨.null, by simp [Spec.resolve], trivial⟩
    | e, _, .sub _ τ h => by
      obtain ⟨v, hv, _⟩ := C05_resolve_progress env hE e τ h
      exact ⟨v, hv, trivial⟩
    | _, _, .list xs h => by
      obtain ⟨ys, hys, hty⟩ := progress_list env hE xs .str h
      obtain ⟨ss, hss⟩ := strsOf_pruneList ys hty
      exact ⟨.arr (pruneList ys), by simp [Spec.resolve, hys], ⟨_, ss, rfl, hss⟩⟩
    | _, _, .data xs h => by
      obtain ⟨ys, hys, _⟩ := progress_list env hE xs .any h
      exact ⟨.arr (pruneList ys), by simp [Spec.resolve, hys], trivial⟩
    | _, _, .obj kvs hk hm => by
      match kvs, hk, hm with
      | [], _, _ => exact ⟨.obj [], by simp [Spec.resolve, Spec.resolveObj], trivial⟩
      | [(k, v)], hk, .cons _ _ _ hv _ =>
        obtain ⟨y, hy, _⟩ := C05_resolve_progress env hE v .any hv
        have hf := hk k v rfl
        have hobj : Spec.resolveObj env [(k, v)] = (Spec.resolve env v).map fun y => .obj (pruneMembers [(k, y)]) := by
          cases v <;> simp [Spec.resolveObj, hf]
        exact ⟨.obj (pruneMembers [(k, y)]), by simp only [Spec.resolve, hobj, hy, Option.map_some], trivial⟩
      | (k, v) :: r :: rs, _, .cons _ _ _ hv hrest =>
        obtain ⟨y, hy, _⟩ := C05_resolve_progress env hE v .any hv
        obtain ⟨ms, hms⟩ := progress_members env hE (r :: rs) hrest
        exact ⟨.obj (pruneMembers ((k, y) :: ms)), by simp only [Spec.resolve, Spec.resolveObj, hy, hms], trivial⟩
    | _, τ, .ref n name _ hn hty => by
      have hb : Spec.resolve env (.str n) = some (.str name) := by simp [Spec.resolve, hn]
      unfold RefTy at hty
      cases hl : J.lookup name env.params with
      | none =>
        simp only [hl] at hty
        refine ⟨_, (C01_ref_undefined env (.str n) name hb hl).1, ?_⟩
        rcases hty with h | h <;> subst h
        · exact ⟨_, rfl⟩
        · trivial
      | some v => simp only [hl] at hty; exact ⟨_, (C01_ref_bound env (.str n) name v hb hl).1, hty⟩
    | _, τ, .importValue n name _ hn hty => by
      have hb : Spec.resolve env (.str n) = some (.str name) := by simp [Spec.resolve, hn]
      unfold RefTy at hty
      cases hl : J.lookup name env.params with
      | none =>
        simp only [hl] at hty
        refine ⟨_, (C01_ref_undefined env (.str n) name hb hl).2, ?_⟩
        rcases hty with h | h <;> subst h
        · exact ⟨_, rfl⟩
        · trivial
      | some v => simp only [hl] at hty; exact ⟨_, (C01_ref_bound env (.str n) name v hb hl).2, hty⟩
    | _, _, .join d l sep hd hl => by
      obtain ⟨v, hv, items, ss, hvi, hss⟩ := C05_resolve_progress env hE l .strList hl
      subst hvi
      exact ⟨_, C01_join env d l sep items ss hd hv hss, ⟨_, rfl⟩⟩
    | _, _, .split d s sep hd hne hs => by
      obtain ⟨v, hv, src, hsrc⟩ := C05_resolve_progress env hE s .str hs
      subst hsrc
      refine ⟨_, C01_split env d s sep src hd hv (by simpa using hne), ?_⟩
      refine ⟨_, (split sep.toList src.toList).map String.ofList, rfl, ?_⟩
      generalize split sep.toList src.toList = parts
      induction parts with
      | nil => rfl
      | cons p ps ih => simp [strsOf, ih]
    | _, _, .select i l si n hi hn hl hlen => by
      obtain ⟨v, hv, items, ss, hvi, hss⟩ := C05_resolve_progress env hE l .strList hl
      subst hvi
      have hlt := hlen items hv
      exact ⟨_, (C01_select env i l si n items hi hn hv).1 hlt, strsOf_get items ss n hss hlt⟩
    | _, _, .base64 e h => by
      obtain ⟨v, hv, s, hs⟩ := C05_resolve_progress env hE e .str h
      subst hs
      exact ⟨_, C01_base64 env e s hv, ⟨_, rfl⟩⟩
    | _, _, .subText text hok => by
      rw [resolve_fn env "Fn::Sub" (.str text) (by decide)]
      unfold applyFn
      simp only [ro_sub]
      obtain ⟨out, hout⟩ := renderToks_total (subLookup env.params []) (tokens text.toList) hok
      exact ⟨.str (String.ofList out), by simp [subText, hout], ⟨_, rfl⟩⟩
    | _, _, .subMap text l hl hok hobj => by
      obtain ⟨v, hv, _⟩ := C05_resolve_progress env hE l .any hl
      obtain ⟨loc, hloc⟩ := hobj v hv
      subst hloc
      rw [(C01_sub env text l loc hv).2]
      obtain ⟨out, hout⟩ := renderToks_total (subLookup env.params loc) (tokens text.toList) (hok loc hv)
      exact ⟨.str (String.ofList out), by simp [subText, hout], ⟨_, rfl⟩⟩
    | _, τ, .ite c a b _ ha hb => by
      obtain ⟨va, hva, hta⟩ := C05_resolve_progress env hE a τ ha
      obtain ⟨vb, hvb, htb⟩ := C05_resolve_progress env hE b τ hb
      rw [resolve_fn env "Fn::If" _ (by decide)]
      unfold applyFn
      have hro : resolverOf "Fn::If" = some "resolve_if" := by decide
      simp only [hro, eachOf, Spec.resolveEach, hva, hvb]
      by_cases hc : condOf env c = true
      · exact ⟨va, by simp [hc], hta⟩
      · exact ⟨vb, by simp [hc], htb⟩
    | _, _, .findInMap m k1 k2 hm h1 h2 => by
      obtain ⟨vm, hvm, sm, hsm⟩ := C05_resolve_progress env hE m .str hm
      obtain ⟨v1, hv1, s1, hs1⟩ := C05_resolve_progress env hE k1 .str h1
      obtain ⟨v2, hv2, s2, hs2⟩ := C05_resolve_progress env hE k2 .str h2
      subst hsm hs1 hs2
      cases hl0 : J.lookup sm env.mappings with
      | none => exact ⟨_, C01_find_in_map_undefined env m k1 k2 sm s1 s2 hvm hv1 hv2 (Or.inl hl0), ⟨_, rfl⟩⟩
      | some t0 =>
        obtain ⟨top, ht⟩ := hE.mapTop sm t0 hl0
        subst ht
        cases hl1 : J.lookup s1 top with
        | none => exact ⟨_, C01_find_in_map_undefined env m k1 k2 sm s1 s2 hvm hv1 hv2 (Or.inr ⟨top, hl0, Or.inl hl1⟩), ⟨_, rfl⟩⟩
        | some t1 =>
          obtain ⟨second, ht1⟩ := hE.mapSecond sm top s1 t1 hl0 hl1
          subst ht1
          cases hl2 : J.lookup s2 second with
          | none =>
            exact ⟨_, C01_find_in_map_undefined env m k1 k2 sm s1 s2 hvm hv1 hv2 (Or.inr ⟨top, hl0, Or.inr ⟨second, hl1, hl2⟩⟩), ⟨_, rfl⟩⟩
          | some leaf =>
            obtain ⟨s, hs⟩ := hE.mapLeaf sm top s1 second s2 leaf hl0 hl1 hl2
            subst hs
            exact ⟨_, C01_find_in_map_found env m k1 k2 sm s1 s2 top second _ hvm hv1 hv2 hl0 hl1 hl2 (by simp), ⟨_, rfl⟩⟩
    | _, _, .getAtt body => by
      rw [resolve_fn env "Fn::GetAtt" body (by decide)]
      unfold applyFn
      have hro : resolverOf "Fn::GetAtt" = some "resolve_get_attr" := by decide
      simp only [hro]
      exact ⟨_, rfl, ⟨_, rfl⟩⟩
    | _, _, .getAZs body => by
      rw [resolve_fn env "Fn::GetAZs" body (by decide)]
      unfold applyFn
      have hro : resolverOf "Fn::GetAZs" = some "resolve_get_azs" := by decide
      simp only [hro]
      exact ⟨_, rfl, ⟨_, rfl⟩⟩
    | _, _, .condition c => by
      rw [resolve_fn env "Condition" _ (by decide)]
      unfold applyFn
      have hro : resolverOf "Condition" = some "resolve_condition" := by decide
      simp only [hro]
      exact ⟨_, rfl, ⟨_, rfl⟩⟩
    | _, _, .equals a b τa τb ha hb => by
      obtain ⟨va, hva, _⟩ := C05_resolve_progress env hE a τa ha
      obtain ⟨vb, hvb, _⟩ := C05_resolve_progress env hE b τb hb
      rw [resolve_fn env "Fn::Equals" _ (by decide)]
      unfold applyFn
      have hro : resolverOf "Fn::Equals" = some "resolve_equals" := by decide
      simp only [hro, eachOf, Spec.resolveEach, hva, hvb]
      exact ⟨_, rfl, ⟨_, rfl⟩⟩
    | _, _, .not p hp => by
      obtain ⟨vp, hvp, b, hb⟩ := C05_resolve_progress env hE p .bool hp
      rw [resolve_fn env "Fn::Not" _ (by decide)]
      unfold applyFn
      have hro : resolverOf "Fn::Not" = some "resolve_not" := by decide
      simp only [hro, eachOf, Spec.resolveEach, hvp]
      exact ⟨.bool (!b), by simp [hb], ⟨_, rfl⟩⟩
    | _, _, .and ps hps => by
      obtain ⟨ys, hys, hty⟩ := progress_list env hE ps .bool hps
      obtain ⟨bs, hbs⟩ := mapM_extendedBool ys hty
      rw [resolve_fn env "Fn::And" _ (by decide)]
      unfold applyFn
      have hro : resolverOf "Fn::And" = some "resolve_and" := by decide
      simp only [hro, eachOf, hys]
      exact ⟨.bool (bs.all id), by simp [hbs], ⟨_, rfl⟩⟩
    | _, _, .or ps hps => by
      obtain ⟨ys, hys, hty⟩ := progress_list env hE ps .bool hps
      obtain ⟨bs, hbs⟩ := mapM_extendedBool ys hty
      rw [resolve_fn env "Fn::Or" _ (by decide)]
      unfold applyFn
      have hro : resolverOf "Fn::Or" = some "resolve_or" := by decide
      simp only [hro, eachOf, hys]
      exact ⟨.bool (bs.any id), by simp [hbs], ⟨_, rfl⟩⟩
  theorem progress_list (env : Env) (hE : EnvOK env) : ∀ (xs : List J) (τ : Ty), WTList env xs τ →
      ∃ ys, allSome (Spec.resolveEach env xs) = some ys ∧ ∀ y ∈ ys, ValTy y τ
    | _, _, .nil τ => ⟨[], by simp [Spec.resolveEach, allSome], by simp⟩
    | _, _, .cons x xs τ hx hxs => by
      obtain ⟨v, hv, hty⟩ := C05_resolve_progress env hE x τ hx
      obtain ⟨ys, hys, htys⟩ := progress_list env hE xs τ hxs
      refine ⟨v :: ys, by simp [Spec.resolveEach, allSome, hv, hys], ?_⟩
      intro y hy
      rcases List.mem_cons.mp hy with h | h
      · subst h; exact hty
      · exact htys y h
  theorem progress_members (env : Env) (hE : EnvOK env) : ∀ (kvs : List (String × J)), WTMembers env kvs →
      ∃ ms, Spec.resolveMembers env kvs = some ms
    | _, .nil => ⟨[], by simp [Spec.resolveMembers]⟩
    | _, .cons k v rest hv hrest => by
      obtain ⟨y, hy, _⟩ := C05_resolve_progress env hE v .any hv
      obtain ⟨ms, hms⟩ := progress_members env hE rest hrest
      exact ⟨(k, y) :: ms, by simp [Spec.resolveMembers, hy, hms]⟩
end

/-- C05_expression_progress (the statement of `C05_resolve_progress`, outside the mutual block) -/
theorem C05_expression_progress (env : Env) (hE : EnvOK env) (e : J) (τ : Ty) (h : WT env e τ) :
    ∃ v, Spec.resolve env e = some v ∧ ValTy v τ := C05_resolve_progress env hE e τ h

end PycfModel.Resolver

namespace PycfModel.Template
open PycfModel PycfModel.Resolver

/-- C05_resources_progress: a resource table whose resources are objects with an absent or textual `Condition` member
    and well-typed contents resolves as a whole -/
theorem C05_resources_progress (env : Env) (hE : EnvOK env) :
    ∀ (rs : List (String × J)), (∀ kr ∈ rs, (∃ b, present env.conds kr.2 = some b) ∧ WT env kr.2 .any) →
      ∃ out, resolveResources env rs = some out
  | [], _ => ⟨[], rfl⟩
  | (k, r) :: rest, h => by
    obtain ⟨⟨b, hb⟩, hwt⟩ := h (k, r) (by simp)
    obtain ⟨tl, htl⟩ := C05_resources_progress env hE rest (fun kr hkr => h kr (by simp [hkr]))
    obtain ⟨v, hv, _⟩ := C05_resolve_progress env hE r .any hwt
    cases b with
    | true => exact ⟨(k, keepConditionName r v) :: tl, by simp [resolveResources, resolveResource, hb, htl, hv]⟩
    | false => exact ⟨tl, by simp [resolveResources, hb, htl]⟩

end PycfModel.Template

namespace PycfModel.Cast

/-- C05_network_kept: a typed leaf — a CIDR range of any width — is handed over by the generic casting as it is: the
    result does not depend on the payload (no address is enumerated; the site of D13) -/
theorem C05_network_kept (E : Engine) (fuel : Nat) (k p : String) : cast E fuel (.leaf k p) = .typed k p := by
  simp [cast, castWith]

end PycfModel.Cast

namespace PycfModel.Resolver

/-- C05_binary_kept: decoded bytes pass through the resolver unchanged (the raise site of D11 is gone) -/
theorem C05_binary_kept (env : Env) (p : String) : Spec.resolve env (.leaf "bytes" p) = some (.leaf "bytes" p) := by
  simp [Spec.resolve]

-- Non-vacuity: a Join over a Split over a reference is well typed in a concrete environment
example : WT ⟨[("Names", .str "a,b")], [], []⟩
    (.obj [("Fn::Join", .arr [.str "-", .obj [("Fn::Split", .arr [.str ",", .obj [("Ref", .str "Names")]])]])]) .str := by
  refine .join _ _ "-" (by decide +kernel) (.split _ _ "," (by decide +kernel) (by decide +kernel) ?_)
  exact .ref "Names" "Names" .str (by decide +kernel) ⟨"a,b", by decide +kernel⟩

end PycfModel.Resolver
