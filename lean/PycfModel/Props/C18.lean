import PycfModel.Model.Cast
set_option linter.unusedSimpArgs false
/-!
C18 — generic property casting preserves values.

`Denotes E j v`: the cast value `v` denotes the same thing as the JSON value `j`.  `Sound E`: every conversion
the engine makes on a leaf is faithful by the decidable text predicates of `Model/Cast.lean` (checked on every
observed leaf by the correspondence run).  Theorem: for every sound engine, every JSON value and every fuel,
`Denotes E j (cast E fuel j)` — the control flow of the cast cannot turn a faithful engine into an unfaithful cast.
-/
namespace PycfModel.Cast
open PycfModel PycfModel.Text

mutual
  inductive Denotes (E : Engine) : J → CV → Prop
    | null : Denotes E .null .null
    | bool (b : Bool) : Denotes E (.bool b) (.bool b)
    | int (i : Int) : Denotes E (.int i) (.int i)
    | num (r : String) : Denotes E (.num r) (.num r)
    /-- an integral float read as the integer it equals (numbers stay numbers) -/
    | numInt (r : String) (i : Int) : E.floatInt r = some i → Denotes E (.num r) (.int i)
    | typed (k p : String) : Denotes E (.leaf k p) (.typed k p)
    /-- a string kept, or converted to the bool / integer / date / timestamp / network its text is a literal of -/
    | leaf (s : String) (v : CV) : leafSound s v = true → Denotes E (.str s) v
    /-- a string that is JSON text may be replaced by (what denotes) the value it encodes -/
    | json (s : String) (d : J) (v : CV) : E.jsonLoads s = some d → Denotes E d v → Denotes E (.str s) v
    | arr {xs ys} : DenotesList E xs ys → Denotes E (.arr xs) (.list ys)
    /-- objects keep their keys, in order, member-wise -/
    | obj {kvs fs} : DenotesMembers E kvs fs → Denotes E (.obj kvs) (.generic fs)
    /-- an object accepted by one of the library's property models is that model of the same object -/
    | model (kvs : List (String × J)) (cls : String) : Denotes E (.obj kvs) (.model cls (.obj kvs))
    | fn (kvs : List (String × J)) : Denotes E (.obj kvs) (.fn (.obj kvs))
  inductive DenotesList (E : Engine) : List J → List CV → Prop
    | nil : DenotesList E [] []
    | cons {x y xs ys} : Denotes E x y → DenotesList E xs ys → DenotesList E (x :: xs) (y :: ys)
  inductive DenotesMembers (E : Engine) : List (String × J) → List (String × CV) → Prop
    | nil : DenotesMembers E [] []
    | cons {k x y xs ys} : Denotes E x y → DenotesMembers E xs ys → DenotesMembers E ((k, x) :: xs) ((k, y) :: ys)
end

structure Sound (E : Engine) : Prop where
  bool : ∀ s b, E.boolOf s = some b → leafSound s (.bool b) = true
  int : ∀ s i, E.intOf s = some i → leafSound s (.int i) = true
  date : ∀ s p, E.dateOf s = some p → leafSound s (.typed "date" p) = true
  datetime : ∀ s p, E.datetimeOf s = some p → leafSound s (.typed "datetime" p) = true
  ip4 : ∀ s p, E.ip4Of s = some p → leafSound s (.typed "ip4" p) = true
  ip6 : ∀ s p, E.ip6Of s = some p → leafSound s (.typed "ip6" p) = true
  list : ∀ s ys, E.listUnion s = some ys → ∃ xs, E.jsonLoads s = some (.arr xs) ∧ elemsSound E xs ys = true

theorem leafSound_self (s : String) : leafSound s (.str s) = true := by simp [leafSound]

theorem scalarUnion_denotes (E : Engine) (h : Sound E) (s : String) : Denotes E (.str s) (scalarUnion E s) := by
  unfold scalarUnion
  cases hb : E.boolOf s with
  | some b => exact Denotes.leaf _ _ (h.bool s b hb)
  | none =>
  cases hi : E.intOf s with
  | some i => exact Denotes.leaf _ _ (h.int s i hi)
  | none =>
  cases hd : E.dateOf s with
  | some p => exact Denotes.leaf _ _ (h.date s p hd)
  | none =>
  cases hdt : E.datetimeOf s with
  | some p => exact Denotes.leaf _ _ (h.datetime s p hdt)
  | none =>
  cases h4 : E.ip4Of s with
  | some p => exact Denotes.leaf _ _ (h.ip4 s p h4)
  | none =>
  cases h6 : E.ip6Of s with
  | some p => exact Denotes.leaf _ _ (h.ip6 s p h6)
  | none => exact Denotes.leaf _ _ (leafSound_self s)

mutual
  theorem castWith_denotes (E : Engine) (onStr : String → CV) (hs : ∀ s, Denotes E (.str s) (onStr s)) :
      (j : J) → Denotes E j (castWith E onStr j)
    | .null => by simp only [castWith]; exact Denotes.null
    | .bool b => by simp only [castWith]; exact Denotes.bool b
    | .int i => by simp only [castWith]; exact Denotes.int i
    | .num r => by simp only [castWith]; exact Denotes.num r
    | .leaf k p => by simp only [castWith]; exact Denotes.typed k p
    | .str s => by simp only [castWith]; exact hs s
    | .arr xs => by simp only [castWith]; exact Denotes.arr (castListWith_denotes E onStr hs xs)
    | .obj kvs => by
      simp only [castWith]
      split
      · rename_i he
        have : kvs = [] := List.isEmpty_iff.mp he
        subst this; exact Denotes.obj DenotesMembers.nil
      · split
        · exact Denotes.fn kvs
        · split
          · exact Denotes.model kvs _
          · exact Denotes.obj (castMembersWith_denotes E onStr hs kvs)
  theorem castListWith_denotes (E : Engine) (onStr : String → CV) (hs : ∀ s, Denotes E (.str s) (onStr s)) :
      (xs : List J) → DenotesList E xs (castListWith E onStr xs)
    | [] => by simp only [castListWith]; exact DenotesList.nil
    | x :: xs => by
      simp only [castListWith]
      exact DenotesList.cons (castWith_denotes E onStr hs x) (castListWith_denotes E onStr hs xs)
  theorem castMembersWith_denotes (E : Engine) (onStr : String → CV) (hs : ∀ s, Denotes E (.str s) (onStr s)) :
      (kvs : List (String × J)) → DenotesMembers E kvs (castMembersWith E onStr kvs)
    | [] => by simp only [castMembersWith]; exact DenotesMembers.nil
    | (k, v) :: rest => by
      simp only [castMembersWith]
      exact DenotesMembers.cons (castWith_denotes E onStr hs v) (castMembersWith_denotes E onStr hs rest)
end

/-- a faithful element conversion followed by a cast that denotes the converted element denotes the original -/
theorem elem_compose (E : Engine) (onStr : String → CV) (hs : ∀ s, Denotes E (.str s) (onStr s))
    (x y : J) (h : elemSound E x y = true) : Denotes E x (castWith E onStr y) := by
  unfold elemSound at h
  rcases Bool.or_eq_true_iff.mp h with h | h
  · have : x = y := (J.beq_eq x y).1 h
    subst this; exact castWith_denotes E onStr hs x
  · match x, y, h with
    | .num r, .int i, h => simp only [castWith]; exact Denotes.numInt r i (by simpa using h)
    | .str s, .bool b, h => simp only [castWith]; exact Denotes.leaf _ _ h
    | .str s, .int i, h => simp only [castWith]; exact Denotes.leaf _ _ h
    | .str s, .leaf k p, h => simp only [castWith]; exact Denotes.leaf _ _ h

theorem elems_compose (E : Engine) (onStr : String → CV) (hs : ∀ s, Denotes E (.str s) (onStr s)) :
    ∀ (xs ys : List J), elemsSound E xs ys = true → DenotesList E xs (castListWith E onStr ys)
  | [], [], _ => by simp only [castListWith]; exact DenotesList.nil
  | x :: xs, y :: ys, h => by
    simp only [elemsSound, Bool.and_eq_true] at h
    simp only [castListWith]
    exact DenotesList.cons (elem_compose E onStr hs x y h.1) (elems_compose E onStr hs xs ys h.2)
  | [], _ :: _, h => by simp [elemsSound] at h
  | _ :: _, [], h => by simp [elemsSound] at h

theorem fromDecoded_denotes (E : Engine) (h : Sound E) (inner : Option (String → CV))
    (hin : ∀ f, inner = some f → ∀ s, Denotes E (.str s) (f s))
    (s : String) (d : J) (hd : E.jsonLoads s = some d) : Denotes E (.str s) (fromDecoded E inner s d) := by
  unfold fromDecoded
  cases d with
  | null => exact Denotes.leaf _ _ (leafSound_self s)
  | bool b => exact Denotes.json s _ _ hd (Denotes.bool b)
  | int i => exact Denotes.json s _ _ hd (Denotes.int i)
  | num r =>
    simp only
    cases hf : E.floatInt r with
    | some i => exact Denotes.json s _ _ hd (Denotes.numInt r i hf)
    | none => exact Denotes.json s _ _ hd (Denotes.num r)
  | leaf k p => exact Denotes.leaf _ _ (leafSound_self s)
  | str t => exact Denotes.leaf _ _ (leafSound_self s)
  | obj kvs =>
    simp only
    split
    · exact Denotes.json s _ _ hd (Denotes.fn kvs)
    · split
      · exact Denotes.json s _ _ hd (Denotes.model kvs _)
      · exact Denotes.leaf _ _ (leafSound_self s)
  | arr xs =>
    simp only
    cases hl : E.listUnion s with
    | none => exact Denotes.leaf _ _ (leafSound_self s)
    | some ys =>
      cases inner with
      | none => exact Denotes.leaf _ _ (leafSound_self s)
      | some f =>
        simp only
        obtain ⟨xs', hx, hs'⟩ := h.list s ys hl
        rw [hd] at hx
        cases hx
        exact Denotes.json s _ _ hd (Denotes.arr (elems_compose E f (hin f rfl) xs ys hs'))

theorem strCast_denotes (E : Engine) (h : Sound E) : ∀ (fuel : Nat) (s : String), Denotes E (.str s) (strCast E fuel s)
  | 0, s => by
    simp only [strCast]
    cases hd : E.jsonLoads s with
    | none => exact scalarUnion_denotes E h s
    | some d => exact fromDecoded_denotes E h none (by intro f hf; cases hf) s d hd
  | fuel + 1, s => by
    simp only [strCast]
    cases hd : E.jsonLoads s with
    | none => exact scalarUnion_denotes E h s
    | some d =>
      exact fromDecoded_denotes E h (some (strCast E fuel))
        (by intro f hf; cases hf; exact strCast_denotes E h fuel) s d hd

/-- C18_preserves: whatever the engine answers on leaves, as long as each answer is faithful, the value the cast
    returns denotes the JSON value it was given — for every JSON value, at any nesting of containers and of JSON
    text inside strings -/
theorem C18_preserves (E : Engine) (h : Sound E) (fuel : Nat) (j : J) : Denotes E j (cast E fuel j) :=
  castWith_denotes E (strCast E fuel) (strCast_denotes E h fuel) j

/-- C18_bool_only_literals: the only strings that may become booleans are `true` / `false` in any letter case
    (never `1`, `0`, `yes`, `on`) -/
theorem C18_bool_only_literals (s : String) (b : Bool) :
    leafSound s (.bool b) = true ↔ lower s.toList = (if b then "true".toList else "false".toList) := by
  simp [leafSound]

theorem C18_not_bool : leafSound "1" (.bool true) = false ∧ leafSound "yes" (.bool true) = false ∧
    leafSound "on" (.bool true) = false ∧ leafSound "0" (.bool false) = false ∧ leafSound "TRUE" (.bool true) = true := by
  refine ⟨by decide +kernel, by decide +kernel, by decide +kernel, by decide +kernel, by decide +kernel⟩

/-- C18_scalars_kept: JSON booleans, integers, numbers and null are kept as they are (a float stays a number) -/
theorem C18_scalars_kept (E : Engine) (fuel : Nat) :
    (∀ b, cast E fuel (.bool b) = .bool b) ∧ (∀ i, cast E fuel (.int i) = .int i) ∧
    (∀ r, cast E fuel (.num r) = .num r) ∧ cast E fuel .null = .null := by
  refine ⟨fun _ => by simp [cast, castWith], fun _ => by simp [cast, castWith], fun _ => by simp [cast, castWith],
    by simp [cast, castWith]⟩

/-- C18_timestamp_needs_shape: a string becomes a timestamp only if it is written as one — a bare number such as
    `1.5`, `05` or `20191204` is never a faithful timestamp -/
theorem C18_timestamp_needs_shape :
    leafSound "1.5" (.typed "datetime" "1970-01-01 00:00:01.500000+00:00") = false ∧
    leafSound "20191204" (.typed "datetime" "x") = false ∧
    leafSound "2011-11-04T00:05:23" (.typed "datetime" "2011-11-04 00:05:23") = true := by
  refine ⟨by decide +kernel, by decide +kernel, by decide +kernel⟩

/-- C18_timestamp_keeps_zone: a timestamp written with an offset is faithfully converted only to a value that carries
    the same offset (`Z` being `+00:00`); dropping the offset, or reading the day or the hour differently, is not faithful -/
theorem C18_timestamp_keeps_zone :
    leafSound "2020-01-01T10:30:00+02:00" (.typed "datetime" "2020-01-01 10:30:00+02:00") = true ∧
    leafSound "2020-01-01T10:30:00+02:00" (.typed "datetime" "2020-01-01 10:30:00") = false ∧
    leafSound "2021-06-30T23:15:00Z" (.typed "datetime" "2021-06-30 23:15:00+00:00") = true ∧
    leafSound "2021-06-30T23:15:00Z" (.typed "datetime" "2021-06-30 23:15:00") = false ∧
    leafSound "2021-06-30T23:15:00-05:30" (.typed "datetime" "2021-06-30 23:15:00+05:30") = false ∧
    leafSound "2021-06-30T23:15:00" (.typed "datetime" "2021-06-30 23:15:00+00:00") = false ∧
    leafSound "2021-06-30T23:15:00" (.typed "datetime" "2021-06-30 21:15:00") = false := by
  refine ⟨by decide +kernel, by decide +kernel, by decide +kernel, by decide +kernel, by decide +kernel,
    by decide +kernel, by decide +kernel⟩

/-- the zone test is general: whenever a timestamp conversion is judged faithful, text and value agree on the zone -/
theorem C18_timestamp_zone_agrees (s p : String) (hs : isIsoTimestamp s.toList = true)
    (h : leafSound s (.typed "datetime" p) = true) : zoneOf s.toList = zoneOf p.toList := by
  simp only [leafSound, hs, Bool.true_and, Bool.or_eq_true, Bool.and_eq_true] at h
  rcases h with h | h
  · simp only [sameInstantText, Bool.and_eq_true] at h
    exact eq_of_beq h.2
  · have hd := h.1.1
    -- a text cannot be both a ten-character date and a longer timestamp
    exfalso
    have h10 : s.toList.length = 10 := by
      generalize s.toList = l at hd
      unfold isIsoDate at hd
      split at hd
      · simp
      · simp at hd
    have : isIsoTimestamp s.toList = false := by
      unfold isIsoTimestamp
      have : s.toList.drop 10 = [] := by simp [List.drop_eq_nil_iff, h10]
      simp [this]
    simp [this] at hs

theorem length_castListWith (E : Engine) (f : String → CV) : ∀ xs, (castListWith E f xs).length = xs.length
  | [] => by simp [castListWith]
  | _ :: xs => by simp [castListWith, length_castListWith E f xs]

theorem keys_castMembersWith (E : Engine) (f : String → CV) :
    ∀ kvs, (castMembersWith E f kvs).map (·.1) = kvs.map (·.1)
  | [] => by simp [castMembersWith]
  | (k, v) :: rest => by simp [castMembersWith, keys_castMembersWith E f rest]

/-- C18_shape: arrays keep their length and order; objects that are not a function call or a known property model
    keep their keys and order; the empty object stays an empty object -/
theorem C18_shape (E : Engine) (fuel : Nat) :
    (∀ xs, ∃ ys, cast E fuel (.arr xs) = .list ys ∧ ys.length = xs.length) ∧
    (∀ kvs, isFunctionObj kvs = false → E.propertyModel (.obj kvs) = none →
      ∃ fs, cast E fuel (.obj kvs) = .generic fs ∧ fs.map (·.1) = kvs.map (·.1)) ∧
    cast E fuel (.obj []) = .generic [] := by
  refine ⟨fun xs => ⟨castListWith E (strCast E fuel) xs, by simp [cast, castWith], length_castListWith E _ xs⟩, ?_,
    by simp [cast, castWith]⟩
  intro kvs hf hp
  by_cases he : kvs.isEmpty = true
  · have : kvs = [] := List.isEmpty_iff.mp he
    subst this; exact ⟨[], by simp [cast, castWith], rfl⟩
  · exact ⟨castMembersWith E (strCast E fuel) kvs, by simp [cast, castWith, he, hf, hp], keys_castMembersWith E _ kvs⟩

end PycfModel.Cast
