import PycfModel.Model.IamCond
set_option linter.unusedSimpArgs false
/-!
C12 — condition blocks combine operators, keys, values and qualifiers as IAM specifies.
-/
namespace PycfModel.IamCond
open PycfModel

/-! ### lazy all / any -/

theorem allR_t_iff {α} (p : α → R) (xs : List α) : allR p xs = .t ↔ ∀ x ∈ xs, p x = .t := by
  induction xs with
  | nil => simp [allR]
  | cons x xs ih =>
    simp only [allR, List.mem_cons, forall_eq_or_imp]
    cases h : p x <;> simp [ih]

theorem allR_f {α} (p : α → R) (xs : List α) (h : allR p xs = .f) : ∃ x ∈ xs, p x = .f := by
  induction xs with
  | nil => simp [allR] at h
  | cons x xs ih =>
    simp only [allR] at h
    cases hx : p x with
    | t => rw [hx] at h; obtain ⟨y, hy, hp⟩ := ih h; exact ⟨y, List.mem_cons_of_mem _ hy, hp⟩
    | f => exact ⟨x, by simp, hx⟩
    | err => rw [hx] at h; cases h

theorem allR_err {α} (p : α → R) (xs : List α) (h : allR p xs = .err) : ∃ x ∈ xs, p x = .err := by
  induction xs with
  | nil => simp [allR] at h
  | cons x xs ih =>
    simp only [allR] at h
    cases hx : p x with
    | t => rw [hx] at h; obtain ⟨y, hy, hp⟩ := ih h; exact ⟨y, List.mem_cons_of_mem _ hy, hp⟩
    | f => rw [hx] at h; cases h
    | err => exact ⟨x, by simp, hx⟩

theorem anyR_t {α} (p : α → R) (xs : List α) (h : anyR p xs = .t) : ∃ x ∈ xs, p x = .t := by
  induction xs with
  | nil => simp [anyR] at h
  | cons x xs ih =>
    simp only [anyR] at h
    cases hx : p x with
    | t => exact ⟨x, by simp, hx⟩
    | f => rw [hx] at h; obtain ⟨y, hy, hp⟩ := ih h; exact ⟨y, List.mem_cons_of_mem _ hy, hp⟩
    | err => rw [hx] at h; cases h

theorem anyR_f_iff {α} (p : α → R) (xs : List α) : anyR p xs = .f ↔ ∀ x ∈ xs, p x = .f := by
  induction xs with
  | nil => simp [anyR]
  | cons x xs ih =>
    simp only [anyR, List.mem_cons, forall_eq_or_imp]
    cases h : p x <;> simp [ih]

/-- without exceptions, lazy any is existence -/
theorem anyR_t_iff_of_total {α} (p : α → R) (xs : List α) (hne : ∀ x ∈ xs, p x ≠ .err) :
    anyR p xs = .t ↔ ∃ x ∈ xs, p x = .t := by
  constructor
  · exact anyR_t p xs
  · rintro ⟨y, hy, hp⟩
    induction xs with
    | nil => cases hy
    | cons x xs ih =>
      simp only [anyR]
      cases hx : p x with
      | t => rfl
      | err => exact absurd hx (hne x (by simp))
      | f =>
        rcases List.mem_cons.mp hy with e | hy'
        · subst e; rw [hx] at hp; cases hp
        · exact ih (fun z hz => hne z (by simp [hz])) hy'

/-! ### The block -/

def builds (blk : Block) : Bool := !(blk.any fun o => o.2.any fun kv => buildFails kv.2)

/-- C12_true_iff: a block is satisfied exactly when every operator in it is satisfied for every one of its keys -/
theorem C12_true_iff (blk : Block) (ctx : Ctx) :
    call blk ctx = some true ↔
      builds blk = true ∧ ∀ o ∈ blk, ∀ kv ∈ o.2, evalKey (parseOp o.1) kv.1 kv.2 ctx = .t := by
  unfold call builds
  by_cases hb : (blk.any fun o => o.2.any fun kv => buildFails kv.2) = true
  · simp [hb]
  · simp only [hb, Bool.false_eq_true, if_false, Bool.not_eq_true] at hb ⊢
    simp only [hb, Bool.not_false, true_and]
    have : evalBlock blk ctx = .t ↔ ∀ o ∈ blk, ∀ kv ∈ o.2, evalKey (parseOp o.1) kv.1 kv.2 ctx = .t := by
      unfold evalBlock
      rw [allR_t_iff]
      constructor
      · intro h o ho; exact (allR_t_iff _ _).1 (h o ho)
      · intro h o ho; exact (allR_t_iff _ _).2 (h o ho)
    rw [← this]
    cases evalBlock blk ctx <;> simp

/-- C12_false: `False` means some operator fails for some key -/
theorem C12_false (blk : Block) (ctx : Ctx) (h : call blk ctx = some false) :
    ∃ o ∈ blk, ∃ kv ∈ o.2, evalKey (parseOp o.1) kv.1 kv.2 ctx = .f := by
  unfold call at h
  split at h
  · cases h
  · cases he : evalBlock blk ctx with
    | t => rw [he] at h; cases h
    | err => rw [he] at h; cases h
    | f =>
      obtain ⟨o, ho, hf⟩ := allR_f _ _ he
      obtain ⟨kv, hkv, hk⟩ := allR_f _ _ hf
      exact ⟨o, ho, kv, hkv, hk⟩

/-- C12_none: `None` means an evaluator could not be built (unresolved function as policy value) or some
    key's test raised: the context lacked the key or held an incomparable value -/
theorem C12_none (blk : Block) (ctx : Ctx) (h : call blk ctx = none) :
    builds blk = false ∨ ∃ o ∈ blk, ∃ kv ∈ o.2, evalKey (parseOp o.1) kv.1 kv.2 ctx = .err := by
  unfold call at h
  unfold builds
  split at h
  · rename_i hb; left; simp [hb]
  · right
    cases he : evalBlock blk ctx with
    | t => rw [he] at h; cases h
    | f => rw [he] at h; cases h
    | err =>
      obtain ⟨o, ho, hf⟩ := allR_err _ _ he
      obtain ⟨kv, hkv, hk⟩ := allR_err _ _ hf
      exact ⟨o, ho, kv, hkv, hk⟩

/-- C12_never_raises: calling a condition returns True, False or None — the model's result type has no exception -/
theorem C12_never_raises (blk : Block) (ctx : Ctx) :
    call blk ctx = some true ∨ call blk ctx = some false ∨ call blk ctx = none := by
  cases call blk ctx with
  | none => simp
  | some b => cases b <;> simp

/-! ### Each key is tested against its own context value only -/

theorem evalBase_ctx (base k : String) (pv : V) (ctx ctx' : Ctx) (h : ctxLookup k ctx = ctxLookup k ctx') :
    evalBase base k pv ctx = evalBase base k pv ctx' := by
  simp only [evalBase, present, h]

theorem lookup_set (k : String) (v : V) (ctx : Ctx) : ctxLookup k (ctxSet k v ctx) = some v := by
  simp [ctxSet, ctxLookup]

/-- C12_key_independent: the test of a key depends on the context only through that key's own value -/
theorem C12_key_independent (op : OpName) (k : String) (pv : V) (ctx ctx' : Ctx)
    (h : ctxLookup k ctx = ctxLookup k ctx') : evalKey op k pv ctx = evalKey op k pv ctx' := by
  have hset : ∀ item base pv', evalBase base k pv' (ctxSet k item ctx) = evalBase base k pv' (ctxSet k item ctx') :=
    fun item base pv' => evalBase_ctx _ _ _ _ _ (by rw [lookup_set, lookup_set])
  have hm : ∀ b, evalMulti op.base b k (toList pv) ctx = evalMulti op.base b k (toList pv) ctx' := by
    intro b; simp only [evalMulti, h, hset]
  have hp : present ctx k = present ctx' k := by simp only [present, h]
  unfold evalKey
  rw [hm, evalBase_ctx op.base k pv ctx ctx' h, hp]

theorem allR_congr {α} (p q : α → R) (xs : List α) (h : ∀ x ∈ xs, p x = q x) : allR p xs = allR q xs := by
  induction xs with
  | nil => rfl
  | cons x xs ih =>
    simp only [allR, h x (by simp)]
    rw [ih (fun y hy => h y (by simp [hy]))]

/-- C12_block_context_local: the whole block — True, False or None alike — depends on the request context only
    through the values of the keys the block names; every other context entry (added, removed or changed) is
    irrelevant. -/
theorem C12_block_context_local (blk : Block) (ctx ctx' : Ctx)
    (h : ∀ o ∈ blk, ∀ kv ∈ o.2, ctxLookup kv.1 ctx = ctxLookup kv.1 ctx') : call blk ctx = call blk ctx' := by
  have : evalBlock blk ctx = evalBlock blk ctx' := by
    unfold evalBlock
    apply allR_congr
    intro o ho
    unfold evalOp
    apply allR_congr
    intro kv hkv
    exact C12_key_independent _ _ _ _ _ (h o ho kv hkv)
  simp only [call, this]

/-- C12_empty_block: a block with no operator is satisfied by every context. -/
theorem C12_empty_block (ctx : Ctx) : call [] ctx = some true := by
  simp [call, evalBlock, allR]

/-- C12_conjunction: a block made of two groups of operators is satisfied exactly when each group is — the
    operators are a conjunction, whatever their number. -/
theorem C12_conjunction (b₁ b₂ : Block) (ctx : Ctx) :
    call (b₁ ++ b₂) ctx = some true ↔ call b₁ ctx = some true ∧ call b₂ ctx = some true := by
  simp only [C12_true_iff, builds, List.any_append, Bool.not_or, Bool.and_eq_true, List.mem_append]
  constructor
  · rintro ⟨⟨h₁, h₂⟩, h⟩
    exact ⟨⟨h₁, fun o ho => h o (Or.inl ho)⟩, ⟨h₂, fun o ho => h o (Or.inr ho)⟩⟩
  · rintro ⟨⟨h₁, g₁⟩, ⟨h₂, g₂⟩⟩
    exact ⟨⟨h₁, h₂⟩, fun o ho => ho.elim (g₁ o) (g₂ o)⟩

/-- C12_order_irrelevant: whether a block is satisfied does not depend on the order in which its operators (or,
    inside an operator, its keys) are written, nor on repetitions: two blocks with the same operator entries,
    each with the same key entries, are satisfied by the same contexts. -/
theorem C12_order_irrelevant (blk blk' : Block) (ctx : Ctx)
    (h : ∀ name kv, (∃ o ∈ blk, o.1 = name ∧ kv ∈ o.2) ↔ (∃ o ∈ blk', o.1 = name ∧ kv ∈ o.2)) :
    call blk ctx = some true ↔ call blk' ctx = some true := by
  have key : ∀ b b' : Block,
      (∀ name kv, (∃ o ∈ b, o.1 = name ∧ kv ∈ o.2) → (∃ o ∈ b', o.1 = name ∧ kv ∈ o.2)) →
      call b' ctx = some true → call b ctx = some true := by
    intro b b' hsub
    rw [C12_true_iff, C12_true_iff]
    rintro ⟨hb, hall⟩
    constructor
    · simp only [builds, Bool.not_eq_true', List.any_eq_false, Bool.not_eq_true] at hb ⊢
      intro o ho kv hkv
      obtain ⟨o', ho', _, hkv'⟩ := hsub o.1 kv ⟨o, ho, rfl, hkv⟩
      simpa using hb o' ho' kv hkv'
    · intro o ho kv hkv
      obtain ⟨o', ho', hn, hkv'⟩ := hsub o.1 kv ⟨o, ho, rfl, hkv⟩
      rw [← hn]; exact hall o' ho' kv hkv'
  exact ⟨key blk' blk (fun n kv => (h n kv).2), key blk blk' (fun n kv => (h n kv).1)⟩

/-! ### Values and qualifiers -/

/-- C12_ifexists: an operator with the IfExists suffix is satisfied when its key is absent (or None) -/
theorem C12_ifexists (base : String) (q : Quant) (k : String) (pv : V) (ctx : Ctx) (h : present ctx k = false) :
    evalKey ⟨base, q, true⟩ k pv ctx = .t := by
  simp [evalKey, h]

theorem C12_ifexists_present (base : String) (q : Quant) (k : String) (pv : V) (ctx : Ctx) (h : present ctx k = true) :
    evalKey ⟨base, q, true⟩ k pv ctx = evalKey ⟨base, q, false⟩ k pv ctx := by
  simp [evalKey, h]

/-- C12_values_positive: several policy values under a positive operator are alternatives: with a scalar context
    value and no exception, the key is satisfied iff some policy value matches -/
theorem C12_values_positive (base k : String) (pvs : List V) (cv : V) (ctx : Ctx)
    (hc : ctxLookup k ctx = some cv) (hs : isList cv = false) (hn : isNegated base = false)
    (hne : ∀ pv ∈ pvs, evalBase base k pv (ctxSet k cv ctx) ≠ .err) :
    evalKey ⟨base, .plain, false⟩ k (.list pvs) ctx = .t ↔ ∃ pv ∈ pvs, evalBase base k pv (ctxSet k cv ctx) = .t := by
  have hl : toList cv = [cv] := by cases cv <;> simp_all [toList, isList]
  have hp : toList (V.list pvs) = pvs := rfl
  have : (Quant.plain == Quant.forAll) = false := by decide
  simp only [evalKey, isList, Bool.or_true, if_true, Bool.false_eq_true, if_false, evalMulti, hc, hp, hl, hn, this, anyR]
  rw [← anyR_t_iff_of_total _ _ hne]
  cases anyR (fun pv => evalBase base k pv (ctxSet k cv ctx)) pvs <;> simp

/-- C12_values_negated: several policy values under a negated operator are jointly excluded: the key is
    satisfied iff no policy value matches, i.e. every negated test passes -/
theorem C12_values_negated (base k : String) (pvs : List V) (cv : V) (ctx : Ctx)
    (hc : ctxLookup k ctx = some cv) (hs : isList cv = false) (hn : isNegated base = true) :
    evalKey ⟨base, .plain, false⟩ k (.list pvs) ctx = .t ↔ ∀ pv ∈ pvs, evalBase base k pv (ctxSet k cv ctx) = .t := by
  have hl : toList cv = [cv] := by cases cv <;> simp_all [toList, isList]
  have hp : toList (V.list pvs) = pvs := rfl
  have : (Quant.plain == Quant.forAll) = false := by decide
  simp only [evalKey, isList, Bool.or_true, if_true, Bool.false_eq_true, if_false, evalMulti, hc, hp, hl, hn, this, anyR]
  rw [← allR_t_iff]
  cases allR (fun pv => evalBase base k pv (ctxSet k cv ctx)) pvs <;> simp

/-- the per-item test of the qualified forms -/
def itemTest (base k : String) (pvs : List V) (ctx : Ctx) (item : V) : R :=
  if isNegated base then allR (fun pv => evalBase base k pv (ctxSet k item ctx)) pvs
  else anyR (fun pv => evalBase base k pv (ctxSet k item ctx)) pvs

/-- C12_forall: ForAllValues requires every context value to pass the test (vacuously true for none) -/
theorem C12_forall (base k : String) (pv cv : V) (ctx : Ctx) (hc : ctxLookup k ctx = some cv) :
    evalKey ⟨base, .forAll, false⟩ k pv ctx = .t ↔ ∀ item ∈ toList cv, itemTest base k (toList pv) ctx item = .t := by
  have : (Quant.forAll != Quant.plain) = true := by decide
  simp only [evalKey, this, Bool.true_or, if_true, Bool.false_eq_true, if_false, evalMulti, hc, beq_self_eq_true]
  rw [allR_t_iff]; rfl

/-- C12_forany: ForAnyValue requires at least one context value to pass -/
theorem C12_forany (base k : String) (pv cv : V) (ctx : Ctx) (hc : ctxLookup k ctx = some cv)
    (h : evalKey ⟨base, .forAny, false⟩ k pv ctx = .t) : ∃ item ∈ toList cv, itemTest base k (toList pv) ctx item = .t := by
  have h1 : (Quant.forAny != Quant.plain) = true := by decide
  have h2 : (Quant.forAny == Quant.forAll) = false := by decide
  simp only [evalKey, h1, Bool.true_or, if_true, Bool.false_eq_true, if_false, evalMulti, hc, h2] at h
  exact anyR_t _ _ h

/-- a missing key makes the unqualified and qualified tests raise (the call then returns None) -/
theorem C12_missing_key (op : OpName) (k : String) (pv : V) (ctx : Ctx) (hc : ctxLookup k ctx = none)
    (hx : op.ifExists = false) (hnull : op.base ≠ "Null") (hip : isNet pv = true ∨ (op.base ≠ "IpAddress" ∧ op.base ≠ "NotIpAddress"))
    :
    evalKey op k pv ctx = .err := by
  simp only [evalKey, hx, Bool.false_eq_true, if_false, evalMulti, hc]
  split
  · rfl
  · unfold evalBase
    simp only [hc]
    split <;> first | rfl | simp_all

/-! ### Operator names -/

/-- C12_colon: `ForAllValues:StringLike` and `ForAllValuesStringLike` are the same operator -/
theorem C12_colon : removeColon "ForAllValues:StringLike" = "ForAllValuesStringLike" ∧
    removeColon "ForAnyValue:StringEqualsIfExists" = "ForAnyValueStringEqualsIfExists" := by
  constructor <;> decide +kernel

theorem removeColon_idem (s : String) : removeColon (removeColon s) = removeColon s := by
  simp [removeColon, List.filter_filter]

theorem C12_colon_normalise (blk : Block) :
    normalise (blk.map fun (o : String × List (String × V)) => (removeColon o.1, o.2)) = normalise blk := by
  unfold normalise
  have : (List.map (fun (x : String × List (String × V)) => match x with | (n, ks) => (removeColon n, ks))
            (List.map (fun (o : String × List (String × V)) => (removeColon o.1, o.2)) blk)) =
         List.map (fun (x : String × List (String × V)) => match x with | (n, ks) => (removeColon n, ks)) blk := by
    rw [List.map_map]
    apply List.map_congr_left
    intro o _
    simp [removeColon_idem]
  simp only [this]

/-- C12_operator_table: every field of the live StatementCondition class reads as one of the 27 base operators
    with at most one quantifier prefix and an optional IfExists suffix -/
theorem C12_operator_table :
    Generated.conditionOperatorFields.all (fun f =>
      (parseOp f).base ∈ ["ArnEquals", "ArnLike", "ArnNotEquals", "ArnNotLike", "BinaryEquals", "Bool", "DateEquals",
        "DateGreaterThan", "DateGreaterThanEquals", "DateLessThan", "DateLessThanEquals", "DateNotEquals", "IpAddress",
        "NotIpAddress", "Null", "NumericEquals", "NumericGreaterThan", "NumericGreaterThanEquals", "NumericLessThan",
        "NumericLessThanEquals", "NumericNotEquals", "StringEquals", "StringEqualsIgnoreCase", "StringLike",
        "StringNotEquals", "StringNotEqualsIgnoreCase", "StringNotLike"]) = true ∧
    Generated.conditionOperatorFields.length = 159 := by
  constructor <;> decide +kernel

-- Non-vacuity: the two repaired shapes
example : call [("StringEquals", [("a", .list [.str "1" "1", .str "2" "2"]), ("b", .list [.str "3" "3", .str "4" "4"])])]
    [("a", .str "9" "9"), ("b", .str "3" "3")] = some false := by decide +kernel
example : call [("StringNotEquals", [("a", .list [.str "1" "1", .str "2" "2"])])] [("a", .str "1" "1")] = some false := by
  decide +kernel
example : call [("ForAllValuesStringEquals", [("a", .list [.str "1" "1", .str "2" "2"])]), ("NumericLessThan", [("n", .int 5)])]
    [("a", .list [.str "1" "1", .str "2" "2"]), ("n", .int 4)] = some true := by decide +kernel
example : call [("NumericLessThan", [("n", .int 5)])] [] = none := by decide +kernel
-- order of operators and keys; an unrelated context entry
example : call [("NumericLessThan", [("n", .int 5)]), ("StringEquals", [("a", .str "1" "1")])]
      [("zzz", .int 0), ("a", .str "1" "1"), ("n", .int 4)] = some true ∧
    call [("StringEquals", [("a", .str "1" "1")]), ("NumericLessThan", [("n", .int 5)])]
      [("n", .int 4), ("a", .str "1" "1")] = some true := by decide +kernel

end PycfModel.IamCond
