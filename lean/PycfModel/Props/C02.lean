import PycfModel.Model.Template
import PycfModel.Lemmas.ResolveExt
import PycfModel.Lemmas.Lookup
import PycfModel.Props.C01
/-!
C02 — conditions, conditional resources, Fn::If and AWS::NoValue follow CloudFormation.
-/
namespace PycfModel.Template
open PycfModel PycfModel.Resolver PycfModel.Text

/-! ### Condition functions -/

theorem ro_if : resolverOf "Fn::If" = some "resolve_if" := by decide
theorem ro_cond : resolverOf "Condition" = some "resolve_condition" := by decide
theorem ro_and : resolverOf "Fn::And" = some "resolve_and" := by decide
theorem ro_or : resolverOf "Fn::Or" = some "resolve_or" := by decide
theorem ro_not : resolverOf "Fn::Not" = some "resolve_not" := by decide
theorem ro_equals : resolverOf "Fn::Equals" = some "resolve_equals" := by decide

/-- C02_if: `Fn::If` yields the branch selected by its condition; only that branch is evaluated -/
theorem C02_if (env : Env) (c : String) (a b : J) :
    Spec.resolve env (.obj [("Fn::If", .arr [.str c, a, b])]) =
      if condOf env c then Spec.resolve env a else Spec.resolve env b := by
  rw [resolve_fn _ _ _ (by decide), eachOf_three]
  unfold applyFn; simp only [ro_if]

/-- C02_condition_reference: a reference to a condition reads its value in the table, `false` when the
    table has no entry for it -/
theorem C02_condition_reference (env : Env) (c : String) :
    Spec.resolve env (.obj [("Condition", .str c)]) = some (.bool ((J.lookup c env.conds).getD false)) := by
  rw [resolve_fn _ _ _ (by decide)]
  unfold applyFn; simp only [ro_cond]; rfl

/-- C02_not / C02_equals: negation, and equality of the resolved (string-rendered) operands -/
theorem C02_not (env : Env) (p : J) (v : J) (b : Bool) (hp : Spec.resolve env p = some v)
    (hb : extendedBool v = some b) :
    Spec.resolve env (.obj [("Fn::Not", .arr [p])]) = some (.bool (!b)) := by
  rw [resolve_fn _ _ _ (by decide)]
  unfold applyFn; simp only [ro_not]
  simp [eachOf, Spec.resolveEach, hp, hb]

theorem C02_equals (env : Env) (x y vx vy : J) (hx : Spec.resolve env x = some vx)
    (hy : Spec.resolve env y = some vy) :
    Spec.resolve env (.obj [("Fn::Equals", .arr [x, y])]) = some (.bool (eqText vx vy)) := by
  rw [resolve_fn _ _ _ (by decide), eachOf_two, hx, hy]
  unfold applyFn; simp only [ro_equals]; rfl

/-- C02_equals_text: on text (the usual operands) the comparison is equality of the two strings -/
theorem C02_equals_text (a b : String) : eqText (.str a) (.str b) = (a == b) := by
  simp only [eqText, asText, pyEqJ]
  by_cases h : a = b
  · subst h; simp
  · have hne : J.str a ≠ J.str b := fun e => h (J.str.inj e)
    have h1 : (J.str a == J.str b) = false := by
      cases hb : (J.str a == J.str b) with
      | false => rfl
      | true => exact absurd (eq_of_beq hb) hne
    have h2 : (a == b) = false := by simpa using h
    rw [h1, h2]

/-- C02_equals_objects: two objects with the same members are equal whatever the order of the members -/
theorem C02_equals_objects_example :
    eqText (.obj [("team", .str "data"), ("stage", .str "prod")]) (.obj [("stage", .str "prod"), ("team", .str "data")]) = true ∧
    eqText (.obj [("team", .str "data"), ("stage", .str "prod")]) (.obj [("stage", .str "dev"), ("team", .str "data")]) = false ∧
    eqText (.arr [.str "a", .str "b"]) (.arr [.str "b", .str "a"]) = false := by decide +kernel

/-- C02_equals_renderings: an operand that is a boolean or a number (a value read from a mapping, the result of a
    condition function) is compared as the text it renders to: `true` equals the text "true" and not the number 1 (D40) -/
theorem C02_equals_renderings (b : Bool) (s : String) :
    eqText (.bool b) (.str s) = ((if b then "true" else "false") == s) ∧
    eqText (.bool true) (.int 1) = false ∧ eqText (.bool false) (.int 0) = false ∧
    eqText (.int 1) (.str "1") = true ∧ eqText (.int 1) (.num "1.0") = false ∧
    eqText (.arr [.bool true, .int 80]) (.arr [.str "true", .str "80"]) = true := by
  refine ⟨?_, by decide +kernel, by decide +kernel, by decide +kernel, by decide +kernel, by decide +kernel⟩
  exact C02_equals_text _ s

/-- C02_and_or: conjunction / disjunction of the (leniently read) booleans of all parts -/
theorem C02_and_or (env : Env) (parts : List J) (vs : List J) (bs : List Bool)
    (hv : allSome (Spec.resolveEach env parts) = some vs) (hb : vs.mapM extendedBool = some bs) :
    Spec.resolve env (.obj [("Fn::And", .arr parts)]) = some (.bool (bs.all id)) ∧
    Spec.resolve env (.obj [("Fn::Or", .arr parts)]) = some (.bool (bs.any id)) := by
  constructor
  · rw [resolve_fn _ _ _ (by decide)]
    unfold applyFn; simp only [ro_and]; simp [eachOf, hv, hb]
  · rw [resolve_fn _ _ _ (by decide)]
    unfold applyFn; simp only [ro_or]; simp [eachOf, hv, hb]

/-! ### AWS::NoValue -/

/-- C02_novalue_list: a list element is dropped iff it resolved to AWS::NoValue; the survivors keep their order -/
theorem C02_novalue_list (ys : List J) :
    (∀ y, y ∈ pruneList ys ↔ y ∈ ys ∧ isNoValue y = false) ∧ (pruneList ys).Sublist ys := by
  constructor
  · intro y; simp [pruneList, List.mem_filter]
  · exact List.filter_sublist

/-- C02_novalue_obj: an object member is dropped iff its value resolved to AWS::NoValue -/
theorem C02_novalue_obj (kvs : List (String × J)) :
    (∀ kv, kv ∈ pruneMembers kvs ↔ kv ∈ kvs ∧ isNoValue kv.2 = false) ∧ (pruneMembers kvs).Sublist kvs := by
  constructor
  · intro kv; simp [pruneMembers, List.mem_filter]
  · exact List.filter_sublist

/-- the pruned value is exactly the text `AWS::NoValue`, which is what a reference to the pseudo parameter yields -/
theorem C02_novalue_is_pseudo (j : J) : isNoValue j = true ↔ j = .str "AWS::NoValue" := by
  cases j <;> simp [isNoValue, C01_function_table.2.2]

theorem C02_novalue_ref (env : Env) (h : J.lookup "AWS::NoValue" env.params = some (.str "AWS::NoValue")) :
    Spec.resolve env (.obj [("Ref", .str "AWS::NoValue")]) = some (.str "AWS::NoValue") := by
  have hb : Spec.resolve env (.str "AWS::NoValue") = some (.str "AWS::NoValue") := by
    rw [Spec.resolve]
    have h1 : ssmKey "AWS::NoValue".toList = none := by decide +kernel
    have h2 : (decide (lower "AWS::NoValue".toList = "true".toList) || decide (lower "AWS::NoValue".toList = "false".toList)) = false := by
      decide +kernel
    simp only [resolveStr, h1, h2]; rfl
  exact ((C01_ref_bound env _ _ _ hb h).1).trans (by rfl)

/-- the live pseudo-parameter table binds AWS::NoValue to that text -/
theorem C02_novalue_pseudo : J.lookup "AWS::NoValue" Generated.pseudoParameters = some (.str "AWS::NoValue") := by
  decide +kernel

/-! ### Resource presence -/

/-- C02_presence: a resource is absent exactly when its Condition names a table entry that is false;
    with no Condition, or a Condition that names no declared condition, it is present -/
theorem C02_presence (table : List (String × Bool)) (kvs : List (String × J)) :
    (J.lookup "Condition" kvs = none → present table (.obj kvs) = some true) ∧
    (J.lookup "Condition" kvs = some .null → present table (.obj kvs) = some true) ∧
    (∀ c, J.lookup "Condition" kvs = some (.str c) →
      (present table (.obj kvs) = some false ↔ J.lookup c table = some false) ∧
      (J.lookup c table = none → present table (.obj kvs) = some true)) := by
  refine ⟨fun h => by simp [present, h], fun h => by simp [present, h], fun c h => ?_⟩
  simp only [present, h]
  cases hc : J.lookup c table with
  | none => simp
  | some b => cases b <;> simp

/-! ### The condition table does not depend on declaration order -/

theorem refsIn_perm {defs defs' : List (String × J)} (hp : defs.Perm defs') (hn : (defs.map (·.1)).Nodup) :
    refsIn defs = refsIn defs' := by
  funext k
  unfold refsIn
  rw [J.lookup_perm hp hn k]
  have : (fun r => (J.lookup r defs).isSome) = (fun r => (J.lookup r defs').isSome) := by
    funext r; rw [J.lookup_perm hp hn r]
  rw [this]

theorem mkGraph_perm {defs defs' : List (String × J)} (hp : defs.Perm defs') (hn : (defs.map (·.1)).Nodup) :
    mkGraph defs = mkGraph defs' := by
  unfold mkGraph
  have h1 : (fun k => J.lookup k defs) = (fun k => J.lookup k defs') := funext (J.lookup_perm hp hn)
  have h2 := refsIn_perm hp hn
  have h3 : (defs.map fun kv => (condRefs kv.2).length).sum = (defs'.map fun kv => (condRefs kv.2).length).sum :=
    (hp.map _).sum_nat
  have h4 : defs.length = defs'.length := hp.length_eq
  rw [h1, h2, h3, h4]

theorem condTableOf_lookup (g : CondGraph) (p m : List (String × J)) :
    ∀ (keys : List String) (t : List (String × Bool)), condTableOf g p m keys = some t →
      ∀ k, k ∈ keys → J.lookup k t = condValue g p m g.depthFuel k
  | [], t, h, k, hk => by cases hk
  | k' :: rest, t, h, k, hk => by
    simp only [condTableOf, List.mapM_cons, Option.bind_eq_bind] at h
    cases hv : condValue g p m g.depthFuel k' with
    | none => simp [hv] at h
    | some b =>
      cases ht : (rest.mapM fun k => (condValue g p m g.depthFuel k).map fun b => (k, b)) with
      | none => simp [hv, ht] at h
      | some tail =>
        simp [hv, ht] at h; subst h
        rw [J.lookup_cons]
        by_cases e : k' = k
        · subst e; simp [hv]
        · simp only [e, if_false]
          rcases List.mem_cons.mp hk with e' | hk'
          · exact absurd e'.symm e
          · exact condTableOf_lookup g p m rest tail ht k hk'

theorem condTableOf_none_iff (g : CondGraph) (p m : List (String × J)) :
    ∀ (keys : List String), condTableOf g p m keys = none ↔ ∃ k ∈ keys, condValue g p m g.depthFuel k = none
  | [] => by simp [condTableOf]
  | k' :: rest => by
    have ih := condTableOf_none_iff g p m rest
    unfold condTableOf at ih ⊢
    rw [List.mapM_cons]
    cases hv : condValue g p m g.depthFuel k' with
    | none =>
      simp only [Option.map_none, Option.bind_eq_bind, Option.bind_none, true_iff]
      exact ⟨k', by simp, hv⟩
    | some b =>
      cases ht : (rest.mapM fun k => (condValue g p m g.depthFuel k).map fun b => (k, b)) with
      | none =>
        simp only [Option.map_some, Option.bind_eq_bind, Option.bind_some, Option.bind_none, true_iff]
        obtain ⟨k, hk, hkv⟩ := ih.1 ht
        exact ⟨k, List.mem_cons_of_mem _ hk, hkv⟩
      | some tail =>
        simp only [Option.map_some, Option.bind_eq_bind, Option.bind_some, Option.pure_def, reduceCtorEq, false_iff]
        rintro ⟨k, hk, hkv⟩
        rcases List.mem_cons.mp hk with e | hk
        · subst e; rw [hv] at hkv; cases hkv
        · have := ih.2 ⟨k, hk, hkv⟩
          rw [ht] at this; cases this

theorem lookup_setMember (k : String) (v : J) : ∀ l : List (String × J), J.lookup k (setMember k v l) = some v
  | [] => by simp [setMember, J.lookup_cons]
  | (k', x) :: rest => by
    by_cases e : k' = k
    · simp [setMember, e, J.lookup_cons]
    · simp only [setMember, e, if_false, J.lookup_cons]
      exact lookup_setMember k v rest

/-- C02_condition_name_kept: the resolved resource carries, as its Condition attribute, the condition's name exactly as
    written in the template (it is a name, not text: `True` stays `True`), so a second resolve looks up the same condition -/
theorem C02_condition_name_kept (okvs rkvs : List (String × J)) (c : String)
    (ho : J.lookup "Condition" okvs = some (.str c)) :
    ∃ kvs, keepConditionName (.obj okvs) (.obj rkvs) = .obj kvs ∧ J.lookup "Condition" kvs = some (.str c) := by
  refine ⟨setMember "Condition" (.str c) rkvs, ?_, lookup_setMember "Condition" (.str c) rkvs⟩
  simp [keepConditionName, ho]

/-- more fuel never changes a value that was obtained (the bound only decides definedness) -/
theorem condValue_mono (g : CondGraph) (p m : List (String × J)) :
    ∀ (fuel : Nat) (k : String) (b : Bool), condValue g p m fuel k = some b → condValue g p m (fuel + 1) k = some b
  | 0, _, _, h => by simp [condValue] at h
  | fuel + 1, k, b, h => by
    have ih := condValue_mono g p m fuel
    unfold condValue at h ⊢
    cases hd : g.defOf k with
    | none => simp [hd] at h
    | some d =>
      simp only [hd, Option.bind_eq_bind, Option.bind_some] at h ⊢
      have hvis : ∀ (rs : List String) (out : List (String × Bool)),
          rs.mapM (fun r => (condValue g p m fuel r).map fun b => (r, b)) = some out →
          rs.mapM (fun r => (condValue g p m (fuel + 1) r).map fun b => (r, b)) = some out := by
        intro rs
        induction rs with
        | nil => intro out h; simpa using h
        | cons r rs ihr =>
          intro out h
          simp only [List.mapM_cons, Option.bind_eq_bind] at h ⊢
          cases hr : condValue g p m fuel r with
          | none => simp [hr] at h
          | some br =>
            simp only [hr, Option.map_some, Option.bind_some] at h
            cases hrest : rs.mapM (fun r => (condValue g p m fuel r).map fun b => (r, b)) with
            | none => simp [hrest] at h
            | some tl =>
              simp only [hrest, Option.bind_some] at h
              simp only [ih r br hr, Option.map_some, Option.bind_some, ihr tl hrest]
              exact h
      cases hv : (visibleRefs g k).mapM (fun r => (condValue g p m fuel r).map fun b => (r, b)) with
      | none => simp [hv] at h
      | some vis =>
        simp only [hv, Option.bind_some] at h
        simp only [hvis _ vis hv, Option.bind_some]
        exact h

/-- C02_fuel_monotone: a condition value obtained within a step bound is the value under every larger bound -/
theorem C02_fuel_monotone (g : CondGraph) (p m : List (String × J)) (fuel extra : Nat) (k : String) (b : Bool)
    (h : condValue g p m fuel k = some b) : condValue g p m (fuel + extra) k = some b := by
  induction extra with
  | zero => exact h
  | succ n ih => exact condValue_mono g p m (fuel + n) k b ih

/-- C02_order: the value of every declared condition is independent of the order in which the conditions
    are declared (for acyclic and cyclic reference graphs alike) -/
theorem C02_order (defs defs' : List (String × J)) (p m : List (String × J))
    (hp : defs.Perm defs') (hn : (defs.map (·.1)).Nodup) :
    (condTable defs p m = none ↔ condTable defs' p m = none) ∧
    (∀ t t', condTable defs p m = some t → condTable defs' p m = some t' →
      ∀ k, J.lookup k t = J.lookup k t') := by
  unfold condTable
  rw [← mkGraph_perm hp hn]
  have hkeys : ∀ k, k ∈ defs.map (·.1) ↔ k ∈ defs'.map (·.1) := fun k => (hp.map _).mem_iff
  constructor
  · rw [condTableOf_none_iff, condTableOf_none_iff]
    constructor
    · rintro ⟨k, hk, h⟩; exact ⟨k, (hkeys k).1 hk, h⟩
    · rintro ⟨k, hk, h⟩; exact ⟨k, (hkeys k).2 hk, h⟩
  · intro t t' ht ht' k
    by_cases hk : k ∈ defs.map (·.1)
    · rw [condTableOf_lookup _ p m _ t ht k hk, condTableOf_lookup _ p m _ t' ht' k ((hkeys k).1 hk)]
    · have a : J.lookup k t = none := by
        rw [J.lookup_eq_none_iff]
        intro hm
        have : t.map (·.1) = defs.map (·.1) := by
          clear hm hk
          revert t
          generalize defs.map (·.1) = keys
          intro t ht
          induction keys generalizing t with
          | nil => simp [condTableOf] at ht; subst ht; rfl
          | cons k' rest ih =>
            simp only [condTableOf, List.mapM_cons, Option.bind_eq_bind] at ht
            cases hv : condValue (mkGraph defs) p m (mkGraph defs).depthFuel k' with
            | none => simp [hv] at ht
            | some b =>
              cases hr : (rest.mapM fun k => (condValue (mkGraph defs) p m (mkGraph defs).depthFuel k).map fun b => (k, b)) with
              | none => simp [hv, hr] at ht
              | some tail =>
                simp [hv, hr] at ht; subst ht
                simp [ih tail hr]
        rw [this] at hm; exact hk hm
      have b : J.lookup k t' = none := by
        rw [J.lookup_eq_none_iff]
        intro hm
        have : t'.map (·.1) = defs'.map (·.1) := by
          clear hm hk a
          revert t'
          generalize defs'.map (·.1) = keys
          intro t' ht'
          induction keys generalizing t' with
          | nil => simp [condTableOf] at ht'; subst ht'; rfl
          | cons k' rest ih =>
            simp only [condTableOf, List.mapM_cons, Option.bind_eq_bind] at ht'
            cases hv : condValue (mkGraph defs) p m (mkGraph defs).depthFuel k' with
            | none => simp [hv] at ht'
            | some b =>
              cases hr : (rest.mapM fun k => (condValue (mkGraph defs) p m (mkGraph defs).depthFuel k).map fun b => (k, b)) with
              | none => simp [hv, hr] at ht'
              | some tail =>
                simp [hv, hr] at ht'; subst ht'
                simp [ih tail hr]
        rw [this] at hm; exact hk ((hkeys k).2 hm)
      rw [a, b]

/-- C02_reference_false: what a condition can see of the others is only the non-cyclic declared ones it
    references; a reference to an undeclared condition, or to one on a reference cycle, is not visible and
    therefore reads false (by C02_condition_reference) -/
theorem C02_reference_false (defs : List (String × J)) (k c : String)
    (h : J.lookup c defs = none ∨ isCyclic (mkGraph defs) c = true) :
    c ∉ visibleRefs (mkGraph defs) k := by
  intro hm
  simp only [visibleRefs, List.mem_filter, Bool.not_eq_true'] at hm
  rcases h with h | h
  · have : c ∈ refsIn defs k := hm.1
    unfold refsIn at this
    cases hd : J.lookup k defs with
    | none => simp [hd] at this
    | some d =>
      simp only [hd] at this
      have hc : (J.lookup c defs).isSome = true := by
        have : c ∈ (condRefs d).filter fun r => (J.lookup r defs).isSome := by
          clear hm h
          generalize ((condRefs d).filter fun r => (J.lookup r defs).isSome) = l at this
          induction l with
          | nil => simp [dedup] at this
          | cons x xs ih =>
            simp only [dedup] at this
            split at this
            · exact List.mem_cons_of_mem _ (ih this)
            · rcases List.mem_cons.mp this with e | h'
              · subst e; simp
              · exact List.mem_cons_of_mem _ (ih h')
        exact (List.mem_filter.mp this).2
      rw [h] at hc; cases hc
  · rw [h] at hm; cases hm.2

-- Non-vacuity: forward reference, mutual cycle, dependence on a cyclic condition
example : condTable [("B", .obj [("Fn::Not", .arr [.obj [("Condition", .str "A")]])]),
                     ("A", .obj [("Fn::Equals", .arr [.str "x", .str "x"])])] [] [] =
    some [("B", false), ("A", true)] := by decide +kernel
example : condTable [("A", .obj [("Fn::Not", .arr [.obj [("Condition", .str "B")]])]),
                     ("B", .obj [("Fn::Not", .arr [.obj [("Condition", .str "A")]])]),
                     ("C", .obj [("Fn::Or", .arr [.obj [("Condition", .str "A")], .obj [("Condition", .str "D")]])]),
                     ("D", .obj [("Fn::Equals", .arr [.str "1", .str "1"])])] [] [] =
    some [("A", true), ("B", true), ("C", true), ("D", true)] := by decide +kernel

end PycfModel.Template
