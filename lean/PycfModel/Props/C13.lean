import PycfModel.Model.Discover
set_option linter.unusedSimpArgs false
/-!
C13 — every embedded policy document is discoverable, exactly once.
The collector over the typed value tree; the tie to the raw JSON (generic casting) is the correspondence check.
-/
namespace PycfModel.Discover

mutual
  /-- `At π v f`: the document `f` sits in `v` at path `π` (through list indices and the fields of generic objects) -/
  inductive At : Path → TV → Found → Prop
    | doc {id} : At [] (.doc id) ⟨none, id⟩
    | policy {name id} : At [] (.policy name id) ⟨some name, id⟩
    | named {name id} : At [] (.named name id) ⟨name, id⟩
    | list {π xs f i} : AtList 0 i π xs f → At (Step.idx i :: π) (.list xs) f
    | field {π fields f k} : AtFields k π fields f → At (Step.key k :: π) (.generic fields) f
  /-- element number `i` of a list whose first element has number `base` -/
  inductive AtList : Nat → Nat → Path → List TV → Found → Prop
    | here {base π x xs f} : At π x f → AtList base base π (x :: xs) f
    | there {base i π x xs f} : AtList (base + 1) i π xs f → AtList base i π (x :: xs) f
  inductive AtFields : String → Path → List (String × TV) → Found → Prop
    | here {k π x rest f} : At π x f → AtFields k π ((k, x) :: rest) f
    | there {k k' π x rest f} : AtFields k π rest f → AtFields k π ((k', x) :: rest) f
end

mutual
  theorem mem_collectP : (v : TV) → (π : Path) → (f : Found) → ((π, f) ∈ collectP v ↔ At π v f)
    | .doc id, π, f => by
      simp only [collectP, List.mem_singleton, Prod.mk.injEq]
      constructor
      · rintro ⟨rfl, rfl⟩; exact At.doc
      · intro h; cases h; exact ⟨rfl, rfl⟩
    | .policy name id, π, f => by
      simp only [collectP, List.mem_singleton, Prod.mk.injEq]
      constructor
      · rintro ⟨rfl, rfl⟩; exact At.policy
      · intro h; cases h; exact ⟨rfl, rfl⟩
    | .named name id, π, f => by
      simp only [collectP, List.mem_singleton, Prod.mk.injEq]
      constructor
      · rintro ⟨rfl, rfl⟩; exact At.named
      · intro h; cases h; exact ⟨rfl, rfl⟩
    | .other, π, f => by
      simp only [collectP, List.not_mem_nil, false_iff]
      intro h; cases h
    | .list xs, π, f => by
      simp only [collectP]
      constructor
      · intro h
        obtain ⟨i, π', rfl, hh⟩ := (mem_collectListP 0 xs π f).1 h
        exact At.list hh
      · intro h
        cases h with
        | list hh => exact (mem_collectListP 0 xs _ f).2 ⟨_, _, rfl, hh⟩
    | .generic fields, π, f => by
      simp only [collectP]
      constructor
      · intro h
        obtain ⟨k, π', rfl, hh⟩ := (mem_collectFieldsP fields π f).1 h
        exact At.field hh
      · intro h
        cases h with
        | field hh => exact (mem_collectFieldsP fields _ f).2 ⟨_, _, rfl, hh⟩
  theorem mem_collectListP : (base : Nat) → (xs : List TV) → (π : Path) → (f : Found) →
      ((π, f) ∈ collectListP base xs ↔ ∃ i π', π = Step.idx i :: π' ∧ AtList base i π' xs f)
    | base, [], π, f => by
      simp only [collectListP, List.not_mem_nil, false_iff]
      rintro ⟨i, π', _, h⟩; cases h
    | base, x :: xs, π, f => by
      simp only [collectListP, List.mem_append, List.mem_map, Prod.mk.injEq, Prod.exists]
      constructor
      · rintro (⟨π', f', hm, rfl, rfl⟩ | h)
        · exact ⟨base, π', rfl, AtList.here ((mem_collectP x π' f').1 hm)⟩
        · obtain ⟨i, π', e, hh⟩ := (mem_collectListP (base + 1) xs π f).1 h
          exact ⟨i, π', e, AtList.there hh⟩
      · rintro ⟨i, π', rfl, hh⟩
        cases hh with
        | here ha => exact Or.inl ⟨π', f, (mem_collectP x π' f).2 ha, rfl, rfl⟩
        | there ht => exact Or.inr ((mem_collectListP (base + 1) xs _ f).2 ⟨i, π', rfl, ht⟩)
  theorem mem_collectFieldsP : (fields : List (String × TV)) → (π : Path) → (f : Found) →
      ((π, f) ∈ collectFieldsP fields ↔ ∃ k π', π = Step.key k :: π' ∧ AtFields k π' fields f)
    | [], π, f => by
      simp only [collectFieldsP, List.not_mem_nil, false_iff]
      rintro ⟨k, π', _, h⟩; cases h
    | (k0, x) :: rest, π, f => by
      simp only [collectFieldsP, List.mem_append, List.mem_map, Prod.mk.injEq, Prod.exists]
      constructor
      · rintro (⟨π', f', hm, rfl, rfl⟩ | h)
        · exact ⟨k0, π', rfl, AtFields.here ((mem_collectP x π' f').1 hm)⟩
        · obtain ⟨k, π', e, hh⟩ := (mem_collectFieldsP rest π f).1 h
          exact ⟨k, π', e, AtFields.there hh⟩
      · rintro ⟨k, π', rfl, hh⟩
        cases hh with
        | here ha => exact Or.inl ⟨π', f, (mem_collectP x π' f).2 ha, rfl, rfl⟩
        | there ht => exact Or.inr ((mem_collectFieldsP rest _ f).2 ⟨k, π', rfl, ht⟩)
end

/-- C13_complete: the collector returns a document at a path exactly when a document sits there: nothing is
    missed at any depth of lists and generic objects, and nothing is returned that is not a PolicyDocument,
    Policy or named document node -/
theorem C13_complete (v : TV) (π : Path) (f : Found) : (π, f) ∈ collectP v ↔ At π v f := mem_collectP v π f

/-- C13_named: a document inside a named policy wrapper carries that PolicyName; a bare document carries none -/
theorem C13_named (name : String) (id : Nat) :
    collectP (.policy name id) = [([], ⟨some name, id⟩)] ∧ collectP (.doc id) = [([], ⟨none, id⟩)] := by
  constructor <;> simp [collectP]

/-- C13_nothing_else: values that are not documents, lists or generic objects contribute nothing -/
theorem C13_nothing_else : collectP .other = [] := by simp [collectP]

/-! ### Exactly once: the paths returned are pairwise distinct -/

mutual
  /-- the fields of every generic object have distinct names (they come from a Python set) -/
  def WF : TV → Prop
    | .list xs => WFList xs
    | .generic fields => (fields.map (·.1)).Nodup ∧ WFFields fields
    | _ => True
  def WFList : List TV → Prop
    | [] => True
    | x :: xs => WF x ∧ WFList xs
  def WFFields : List (String × TV) → Prop
    | [] => True
    | (_, x) :: rest => WF x ∧ WFFields rest
end

theorem idx_lower_bound : ∀ (base : Nat) (xs : List TV) (π : Path) (f : Found),
    (π, f) ∈ collectListP base xs → ∃ i π', π = Step.idx i :: π' ∧ base ≤ i
  | base, [], π, f, h => by simp [collectListP] at h
  | base, x :: xs, π, f, h => by
    simp only [collectListP, List.mem_append, List.mem_map, Prod.mk.injEq, Prod.exists] at h
    rcases h with ⟨π', f', _, rfl, _⟩ | h
    · exact ⟨base, π', rfl, Nat.le_refl _⟩
    · obtain ⟨i, π', e, hi⟩ := idx_lower_bound (base + 1) xs π f h
      exact ⟨i, π', e, by omega⟩

theorem key_in_fields : ∀ (fields : List (String × TV)) (π : Path) (f : Found),
    (π, f) ∈ collectFieldsP fields → ∃ k π', π = Step.key k :: π' ∧ k ∈ fields.map (·.1)
  | [], π, f, h => by simp [collectFieldsP] at h
  | (k0, x) :: rest, π, f, h => by
    simp only [collectFieldsP, List.mem_append, List.mem_map, Prod.mk.injEq, Prod.exists] at h
    rcases h with ⟨π', f', _, rfl, _⟩ | h
    · exact ⟨k0, π', rfl, by simp⟩
    · obtain ⟨k, π', e, hk⟩ := key_in_fields rest π f h
      exact ⟨k, π', e, by simp; exact Or.inr (by simpa using hk)⟩

mutual
  /-- C13_once: no two returned documents share a path — each embedded document is returned exactly once -/
  theorem C13_once : (v : TV) → WF v → (List.Pairwise (fun a b => a.1 ≠ b.1) (collectP v))
    | .doc _, _ => by simp [collectP]
    | .policy _ _, _ => by simp [collectP]
    | .named _ _, _ => by simp [collectP]
    | .other, _ => by simp [collectP]
    | .list xs, h => by simp only [collectP]; exact once_list 0 xs (by simpa [WF] using h)
    | .generic fields, h => by
      simp only [collectP]
      have h' : (fields.map (·.1)).Nodup ∧ WFFields fields := by simpa [WF] using h
      exact once_fields fields h'.1 h'.2
  theorem once_list : (base : Nat) → (xs : List TV) → WFList xs →
      List.Pairwise (fun a b => a.1 ≠ b.1) (collectListP base xs)
    | base, [], _ => by simp [collectListP]
    | base, x :: xs, h => by
      have h' : WF x ∧ WFList xs := by simpa [WFList] using h
      simp only [collectListP]
      rw [List.pairwise_append]
      refine ⟨?_, once_list (base + 1) xs h'.2, ?_⟩
      · rw [List.pairwise_map]
        exact (C13_once x h'.1).imp (fun hne e => hne (by simpa using e))
      · intro a ha b hb e
        simp only [List.mem_map] at ha
        obtain ⟨pf, _, rfl⟩ := ha
        obtain ⟨i, π', e2, hi⟩ := idx_lower_bound (base + 1) xs b.1 b.2 (by simpa using hb)
        simp only at e
        rw [e2] at e
        simp at e
        omega
  theorem once_fields : (fields : List (String × TV)) → (fields.map (·.1)).Nodup → WFFields fields →
      List.Pairwise (fun a b => a.1 ≠ b.1) (collectFieldsP fields)
    | [], _, _ => by simp [collectFieldsP]
    | (k0, x) :: rest, hn, h => by
      have h' : WF x ∧ WFFields rest := by simpa [WFFields] using h
      rw [List.map_cons, List.nodup_cons] at hn
      simp only [collectFieldsP]
      rw [List.pairwise_append]
      refine ⟨?_, once_fields rest hn.2 h'.2, ?_⟩
      · rw [List.pairwise_map]
        exact (C13_once x h'.1).imp (fun hne e => hne (by simpa using e))
      · intro a ha b hb e
        simp only [List.mem_map] at ha
        obtain ⟨pf, _, rfl⟩ := ha
        obtain ⟨k, π', e2, hk⟩ := key_in_fields rest b.1 b.2 (by simpa using hb)
        simp only at e
        rw [e2] at e
        simp at e
        exact hn.1 (e.1 ▸ hk)
end

/-- `policy_documents` returns exactly the documents found below the set property fields -/
theorem C13_policy_documents (fields : List (String × TV)) (f : Found) :
    f ∈ policyDocuments fields ↔ ∃ k π, AtFields k π fields f := by
  simp only [policyDocuments, List.mem_map, Prod.exists, exists_and_right, exists_eq_right]
  constructor
  · rintro ⟨π, h⟩
    obtain ⟨k, π', _, hh⟩ := (mem_collectFieldsP fields π f).1 h
    exact ⟨k, π', hh⟩
  · rintro ⟨k, π, h⟩
    exact ⟨_, (mem_collectFieldsP fields _ f).2 ⟨k, π, rfl, h⟩⟩

/-- C13_conditions: `all_statement_conditions` is exactly the Condition blocks present on the statements of the
    returned documents, in document and statement order -/
theorem C13_conditions (cod : Nat → List (Option Nat)) (docs : List Found) (c : Nat) :
    c ∈ statementConditions cod docs ↔ ∃ d ∈ docs, some c ∈ cod d.id := by
  simp [statementConditions, List.mem_flatMap, List.mem_filterMap]

theorem collectFieldsP_append (xs ys : List (String × TV)) :
    collectFieldsP (xs ++ ys) = collectFieldsP xs ++ collectFieldsP ys := by
  induction xs with
  | nil => simp [collectFieldsP]
  | cons kv xs ih =>
    obtain ⟨k, x⟩ := kv
    simp only [List.cons_append, collectFieldsP, ih, List.append_assoc]

/-- C13_fields_compose: the documents of a resource are the documents of its properties, one property after the
    other — adding, removing or changing one property never hides, duplicates or reorders the documents found under
    the others. -/
theorem C13_fields_compose (xs ys : List (String × TV)) :
    policyDocuments (xs ++ ys) = policyDocuments xs ++ policyDocuments ys := by
  simp [policyDocuments, collectFieldsP_append]

/-- C13_irrelevant_property: a property that holds no document contributes nothing, wherever it stands. -/
theorem C13_irrelevant_property (xs ys : List (String × TV)) (k : String) (x : TV) (h : collectP x = []) :
    policyDocuments (xs ++ (k, x) :: ys) = policyDocuments (xs ++ ys) := by
  rw [C13_fields_compose, C13_fields_compose]
  simp [policyDocuments, collectFieldsP, h]

/-- C13_conditions_compose: likewise the conditions of several documents are those of each, in order. -/
theorem C13_conditions_compose (cod : Nat → List (Option Nat)) (d₁ d₂ : List Found) :
    statementConditions cod (d₁ ++ d₂) = statementConditions cod d₁ ++ statementConditions cod d₂ := by
  simp [statementConditions, List.flatMap_append]

-- Non-vacuity
example : policyDocuments [("A", .list [.doc 1, .generic [("PolicyDocument", .doc 2), ("x", .other)]]),
                           ("B", .policy "n" 3), ("C", .other)] = [⟨none, 1⟩, ⟨none, 2⟩, ⟨some "n", 3⟩] := by decide

end PycfModel.Discover
