import PycfModel.Model.Dispatch
import PycfModel.Lemmas.Lookup
set_option linter.unusedSimpArgs false
/-!
C14 — resource type dispatch is exact and strict.
-/
namespace PycfModel.Dispatch
open PycfModel PycfModel.Generated

/-- C14_exact: a resource whose Type is modelled is parsed into that type's dedicated class or rejected; in strict
    mode it is never downgraded to a generic resource -/
theorem C14_exact (table : List ResourceClassRow) (v : Verdicts) (res : List (String × J)) (t : String) (row : ResourceClassRow)
    (ht : typeOf res = some t) (hr : classFor table t = some row) :
    dispatch table true v res = .dedicated row.cls ∨ dispatch table true v res = .rejected := by
  simp only [dispatch, ht, Option.bind_some, hr]
  cases v.dedicatedOK <;> simp

/-- with strict mode switched off the generic fallback is allowed, and only then -/
theorem C14_non_strict (table : List ResourceClassRow) (v : Verdicts) (res : List (String × J)) (t : String) (row : ResourceClassRow)
    (ht : typeOf res = some t) (hr : classFor table t = some row) (hd : v.dedicatedOK = false) (hg : v.genericOK = true) :
    dispatch table false v res = .generic ∧ dispatch table true v res = .rejected := by
  simp [dispatch, ht, hr, hd, hg]

/-- C14_generic_other: a resource of any other Type (or without a textual Type) parses to a generic resource or is rejected -/
theorem C14_generic_other (table : List ResourceClassRow) (strict : Bool) (v : Verdicts) (res : List (String × J))
    (h : (typeOf res).bind (classFor table) = none) :
    dispatch table strict v res = (if v.genericOK then .generic else .rejected) := by
  simp [dispatch, h]

/-- C14_table: the live union — 18 classes with pairwise distinct Type literals, discriminated on `Type`, tried before
    GenericResource (left to right), every class and its Properties class forbidding unknown fields; GenericResource
    allows them, is strict by default and validates `Type` before anything else -/
theorem C14_table :
    resourceClasses.length = 18 ∧
    (resourceClasses.map (·.typeLit)).Nodup ∧
    resourceClasses.all (fun r => r.extraForbid && r.propsExtraForbid && r.fields.contains "Type" && r.fields.contains "Properties") = true ∧
    resourceDiscriminator = "Type" ∧ allResourcesMembers = ["ResourceModels", "GenericResource"] ∧
    allResourcesUnionMode = "left_to_right" ∧ genericResourceExtraAllow = true ∧ genericStrictDefault = true ∧
    genericTypeBeforeValidator = true := by
  refine ⟨by decide +kernel, by decide +kernel, by decide +kernel, by decide +kernel, by decide +kernel,
    by decide +kernel, by decide +kernel, by decide +kernel, by decide +kernel⟩

/-- C14_strict_errors: an unknown member of the resource, an unknown property, or a missing required property makes
    the definition fail the shallow rules of its class (so it is an error, by C14_exact) -/
theorem C14_strict_errors (row : ResourceClassRow) (res props : List (String × J)) :
    (∀ k, k ∈ J.keys res → ¬ row.fields.contains k = true → shallowOK row res = false) ∧
    (J.lookup "Properties" res = some (.obj props) → isFnObj props = false →
      (∀ k, k ∈ J.keys props → ¬ (row.propsFields.map (·.1)).contains k = true → shallowOK row res = false) ∧
      (∀ f, f ∈ row.propsFields → f.2 = true → J.lookup f.1 props = none → shallowOK row res = false)) := by
  constructor
  · intro k hk hn
    have : ((J.keys res).all fun k => row.fields.contains k) = false := by
      rw [List.all_eq_false]; exact ⟨k, hk, hn⟩
    unfold shallowOK
    rw [this, Bool.false_and]
  · intro hp hfn
    constructor
    · intro k hk hn
      have : ((J.keys props).all fun k => (row.propsFields.map (·.1)).contains k) = false := by
        rw [List.all_eq_false]; exact ⟨k, hk, hn⟩
      unfold shallowOK
      rw [hp]
      show (_ && propsOK row props) = false
      unfold propsOK
      rw [hfn, this, Bool.false_and, Bool.or_false, Bool.and_false]
    · intro f hf hreq hnone
      have : ((row.propsFields.filter (·.2)).all fun f => (J.lookup f.1 props).isSome) = false := by
        rw [List.all_eq_false]
        exact ⟨f, List.mem_filter.mpr ⟨hf, hreq⟩, by simp [hnone]⟩
      unfold shallowOK
      rw [hp]
      show (_ && propsOK row props) = false
      unfold propsOK
      rw [hfn, this, Bool.and_false, Bool.or_false, Bool.and_false]

/-- C14_filter: `resources_filtered_by_type` returns exactly the resources whose class (or a base class) or whose Type
    text was asked for -/
theorem C14_filter (cs ts : List String) (rs : List Parsed) (n : String) :
    n ∈ filterByType cs ts rs ↔
      ∃ r ∈ rs, r.name = n ∧ ((∃ c ∈ r.classes, c ∈ cs) ∨ (∃ t, r.type = some t ∧ t ∈ ts)) := by
  simp only [filterByType, List.mem_map, List.mem_filter, Bool.or_eq_true, List.any_eq_true, List.contains_eq_mem,
    decide_eq_true_eq]
  constructor
  · rintro ⟨r, ⟨hr, h⟩, rfl⟩
    refine ⟨r, hr, rfl, ?_⟩
    rcases h with ⟨c, hc, hcs⟩ | h
    · exact Or.inl ⟨c, hc, hcs⟩
    · cases ht : r.type with
      | none => simp [ht] at h
      | some t => simp [ht] at h; exact Or.inr ⟨t, rfl, h⟩
  · rintro ⟨r, hr, rfl, h⟩
    refine ⟨r, ⟨hr, ?_⟩, rfl⟩
    rcases h with ⟨c, hc, hcs⟩ | ⟨t, ht, hts⟩
    · exact Or.inl ⟨c, hc, hcs⟩
    · right; simp [ht, hts]

-- Non-vacuity
example : dispatch resourceClasses true ⟨false, true⟩ [("Type", .str "AWS::S3::Bucket"), ("Properties", .obj [("Bogus", .int 1)])] = .rejected := by
  decide +kernel
example : dispatch resourceClasses false ⟨false, true⟩ [("Type", .str "AWS::S3::Bucket"), ("Properties", .obj [("Bogus", .int 1)])] = .generic := by
  decide +kernel
example : dispatch resourceClasses true ⟨false, true⟩ [("Type", .str "Custom::X")] = .generic := by decide +kernel

end PycfModel.Dispatch
