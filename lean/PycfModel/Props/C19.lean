import PycfModel.Model.Validators
/-!
C19 — malformed templates are rejected cleanly.
For every JSON value, every custom validator of the library returns or raises ValueError (which pydantic turns
into its validation error); no TypeError / AttributeError escapes.  Termination of every model function is Lean's
own termination check; stack depth, memory and wall time are runtime and are exercised, not proved (partial).
-/
namespace PycfModel.Validators
open PycfModel

/-- C19_exception_class: on every JSON value each custom validator either accepts or raises ValueError -/
theorem C19_exception_class (modelled : List String) (strict : Bool) (j : J) :
    clean (checkType modelled strict j) = true ∧ clean (validateBinary j) = true ∧
    clean (checkFunction j) = true ∧ clean (genericCasting j) = true ∧ clean (removeColon j) = true ∧
    clean (effectValidator j) = true ∧ clean (semiStrictBool j) = true ∧ clean (looseNetwork j) = true := by
  refine ⟨?_, ?_, ?_, ?_, rfl, ?_, ?_, rfl⟩
  · cases j with
    | str t => simp only [checkType]; split <;> rfl
    | _ => rfl
  · unfold validateBinary
    split
    · rfl
    · split <;> rfl
    · rfl
  · unfold checkFunction
    split
    · split <;> rfl
    · rfl
  · cases j <;> rfl
  · cases j <;> rfl
  · cases j <;> rfl

/-- the two guards are what the theorem needs: without them a non-text `Type` and a non-text binary value escape
    as TypeError (witnesses of the defects D15 and D16) -/
theorem C19_guards_needed :
    clean (checkTypeUnguarded ["AWS::S3::Bucket"] true (.arr [.str "a"])) = false ∧
    clean (validateBinaryNarrow (.int 5)) = false := by
  constructor <;> decide +kernel

/-- a modelled type is refused by the generic fallback exactly in strict mode (see C14) -/
theorem C19_check_type (modelled : List String) (t : String) :
    (checkType modelled true (.str t) = .valueError ↔ modelled.contains t = true) ∧
    checkType modelled false (.str t) = .ok := by
  constructor
  · simp only [checkType, Bool.and_true]
    split <;> simp_all
  · simp [checkType]

-- Non-vacuity
example : checkType ["AWS::S3::Bucket"] true (.arr [.str "a"]) = .ok := by decide +kernel
example : validateBinary (.int 5) = .valueError := by decide +kernel
example : checkFunction (.obj [("Ref", .str "x")]) = .ok := by decide +kernel

end PycfModel.Validators
