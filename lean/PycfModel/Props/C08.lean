import PycfModel.Model.Glob
/-!
C08 — wildcard matching is IAM glob matching, never regular-expression matching.
Property theorems only; every statement quantifies over all patterns and all strings.
-/
namespace PycfModel.Glob

theorem starAux_iff (k : List Char → Bool) (s : List Char) :
    starAux k s = true ↔ ∃ s₁ s₂, s = s₁ ++ s₂ ∧ k s₂ = true := by
  induction s with
  | nil =>
    simp only [starAux]
    constructor
    · intro h; exact ⟨[], [], rfl, h⟩
    · rintro ⟨s₁, s₂, h, hk⟩
      have : s₂ = [] := by
        have := congrArg List.length h; simp at this; exact List.eq_nil_of_length_eq_zero (by omega)
      subst this; exact hk
  | cons c s ih =>
    simp only [starAux, Bool.or_eq_true, ih]
    constructor
    · rintro (h | ⟨s₁, s₂, h, hk⟩)
      · exact ⟨[], c :: s, rfl, h⟩
      · exact ⟨c :: s₁, s₂, by simp [h], hk⟩
    · rintro ⟨s₁, s₂, h, hk⟩
      cases s₁ with
      | nil => left; simp at h; subst h; exact hk
      | cons d s₁ =>
        right; simp at h; exact ⟨s₁, s₂, h.2, hk⟩

/-- C08_sound_complete: the executable matcher decides exactly the glob language. -/
theorem C08_sound_complete (p : List Tok) (s : List Char) :
    gmatch p s = true ↔ Lang p s := by
  induction p generalizing s with
  | nil =>
    cases s with
    | nil => simp [gmatch]; exact Lang.nil
    | cons c s => simp [gmatch]; intro h; cases h
  | cons t p ih =>
    cases t with
    | lit c =>
      cases s with
      | nil => simp [gmatch]; intro h; cases h
      | cons d s =>
        simp only [gmatch, Bool.and_eq_true, beq_iff_eq, ih]
        constructor
        · rintro ⟨rfl, h⟩; exact Lang.lit h
        · intro h; cases h with | lit h => exact ⟨rfl, h⟩
    | any1 =>
      cases s with
      | nil => simp [gmatch]; intro h; cases h
      | cons d s =>
        simp only [gmatch, ih]
        constructor
        · intro h; exact Lang.any1 h
        · intro h; cases h with | any1 h => exact h
    | star =>
      simp only [gmatch, starAux_iff]
      constructor
      · rintro ⟨s₁, s₂, rfl, h⟩; exact Lang.star s₁ ((ih s₂).1 h)
      · intro h
        cases h with
        | star s₁ h => exact ⟨s₁, _, rfl, (ih _).2 h⟩

/-- A character that is not a wildcard tokenises to itself. -/
theorem tokOf_lit {c : Char} (h₁ : c ≠ '*') (h₂ : c ≠ '?') : tokOf c = .lit c := by
  simp [tokOf, h₁, h₂]

/-- C08_literal: every pattern free of `*` and `?` — whatever other code points it contains,
    in particular every regular-expression metacharacter — matches exactly itself. -/
theorem C08_literal (p s : List Char) (hp : ∀ c ∈ p, c ≠ '*' ∧ c ≠ '?') :
    gmatchCS p s = true ↔ s = p := by
  unfold gmatchCS tok
  induction p generalizing s with
  | nil => cases s <;> simp [gmatch]
  | cons c p ih =>
    have hc := hp c (by simp)
    have hp' : ∀ d ∈ p, d ≠ '*' ∧ d ≠ '?' := fun d hd => hp d (by simp [hd])
    cases s with
    | nil => simp [tokOf_lit hc.1 hc.2, gmatch]
    | cons d s =>
      simp only [List.map_cons, tokOf_lit hc.1 hc.2, gmatch, Bool.and_eq_true, beq_iff_eq, ih s hp',
        List.cons.injEq]
      constructor
      · rintro ⟨rfl, rfl⟩; exact ⟨rfl, rfl⟩
      · rintro ⟨rfl, rfl⟩; exact ⟨rfl, rfl⟩

/-- C08_literal_char: a single non-wildcard code point matches only the one-character string of itself. -/
theorem C08_literal_char (c : Char) (s : List Char) (h₁ : c ≠ '*') (h₂ : c ≠ '?') :
    gmatchCS [c] s = true ↔ s = [c] :=
  C08_literal [c] s (by simp [h₁, h₂])

/-- C08_star: `*` followed by `p` matches `s` iff some suffix of `s` matches `p` (the skipped run may be empty). -/
theorem C08_star (p : List Tok) (s : List Char) :
    gmatch (.star :: p) s = true ↔ ∃ s₁ s₂, s = s₁ ++ s₂ ∧ gmatch p s₂ = true := by
  simp [gmatch, starAux_iff]

/-- C08_qmark: `?` consumes exactly one character, whatever it is. -/
theorem C08_qmark (p : List Tok) (s : List Char) :
    gmatch (.any1 :: p) s = true ↔ ∃ d s', s = d :: s' ∧ gmatch p s' = true := by
  cases s with
  | nil => simp [gmatch]
  | cons d s =>
    simp only [gmatch]
    constructor
    · intro h; exact ⟨d, s, rfl, h⟩
    · rintro ⟨d', s', h, hm⟩; cases h; exact hm

/-- C08_whole_string: the empty pattern matches only the empty string (no trailing text is ignored),
    and by `C08_sound_complete` every match accounts for the whole string. -/
theorem C08_whole_string (s : List Char) : gmatch [] s = true ↔ s = [] := by
  cases s <;> simp [gmatch]

/-- `*` alone matches every string; `?` alone matches exactly the one-character strings. -/
theorem C08_star_all (s : List Char) : gmatchCS ['*'] s = true := by
  show gmatch [.star] s = true
  rw [C08_star]; exact ⟨s, [], by simp, by simp [gmatch]⟩

theorem C08_qmark_one (s : List Char) : gmatchCS ['?'] s = true ↔ s.length = 1 := by
  show gmatch [.any1] s = true ↔ _
  rw [C08_qmark]
  constructor
  · rintro ⟨d, s', rfl, h⟩; rw [C08_whole_string] at h; simp [h]
  · intro h
    match s, h with
    | [d], _ => exact ⟨d, [], rfl, by simp [gmatch]⟩

/-- C08_ci: case-insensitive matching is case-sensitive matching of the folded pattern and string,
    for any fold `f`; hence two strings with the same fold are matched by the same patterns. -/
theorem C08_ci (f : Char → Char) (p s s' : List Char) (h : s.map f = s'.map f) :
    gmatchFold f p s = gmatchFold f p s' := by
  simp [gmatchFold, h]

/-- C08_total: building and running a matcher has no error outcome: the result type is `Bool`,
    and the function is total (Lean's termination checker accepted its structural recursion). -/
theorem C08_total (p s : List Char) : gmatchCS p s = true ∨ gmatchCS p s = false := by
  cases gmatchCS p s <;> simp

/-- Concatenation, forwards: a string made of a part in the language of `p₁` followed by a part in the
    language of `p₂` is in the language of `p₁ ++ p₂`. -/
theorem Lang_append {p₁ p₂ : List Tok} {s₁ s₂ : List Char} (h₁ : Lang p₁ s₁) (h₂ : Lang p₂ s₂) :
    Lang (p₁ ++ p₂) (s₁ ++ s₂) := by
  induction h₁ with
  | nil => simpa using h₂
  | lit _ ih => exact Lang.lit ih
  | any1 _ ih => exact Lang.any1 ih
  | star r _ ih => rw [List.cons_append, List.append_assoc]; exact Lang.star r ih

/-- Concatenation, backwards: every string in the language of `p₁ ++ p₂` splits that way. -/
theorem Lang_split (p₁ p₂ : List Tok) (s : List Char) (h : Lang (p₁ ++ p₂) s) :
    ∃ s₁ s₂, s = s₁ ++ s₂ ∧ Lang p₁ s₁ ∧ Lang p₂ s₂ := by
  induction p₁ generalizing s with
  | nil => exact ⟨[], s, rfl, Lang.nil, by simpa using h⟩
  | cons t p₁ ih =>
    rw [List.cons_append] at h
    cases h with
    | lit h =>
      obtain ⟨a, b, rfl, ha, hb⟩ := ih _ h
      exact ⟨_ :: a, b, rfl, Lang.lit ha, hb⟩
    | any1 h =>
      obtain ⟨a, b, rfl, ha, hb⟩ := ih _ h
      exact ⟨_ :: a, b, rfl, Lang.any1 ha, hb⟩
    | star r h =>
      obtain ⟨a, b, rfl, ha, hb⟩ := ih _ h
      exact ⟨r ++ a, b, by simp, Lang.star r ha, hb⟩

/-- C08_concat: matching is compositional over the pattern text — a pattern `p₁ ++ p₂` matches exactly the
    strings that split into a part matched by `p₁` and a part matched by `p₂`; nothing in one half
    (a bracket, a brace, a backslash) can change how the other half is read. -/
theorem C08_concat (p₁ p₂ : List Tok) (s : List Char) :
    gmatch (p₁ ++ p₂) s = true ↔ ∃ s₁ s₂, s = s₁ ++ s₂ ∧ gmatch p₁ s₁ = true ∧ gmatch p₂ s₂ = true := by
  simp only [C08_sound_complete]
  constructor
  · exact Lang_split p₁ p₂ s
  · rintro ⟨s₁, s₂, rfl, h₁, h₂⟩; exact Lang_append h₁ h₂

/-- C08_concat_text: the same over pattern text (`tok` is a `map`, so it distributes over `++`). -/
theorem C08_concat_text (p₁ p₂ s : List Char) :
    gmatchCS (p₁ ++ p₂) s = true ↔
      ∃ s₁ s₂, s = s₁ ++ s₂ ∧ gmatchCS p₁ s₁ = true ∧ gmatchCS p₂ s₂ = true := by
  unfold gmatchCS tok; rw [List.map_append]; exact C08_concat _ _ s

/-- C08_prefix_star: a wildcard-free text followed by `*` (the shape of `s3:Get*` or `ec2:*`) matches exactly
    the strings that start with that text. -/
theorem C08_prefix_star (p s : List Char) (hp : ∀ c ∈ p, c ≠ '*' ∧ c ≠ '?') :
    gmatchCS (p ++ ['*']) s = true ↔ p <+: s := by
  rw [C08_concat_text]
  constructor
  · rintro ⟨s₁, s₂, rfl, h₁, _⟩
    rw [C08_literal p s₁ hp] at h₁; subst h₁; exact List.prefix_append _ _
  · rintro ⟨t, rfl⟩
    exact ⟨p, t, rfl, (C08_literal p p hp).2 rfl, C08_star_all t⟩

/-- C08_star_suffix: `*` followed by a wildcard-free text matches exactly the strings that end with it. -/
theorem C08_star_suffix (p s : List Char) (hp : ∀ c ∈ p, c ≠ '*' ∧ c ≠ '?') :
    gmatchCS ('*' :: p) s = true ↔ p <:+ s := by
  have : gmatchCS ('*' :: p) s = gmatch (.star :: tok p) s := rfl
  rw [this, C08_star]
  constructor
  · rintro ⟨s₁, s₂, rfl, h⟩
    have := (C08_literal p s₂ hp).1 h; subst this; exact List.suffix_append _ _
  · rintro ⟨t, rfl⟩
    exact ⟨t, p, rfl, (C08_literal p p hp).2 rfl⟩

/-- C08_star_star: a doubled `*` means what a single one does. -/
theorem C08_star_star (p : List Tok) (s : List Char) :
    gmatch (.star :: .star :: p) s = gmatch (.star :: p) s := by
  rw [Bool.eq_iff_iff, C08_star, C08_star]
  constructor
  · rintro ⟨a, b, rfl, h⟩
    obtain ⟨c, d, rfl, h'⟩ := (C08_star p b).1 h
    exact ⟨a ++ c, d, by simp, h'⟩
  · rintro ⟨a, b, rfl, h⟩
    exact ⟨a, b, rfl, (C08_star p b).2 ⟨[], b, rfl, h⟩⟩

-- Non-vacuity: concrete instances, including regular-expression metacharacters as literals.
example : gmatchCS "a.c".toList "abc".toList = false := by decide
example : gmatchCS "a.c".toList "a.c".toList = true := by decide
example : gmatchCS "a(c".toList "a(c".toList = true := by decide
example : gmatchCS "[ab]*".toList "[ab]xyz".toList = true := by decide
example : gmatchCS "[ab]*".toList "axyz".toList = false := by decide
example : gmatchCS "s3:Get?bject*".toList "s3:GetObjectAcl".toList = true := by decide
example : gmatchCI "S3:getobject".toList "s3:GetObject".toList = true := by decide
example : gmatchCS "S3:getobject".toList "s3:GetObject".toList = false := by decide
example : ∀ c ∈ "a.c(+)[]{}|^$\\".toList, c ≠ '*' ∧ c ≠ '?' := by decide

example : gmatchCS "s3:Get*".toList "s3:GetObject".toList = true ∧ "s3:Get".toList <+: "s3:GetObject".toList := by decide
example : gmatchCS "*Object".toList "s3:GetObject".toList = true ∧ gmatchCS "**Object".toList "s3:GetObject".toList = true := by decide

end PycfModel.Glob
