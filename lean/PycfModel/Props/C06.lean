import PycfModel.Model.World
import PycfModel.Generated.Effects
/-!
C06 — transformations are pure and repeatable.

`C06_sites`: every write statement of the library's source (regenerated from the source on every run) lands on an
object the call created itself or on the evaluator cache. `C06_frame`, `C06_repeatable`, `C06_interleave`: hence every
call, after any history and under any interleaving of the steps of several calls, leaves arguments, receiver and
library-level state as they were and returns what it returns first thing. `C06_cache_invisible`: the cache never
changes a result. `C06_pop_breaks`: the write the repaired defect D6 made is judged observable.
-/
namespace PycfModel.World
open PycfModel

/-- C06_sites: the write sites of the current source are all invisible (decided on the regenerated table) -/
theorem C06_sites : effectsOK Generated.writeSites Generated.argFlows = true := by decide +kernel

theorem classify_of_ok {sites : List Site} {flows : List Flow} (h : effectsOK sites flows = true) {s : Site} (hs : s ∈ sites) :
    classify flows s = .fresh ∨ classify flows s = .cache := by
  have := List.all_eq_true.mp h s hs
  cases hc : classify flows s <;> simp [observable, hc] at this ⊢

/-- C06_frame: a step at an admissible site changes nothing a caller can observe -/
theorem C06_frame {E : Type} (sites : List Site) (flows : List Flow) (h : effectsOK sites flows = true) (build : J → E)
    (w : W E) (st : Step) (hs : st.site ∈ sites) : (step flows build w st).obs = w.obs := by
  unfold step
  rcases classify_of_ok h hs with hc | hc <;> simp [hc]

theorem step_inv {E : Type} (sites : List Site) (flows : List Flow) (h : effectsOK sites flows = true) (build : J → E)
    (w : W E) (st : Step) (hs : st.site ∈ sites) (hi : CacheInv build w) : CacheInv build (step flows build w st) := by
  unfold step
  rcases classify_of_ok h hs with hc | hc
  · simpa [hc] using hi
  · simp [hc, CacheInv]

/-- any sequence of admissible steps — the steps of one call, of a history of calls, or of several calls interleaved —
    preserves the observable world and the cache invariant -/
theorem run_frame {E : Type} (sites : List Site) (flows : List Flow) (h : effectsOK sites flows = true) (build : J → E) :
    ∀ (steps : List Step) (w : W E), (∀ st ∈ steps, st.site ∈ sites) → CacheInv build w →
      (run flows build w steps).obs = w.obs ∧ CacheInv build (run flows build w steps)
  | [], w, _, hi => ⟨rfl, hi⟩
  | st :: rest, w, hs, hi => by
    have h1 := C06_frame sites flows h build w st (hs st (by simp))
    have h2 := step_inv sites flows h build w st (hs st (by simp)) hi
    have ih := run_frame sites flows h build rest (step flows build w st) (fun x hx => hs x (by simp [hx])) h2
    simp only [run, List.foldl_cons] at ih ⊢
    exact ⟨ih.1.trans h1, ih.2⟩

/-- a result that reads the cache only through the invariant -/
def CacheIrrelevant {E R : Type} (build : J → E) (c : Call E R) : Prop :=
  ∀ o, c.result o (some (build o.receiver)) = c.result o none

/-- C06_cache_invisible: calling a condition returns the same with an empty and with a filled cache -/
theorem C06_cache_invisible {E R : Type} (build : J → E) (runE : E → J → R) (steps : List Step) :
    CacheIrrelevant build ({ steps := steps, result := condResult build runE } : Call E R) := by
  intro o; simp [condResult]

theorem result_of_inv {E R : Type} (build : J → E) (c : Call E R) (hc : CacheIrrelevant build c) (w : W E) (hi : CacheInv build w) :
    c.result w.obs w.cache = c.result w.obs none := by
  rcases hi with h | h
  · rw [h]
  · rw [h]; exact hc w.obs

/-- C06_interleave: after any sequence of admissible steps (any schedule of the steps of any calls), a call returns what
    it returns in the initial world -/
theorem C06_interleave {E R : Type} (sites : List Site) (flows : List Flow) (h : effectsOK sites flows = true) (build : J → E)
    (steps : List Step) (w : W E) (hs : ∀ st ∈ steps, st.site ∈ sites) (hi : CacheInv build w)
    (c : Call E R) (hc : CacheIrrelevant build c) :
    let w' := run flows build w steps
    c.result w'.obs w'.cache = c.result w.obs none := by
  intro w'
  have hf := run_frame sites flows h build steps w hs hi
  rw [result_of_inv build c hc w' hf.2, hf.1]

/-- C06_repeatable: for every history of calls, the call made after it returns what the same call returns first thing,
    and the observable world is the initial one -/
theorem C06_repeatable {E R : Type} (sites : List Site) (flows : List Flow) (h : effectsOK sites flows = true) (build : J → E)
    (history : List (Call E R)) (w : W E) (hs : ∀ c ∈ history, ∀ st ∈ c.steps, st.site ∈ sites) (hw : w.cache = none)
    (c : Call E R) (hc : CacheIrrelevant build c) :
    let w' := run flows build w (history.flatMap (·.steps))
    w'.obs = w.obs ∧ c.result w'.obs w'.cache = c.result w.obs w.cache := by
  intro w'
  have hs' : ∀ st ∈ history.flatMap (·.steps), st.site ∈ sites := by
    intro st hst
    obtain ⟨c', hc', hst'⟩ := List.mem_flatMap.mp hst
    exact hs c' hc' st hst'
  have hf := run_frame sites flows h build _ w hs' (Or.inl hw)
  exact ⟨hf.1, by rw [hw]; exact C06_interleave sites flows h build _ w hs' (Or.inl hw) c hc⟩

/-- C06_current_source: the statements above, for the write sites of the source as it is now -/
theorem C06_current_source {E R : Type} (build : J → E) (history : List (Call E R)) (w : W E)
    (hs : ∀ c ∈ history, ∀ st ∈ c.steps, st.site ∈ Generated.writeSites) (hw : w.cache = none)
    (c : Call E R) (hc : CacheIrrelevant build c) :
    let w' := run Generated.argFlows build w (history.flatMap (·.steps))
    w'.obs = w.obs ∧ c.result w'.obs w'.cache = c.result w.obs w.cache :=
  C06_repeatable Generated.writeSites Generated.argFlows C06_sites build history w hs hw c hc

/-! ### The repaired defect D6 as a write site -/

def popSite : Site := ⟨"pycfmodel.model.cf_model.CFModel.resolve", "param", "extra_params", "pop"⟩

/-- C06_pop_breaks: `extra_params.pop` in `CFModel.resolve` lands on the caller's dictionary, the table with it is
    rejected, and a history exists after which `resolve` sees other parameters than first thing -/
theorem C06_pop_breaks :
    classify Generated.argFlows popSite = .extra ∧
    effectsOK (popSite :: Generated.writeSites) Generated.argFlows = false ∧
    (let w : W Unit := ⟨⟨.null, .obj [("Env", .str "prod")], .null, .null, .null⟩, none⟩
     (run Generated.argFlows (fun _ => ()) w [⟨popSite, fun _ => .obj []⟩]).obs.extra ≠ w.obs.extra) := by
  refine ⟨by decide +kernel, by decide +kernel, by decide +kernel⟩

-- Non-vacuity: the table is not empty and contains both admissible kinds
example : Generated.writeSites.length ≥ 3 ∧ (Generated.writeSites.any fun s => classify Generated.argFlows s == .cache) = true ∧
    (Generated.writeSites.any fun s => classify Generated.argFlows s == .fresh) = true := by decide +kernel

end PycfModel.World
