import PycfModel.Lemmas.ResolveClosed
import PycfModel.Props.C01
set_option linter.unusedSimpArgs false
/-!
C03 — a resolved model is concrete and is a fixed point of resolution.
-/
namespace PycfModel.Resolver
open PycfModel PycfModel.Text

/-- the object is a call: exactly one member, named like an intrinsic function -/
def isFunctionObj' : List (String × J) → Bool
  | [(k, _)] => isFunction k
  | _ => false

theorem pruneList_cons (x : J) (xs : List J) (h : isNoValue x = false) : pruneList (x :: xs) = x :: pruneList xs := by
  simp [pruneList, h]
theorem pruneMembers_cons (k : String) (v : J) (r : List (String × J)) (h : isNoValue v = false) :
    pruneMembers ((k, v) :: r) = (k, v) :: pruneMembers r := by
  simp [pruneMembers, h]

mutual
  /-- no single-member object named like an intrinsic function occurs anywhere in the value -/
  def NoFn : J → Prop
    | .arr xs => NoFnList xs
    | .obj kvs => isFunctionObj' kvs = false ∧ NoFnMembers kvs
    | _ => True
  def NoFnList : List J → Prop
    | [] => True
    | x :: xs => NoFn x ∧ NoFnList xs
  def NoFnMembers : List (String × J) → Prop
    | [] => True
    | (_, v) :: rest => NoFn v ∧ NoFnMembers rest
end

theorem noFnList_iff (xs : List J) : NoFnList xs ↔ ∀ x ∈ xs, NoFn x := by
  induction xs with
  | nil => simp [NoFnList]
  | cons x xs ih => simp [NoFnList, ih]

theorem noFnMembers_iff (kvs : List (String × J)) : NoFnMembers kvs ↔ ∀ kv ∈ kvs, NoFn kv.2 := by
  induction kvs with
  | nil => simp [NoFnMembers]
  | cons kv kvs ih => obtain ⟨k, v⟩ := kv; simp [NoFnMembers, ih]

/-- keys none of which is the name of an intrinsic function -/
def PlainKeys (ks : List String) : Prop := ∀ k ∈ ks, isFunction k = false

mutual
  theorem renderScalars_noFn (params : List (String × J)) : (v : J) → NoFn v → NoFn (renderScalars params v)
    | .str s, _ => by obtain ⟨t, ht⟩ := resolveStr_isStr params s; simp [renderScalars, ht, NoFn]
    | .arr xs, h => by
      simp only [renderScalars, NoFn]
      exact renderList_noFn params xs (by simpa [NoFn] using h)
    | .bool _, _ => by simp [renderScalars, NoFn]
    | .int _, _ => by simp [renderScalars, NoFn]
    | .num _, _ => by simp [renderScalars, NoFn]
    | .null, _ => by simp [renderScalars, NoFn]
    | .leaf _ _, _ => by simp [renderScalars, NoFn]
    | .obj kvs, h => by simpa [renderScalars] using h
  theorem renderList_noFn (params : List (String × J)) :
      (xs : List J) → NoFnList xs → NoFnList (renderScalars.renderList params xs)
    | [], _ => by simp [renderScalars.renderList, NoFnList]
    | x :: xs, h => by
      have h' : NoFn x ∧ NoFnList xs := by simpa [NoFnList] using h
      simp only [renderScalars.renderList, NoFnList]
      exact ⟨renderScalars_noFn params x h'.1, renderList_noFn params xs h'.2⟩
end

/-- parameter values and mapping leaves contain no function objects (CloudFormation's own rule for Mappings and
    parameter values) -/
structure EnvConcrete (env : Env) : Prop where
  params : ∀ k v, J.lookup k env.params = some v → NoFn v
  mappings : ∀ sm s1 s2 top second v, J.lookup sm env.mappings = some (.obj top) →
    J.lookup s1 top = some (.obj second) → J.lookup s2 second = some v → NoFn v

theorem closed_noFn (env : Env) (h : EnvConcrete env) : Closed env NoFn PlainKeys where
  null := by simp [NoFn]
  str := by intro s; simp [NoFn]
  bool := by intro b; simp [NoFn]
  leaf := by intro k p; simp [NoFn]
  arr := by intro ys hy; simp only [NoFn]; exact (noFnList_iff ys).2 hy
  obj := by
    intro kvs hm hk
    simp only [NoFn]
    refine ⟨?_, (noFnMembers_iff kvs).2 hm⟩
    match kvs, hk with
    | [], _ => rfl
    | [(k, v)], hk => simpa [isFunctionObj'] using hk k (by simp)
    | _ :: _ :: _, _ => rfl
  elem := by
    intro ys y h hy
    exact (noFnList_iff ys).1 (by simpa [NoFn] using h) y hy
  param := by intro k v hl; exact renderScalars_noFn env.params v (h.params k v hl)
  mapping := h.mappings
  keysSub := by intro l₁ l₂ hs h k hk; exact h k (hs.subset hk)

/-- C03_concrete: if parameter values and mapping leaves contain no function objects and the plain objects of the
    expression have no key named like a function, no supported intrinsic function remains anywhere in the resolved
    value, at any depth -/
theorem C03_concrete (env : Env) (henv : EnvConcrete env) (e v : J) (hk : InputKeys PlainKeys e)
    (h : Spec.resolve env e = some v) : NoFn v :=
  resolve_closed (closed_noFn env henv) e hk v h

/-- C03_conditions_bool: every entry of the resolved condition table is a boolean (by its type), and the functions
    a condition is made of return booleans -/
theorem C03_conditions_bool (env : Env) (parts : List J) (v : J)
    (h : Spec.resolve env (.obj [("Fn::And", .arr parts)]) = some v ∨ Spec.resolve env (.obj [("Fn::Or", .arr parts)]) = some v) :
    ∃ b, v = .bool b := by
  rcases h with h | h
  · rw [resolve_fn _ _ _ (by decide)] at h
    unfold applyFn at h
    have : resolverOf "Fn::And" = some "resolve_and" := by decide
    simp only [this] at h
    cases ha : allSome (eachOf env (.arr parts)) with
    | none => simp [ha] at h
    | some rs =>
      cases hb : rs.mapM extendedBool with
      | none => simp [ha, hb] at h
      | some bs => simp [ha, hb] at h; exact ⟨_, h.symm⟩
  · rw [resolve_fn _ _ _ (by decide)] at h
    unfold applyFn at h
    have : resolverOf "Fn::Or" = some "resolve_or" := by decide
    simp only [this] at h
    cases ha : allSome (eachOf env (.arr parts)) with
    | none => simp [ha] at h
    | some rs =>
      cases hb : rs.mapM extendedBool with
      | none => simp [ha, hb] at h
      | some bs => simp [ha, hb] at h; exact ⟨_, h.symm⟩

/-! ### Fixed point -/

mutual
  /-- values on which resolution does nothing: text that is its own normal form (not an SSM reference, not a
      differently-cased `true`/`false`), null, and lists / plain objects of such values without `AWS::NoValue` members -/
  def Fixed (env : Env) : J → Prop
    | .null => True
    | .str s => resolveStr env.params s = .str s
    | .arr xs => FixedList env xs
    | .obj kvs => FixedObj env kvs
    | _ => False
  def FixedList (env : Env) : List J → Prop
    | [] => True
    | x :: xs => Fixed env x ∧ isNoValue x = false ∧ FixedList env xs
  def FixedObj (env : Env) : List (String × J) → Prop
    | [] => True
    | [(k, v)] => isFunction k = false ∧ Fixed env v ∧ isNoValue v = false
    | (_, v) :: r :: rs => Fixed env v ∧ isNoValue v = false ∧ FixedMembers env (r :: rs)
  def FixedMembers (env : Env) : List (String × J) → Prop
    | [] => True
    | (_, v) :: rest => Fixed env v ∧ isNoValue v = false ∧ FixedMembers env rest
end

mutual
  /-- C03_idem: resolving an already resolved (stable) value returns it unchanged -/
  theorem C03_idem (env : Env) : (v : J) → Fixed env v → Spec.resolve env v = some v
    | .null, _ => by simp [Spec.resolve]
    | .str s, h => by simp only [Spec.resolve]; rw [show resolveStr env.params s = .str s from h]
    | .arr xs, h => by
      simp only [Spec.resolve]
      have := idem_list env xs (by simpa [Fixed] using h)
      rw [this.1]; simp [this.2]
    | .obj kvs, h => by
      simp only [Spec.resolve]
      exact idem_obj env kvs (by simpa [Fixed] using h)
    | .bool _, h => by simp [Fixed] at h
    | .int _, h => by simp [Fixed] at h
    | .num _, h => by simp [Fixed] at h
    | .leaf _ _, h => by simp [Fixed] at h
  theorem idem_list (env : Env) : (xs : List J) → FixedList env xs →
      allSome (Spec.resolveEach env xs) = some xs ∧ pruneList xs = xs
    | [], _ => by simp [Spec.resolveEach, allSome, pruneList]
    | x :: xs, h => by
      have h' : Fixed env x ∧ isNoValue x = false ∧ FixedList env xs := by simpa [FixedList] using h
      have ih := idem_list env xs h'.2.2
      simp only [Spec.resolveEach, C03_idem env x h'.1, allSome, ih.1, Option.map_some]
      refine ⟨trivial, ?_⟩
      rw [pruneList_cons x xs h'.2.1, ih.2]
  theorem idem_obj (env : Env) : (kvs : List (String × J)) → FixedObj env kvs → Spec.resolveObj env kvs = some (.obj kvs)
    | [], _ => by simp [Spec.resolveObj]
    | [(k, v)], h => by
      have h' : isFunction k = false ∧ Fixed env v ∧ isNoValue v = false := by simpa [FixedObj] using h
      have : Spec.resolveObj env [(k, v)] = (Spec.resolve env v).map fun y => .obj (pruneMembers [(k, y)]) := by
        cases v <;> simp [Spec.resolveObj, h'.1]
      rw [this, C03_idem env v h'.2.1]
      simp [pruneMembers, h'.2.2]
    | (k, v) :: r :: rs, h => by
      have h' : Fixed env v ∧ isNoValue v = false ∧ FixedMembers env (r :: rs) := by simpa [FixedObj] using h
      have ih := idem_members env (r :: rs) h'.2.2
      simp only [Spec.resolveObj, C03_idem env v h'.1, ih.1]
      rw [pruneMembers_cons k v (r :: rs) h'.2.1, ih.2]
  theorem idem_members (env : Env) : (kvs : List (String × J)) → FixedMembers env kvs →
      Spec.resolveMembers env kvs = some kvs ∧ pruneMembers kvs = kvs
    | [], _ => by simp [Spec.resolveMembers, pruneMembers]
    | (k, v) :: rest, h => by
      have h' : Fixed env v ∧ isNoValue v = false ∧ FixedMembers env rest := by simpa [FixedMembers] using h
      have ih := idem_members env rest h'.2.2
      simp only [Spec.resolveMembers, C03_idem env v h'.1, ih.1]
      refine ⟨trivial, ?_⟩
      rw [pruneMembers_cons k v rest h'.2.1, ih.2]
end

/-- C03_idempotent (the statement of `C03_idem`, outside the mutual block): resolving a stable value returns it -/
theorem C03_idempotent (env : Env) (v : J) (h : Fixed env v) : Spec.resolve env v = some v := C03_idem env v h

/-- C03_fixpoint: whenever the first pass produced a stable value, the second pass returns it -/
theorem C03_fixpoint (env : Env) (e v : J) (h : Spec.resolve env e = some v) (hs : Fixed env v) :
    (Spec.resolve env e).bind (Spec.resolve env) = Spec.resolve env e := by
  rw [h]; simp [C03_idem env v hs]

/-- text is its own normal form unless it is an SSM reference or a differently-cased boolean word -/
theorem C03_text_stable (params : List (String × J)) (s : String) (h1 : ssmKey s.toList = none)
    (h2 : lower s.toList ≠ "true".toList ∨ s = "true") (h3 : lower s.toList ≠ "false".toList ∨ s = "false") :
    resolveStr params s = .str s := by
  unfold resolveStr
  simp only [h1]
  by_cases ht : lower s.toList = "true".toList
  · have : s = "true" := by rcases h2 with h | h; exact absurd ht h; exact h
    subst this; decide +kernel
  · by_cases hf : lower s.toList = "false".toList
    · have : s = "false" := by rcases h3 with h | h; exact absurd hf h; exact h
      subst this; decide +kernel
    · have hc : ¬ ((decide (lower s.toList = "true".toList) || decide (lower s.toList = "false".toList)) = true) := by
        simp only [Bool.or_eq_true, decide_eq_true_eq]
        rintro (h | h)
        · exact ht h
        · exact hf h
      exact if_neg hc

-- Non-vacuity
example : Fixed ⟨[], [], []⟩ (.obj [("Type", .str "AWS::S3::Bucket"), ("Properties", .obj [("BucketName", .str "b"), ("Tags", .arr [.str "x"])])]) := by
  simp only [Fixed, FixedObj, FixedMembers, FixedList]
  refine ⟨by decide +kernel, by decide +kernel, ⟨⟨by decide +kernel, by decide +kernel, ⟨by decide +kernel, by decide +kernel, trivial⟩, by decide +kernel, trivial⟩, by decide +kernel, trivial⟩⟩

end PycfModel.Resolver
