import PycfModel.Generated.CatalogueFacts
import PycfModel.Lemmas.CatalogueGlue
/-!
C09 (catalogue part) — facts about the shipped catalogue `CLOUDFORMATION_ACTIONS`, as regenerated from the
live module on every run.  Each chunk fact is checked by the kernel (`decide +kernel`, no axioms);
the glue is `Catalogue.chain_facts`.
-/
namespace PycfModel.Catalogue
open PycfModel.Text

theorem catalogue_facts :
    StrictSorted catalogue ∧ (∀ a ∈ catalogue, formOK a = true) ∧ (catalogue.map lower).Nodup :=
  chain_facts Generated.CatalogueFacts.chain

/-- C09_catalogue_sorted: the catalogue is strictly increasing in code-point order (sorted, duplicate-free) -/
theorem C09_catalogue_sorted : StrictSorted catalogue ∧ catalogue.Nodup :=
  ⟨catalogue_facts.1, catalogue_facts.1.nodup⟩

/-- C09_catalogue_nodup_ci: no two entries are equal ignoring (ASCII) case -/
theorem C09_catalogue_nodup_ci : (catalogue.map lower).Nodup := catalogue_facts.2.2

/-- C09_catalogue_form: every entry has the form `service:Name` -/
theorem C09_catalogue_form : ∀ a ∈ catalogue, formOK a = true := catalogue_facts.2.1

end PycfModel.Catalogue
