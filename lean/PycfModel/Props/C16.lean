import PycfModel.Model.Policy
set_option linter.unusedSimpArgs false
/-!
C16 — policy queries count only Allow statements and see every principal.
-/
namespace PycfModel.Policy
open PycfModel PycfModel.Text

theorem toNat_ofNat_small (n : Nat) (h : n < 55296) : (Char.ofNat n).toNat = n := by
  have hv : n.isValidChar := Or.inl h
  rw [Char.ofNat, dif_pos hv]; rfl

theorem char_eq_of_toNat {a b : Char} (h : a.toNat = b.toNat) : a = b := by
  apply Char.ext
  exact UInt32.toNat_inj.mp h

/-- the only characters that lower-case to a given lower-case ASCII letter are the letter and its capital -/
theorem lowerChar_eq_iff (c : Char) (t : Char) (ht : 97 ≤ t.toNat ∧ t.toNat ≤ 122) :
    lowerChar c = t ↔ c = t ∨ c.toNat + 32 = t.toNat := by
  unfold lowerChar
  by_cases hc : 'A' ≤ c ∧ c ≤ 'Z'
  · have h1 : 65 ≤ c.toNat := hc.1
    have h2 : c.toNat ≤ 90 := hc.2
    simp only [hc, and_self, if_true]
    constructor
    · intro e
      right
      have := congrArg Char.toNat e
      rw [toNat_ofNat_small _ (by omega)] at this; exact this
    · rintro (e | e)
      · subst e; omega
      · apply char_eq_of_toNat; rw [toNat_ofNat_small _ (by omega)]; exact e
  · simp only [hc, if_false]
    constructor
    · exact fun e => Or.inl e
    · rintro (e | e)
      · exact e
      · exfalso
        apply hc
        constructor
        · show 65 ≤ c.toNat; omega
        · show c.toNat ≤ 90; omega

theorem upperChar_eq_iff (c : Char) (t : Char) (ht : 65 ≤ t.toNat ∧ t.toNat ≤ 90) :
    upperChar c = t ↔ c = t ∨ c.toNat = t.toNat + 32 := by
  unfold upperChar
  by_cases hc : 'a' ≤ c ∧ c ≤ 'z'
  · have h1 : 97 ≤ c.toNat := hc.1
    have h2 : c.toNat ≤ 122 := hc.2
    simp only [hc, and_self, if_true]
    constructor
    · intro e
      right
      have := congrArg Char.toNat e
      rw [toNat_ofNat_small _ (by omega)] at this; omega
    · rintro (e | e)
      · subst e; omega
      · apply char_eq_of_toNat; rw [toNat_ofNat_small _ (by omega)]; omega
  · simp only [hc, if_false]
    constructor
    · exact fun e => Or.inl e
    · rintro (e | e)
      · exact e
      · exfalso
        apply hc
        constructor
        · show 97 ≤ c.toNat; omega
        · show c.toNat ≤ 122; omega

/-- capitalising gives `X…` exactly when lower-casing gives `x…` (for a capital ASCII first letter) -/
theorem capitalize_eq_iff (s : List Char) (T t : Char) (rest : List Char)
    (hT : 65 ≤ T.toNat ∧ T.toNat ≤ 90) (ht : t.toNat = T.toNat + 32) :
    capitalize s = T :: rest ↔ lower s = t :: rest := by
  cases s with
  | nil => simp [capitalize, lower]
  | cons c cs =>
    simp only [capitalize, lower, List.map_cons, List.cons.injEq]
    have h1 := upperChar_eq_iff c T hT
    have h2 := lowerChar_eq_iff c t (by omega)
    constructor
    · rintro ⟨hu, hr⟩
      refine ⟨?_, hr⟩
      rw [h2]
      rcases h1.1 hu with e | e
      · right; subst e; omega
      · left; apply char_eq_of_toNat; omega
    · rintro ⟨hl, hr⟩
      refine ⟨?_, hr⟩
      rw [h1]
      rcases h2.1 hl with e | e
      · right; subst e; omega
      · left; apply char_eq_of_toNat; omega

/-- C16_effect: an Effect is accepted exactly when it is `allow` or `deny` in any letter case, and is stored
    as `Allow` / `Deny` -/
theorem C16_effect (s : String) :
    (normEffect s = some "Allow" ↔ lower s.toList = ['a', 'l', 'l', 'o', 'w']) ∧
    (normEffect s = some "Deny" ↔ lower s.toList = ['d', 'e', 'n', 'y']) ∧
    (∀ e, normEffect s = some e → e = "Allow" ∨ e = "Deny") := by
  have hA := capitalize_eq_iff s.toList 'A' 'a' ['l', 'l', 'o', 'w'] (by decide) (by decide)
  have hD := capitalize_eq_iff s.toList 'D' 'd' ['e', 'n', 'y'] (by decide) (by decide)
  have hlne : (['a', 'l', 'l', 'o', 'w'] : List Char) ≠ ['d', 'e', 'n', 'y'] := by decide
  have hcne : (['A', 'l', 'l', 'o', 'w'] : List Char) ≠ ['D', 'e', 'n', 'y'] := by decide
  have sA : String.ofList ['A', 'l', 'l', 'o', 'w'] = "Allow" := by decide +kernel
  have sD : String.ofList ['D', 'e', 'n', 'y'] = "Deny" := by decide +kernel
  have hne : ("Allow" : String) ≠ "Deny" := by decide
  have tA : "Allow".toList = ['A', 'l', 'l', 'o', 'w'] := by decide +kernel
  have tD : "Deny".toList = ['D', 'e', 'n', 'y'] := by decide +kernel
  unfold normEffect
  rw [tA, tD]
  by_cases h1 : capitalize s.toList = ['A', 'l', 'l', 'o', 'w']
  · have hl := hA.1 h1
    have hnd : lower s.toList ≠ ['d', 'e', 'n', 'y'] := by rw [hl]; exact hlne
    simp only [h1, decide_true, Bool.true_or, if_true, sA]
    refine ⟨?_, ?_, ?_⟩
    · simp [hl]
    · simp [hnd, hne]
    · intro e he; exact Or.inl (Option.some.inj he).symm
  · by_cases h2 : capitalize s.toList = ['D', 'e', 'n', 'y']
    · have hl := hD.1 h2
      have hna : lower s.toList ≠ ['a', 'l', 'l', 'o', 'w'] := by rw [hl]; exact hlne.symm
      simp only [h2, hcne.symm, decide_false, decide_true, Bool.false_or, if_true, sD]
      refine ⟨?_, ?_, ?_⟩
      · simp [hna, hne.symm]
      · simp [hl]
      · intro e he; exact Or.inr (Option.some.inj he).symm
    · have hna : lower s.toList ≠ ['a', 'l', 'l', 'o', 'w'] := fun hl => h1 (hA.2 hl)
      have hnd : lower s.toList ≠ ['d', 'e', 'n', 'y'] := fun hl => h2 (hD.2 hl)
      simp only [h1, h2, decide_false, Bool.or_self, Bool.false_eq_true, if_false]
      refine ⟨?_, ?_, ?_⟩
      · simp [hna]
      · simp [hnd]
      · intro e he; cases he

/-- the stored effect of an accepted statement is recognised as Allow exactly when it is `Allow` -/
theorem C16_stored_allow : isAllow "Allow" = true ∧ isAllow "Deny" = false := by
  constructor <;> decide +kernel

/-! ### Principal enumeration -/

theorem mem_strsIn (p : String) (xs : List J) : p ∈ strsIn xs ↔ J.str p ∈ xs := by
  induction xs with
  | nil => simp [strsIn]
  | cons x xs ih => cases x <;> simp [strsIn, ih]

/-- a string `p` is named by a Principal / NotPrincipal element: as the string itself, as a member of a list, or
    under one of the keys AWS / CanonicalUser / Federated / Service as a string or a list member -/
inductive Named (fields : List String) (p : String) : J → Prop
  | str : Named fields p (.str p)
  | list {xs} : J.str p ∈ xs → Named fields p (.arr xs)
  | keyStr {kvs f} : f ∈ fields → J.lookup f kvs = some (.str p) → Named fields p (.obj kvs)
  | keyList {kvs f xs} : f ∈ fields → J.lookup f kvs = some (.arr xs) → J.str p ∈ xs → Named fields p (.obj kvs)

/-- C16_principals: principal enumeration returns exactly the principals named by the element, whatever its shape -/
theorem C16_principals_elem (fields : List String) (p : String) (e : J) :
    p ∈ principalsOfElem fields e ↔ Named fields p e := by
  cases e with
  | str s =>
    simp only [principalsOfElem, List.mem_singleton]
    constructor
    · intro h; subst h; exact Named.str
    · intro h; cases h; rfl
  | arr xs =>
    simp only [principalsOfElem, mem_strsIn]
    constructor
    · exact Named.list
    · intro h; cases h; assumption
  | obj kvs =>
    simp only [principalsOfElem, List.mem_flatMap]
    constructor
    · rintro ⟨f, hf, hp⟩
      unfold fieldPrincipals at hp
      cases hl : J.lookup f kvs with
      | none => simp [hl] at hp
      | some v =>
        cases v <;> simp [hl] at hp
        · subst hp; exact Named.keyStr hf hl
        · exact Named.keyList hf hl ((mem_strsIn _ _).1 hp)
    · intro h
      cases h with
      | keyStr hf hl => exact ⟨_, hf, by simp [fieldPrincipals, hl]⟩
      | keyList hf hl hm => exact ⟨_, hf, by simp [fieldPrincipals, hl, mem_strsIn, hm]⟩
  | null => simp only [principalsOfElem]; constructor <;> intro h <;> cases h
  | bool _ => simp only [principalsOfElem]; constructor <;> intro h <;> cases h
  | int _ => simp only [principalsOfElem]; constructor <;> intro h <;> cases h
  | num _ => simp only [principalsOfElem]; constructor <;> intro h <;> cases h
  | leaf _ _ => simp only [principalsOfElem]; constructor <;> intro h <;> cases h

/-- C16_principals: … for both the Principal and the NotPrincipal element of a statement -/
theorem C16_principals (fields : List String) (p : String) (pr npr : J) :
    p ∈ principalList fields pr npr ↔ Named fields p pr ∨ Named fields p npr := by
  simp [principalList, C16_principals_elem]

/-- the keys enumerated are the four principal kinds of the live `Principal` model -/
theorem C16_principal_fields : ∀ f, f ∈ Generated.principalFields ↔ f ∈ ["AWS", "Service", "Federated", "CanonicalUser"] := by
  intro f
  have : Generated.principalFields = ["AWS", "CanonicalUser", "Federated", "Service"] := by decide
  simp only [this, List.mem_cons, List.mem_nil_iff, or_false]
  constructor <;> (rintro (h | h | h | h) <;> simp [h])

/-- C16_whitelist: a principal is non-whitelisted exactly when it is named and is not an element of the whitelist -/
theorem C16_whitelist (wl ps : List String) (p : String) : p ∈ nonWhitelisted wl ps ↔ p ∈ ps ∧ p ∉ wl := by
  simp [nonWhitelisted, List.mem_filter]

/-- C16_allow_only: the allowed-principal and non-whitelisted-principal queries take into account exactly the
    statements whose effect is Allow -/
theorem C16_allow_only (fields wl : List String) (stmts : List Stmt) (p : String) :
    (p ∈ nonWhitelistedAllowed fields wl stmts ↔
      ∃ s ∈ stmts, isAllow s.effect = true ∧ p ∈ principalList fields s.principal s.notPrincipal ∧ p ∉ wl) ∧
    (p ∈ allowedPrincipals fields stmts ↔
      ∃ s ∈ stmts, isAllow s.effect = true ∧ p ∈ principalList fields s.principal s.notPrincipal) := by
  constructor
  · simp only [nonWhitelistedAllowed, List.mem_flatMap, List.mem_filter, C16_whitelist]
    constructor
    · rintro ⟨s, ⟨hs, ha⟩, hp⟩; exact ⟨s, hs, ha, hp⟩
    · rintro ⟨s, hs, ha, hp⟩; exact ⟨s, ⟨hs, ha⟩, hp⟩
  · simp only [allowedPrincipals, List.mem_flatMap, List.mem_filter]
    constructor
    · rintro ⟨s, ⟨hs, ha⟩, hp⟩; exact ⟨s, hs, ha, hp⟩
    · rintro ⟨s, hs, ha, hp⟩; exact ⟨s, ⟨hs, ha⟩, hp⟩

/-- C16_deny_invisible: statements whose effect is not Allow are invisible to both queries — dropping them all,
    or inserting any number of them anywhere, leaves the answers unchanged (equal as lists, not only as sets). -/
theorem C16_deny_invisible (fields wl : List String) (stmts : List Stmt) :
    nonWhitelistedAllowed fields wl stmts =
      nonWhitelistedAllowed fields wl (stmts.filter fun s => isAllow s.effect) ∧
    allowedPrincipals fields stmts = allowedPrincipals fields (stmts.filter fun s => isAllow s.effect) := by
  simp [nonWhitelistedAllowed, allowedPrincipals, List.filter_filter]

/-- C16_append: a document's answer is the concatenation of the answers of its parts, so a statement contributes
    the same whatever stands before or after it. -/
theorem C16_append (fields wl : List String) (xs ys : List Stmt) :
    nonWhitelistedAllowed fields wl (xs ++ ys) =
      nonWhitelistedAllowed fields wl xs ++ nonWhitelistedAllowed fields wl ys ∧
    allowedPrincipals fields (xs ++ ys) = allowedPrincipals fields xs ++ allowedPrincipals fields ys := by
  simp [nonWhitelistedAllowed, allowedPrincipals, List.filter_append, List.flatMap_append]

/-- C16_deny_insert: inserting one non-Allow statement between any two parts changes neither answer. -/
theorem C16_deny_insert (fields wl : List String) (xs ys : List Stmt) (d : Stmt) (hd : isAllow d.effect = false) :
    nonWhitelistedAllowed fields wl (xs ++ d :: ys) = nonWhitelistedAllowed fields wl (xs ++ ys) ∧
    allowedPrincipals fields (xs ++ d :: ys) = allowedPrincipals fields (xs ++ ys) := by
  simp [nonWhitelistedAllowed, allowedPrincipals, List.filter_append, List.filter_cons, hd]

/-- C16_whitelist_extremes: with an empty whitelist every named principal is reported, with a whitelist that
    contains every named principal none is; and a larger whitelist never reports more. -/
theorem C16_whitelist_extremes (wl wl' ps : List String) :
    nonWhitelisted [] ps = ps ∧
    ((∀ p ∈ ps, p ∈ wl) → nonWhitelisted wl ps = []) ∧
    ((∀ p ∈ wl, p ∈ wl') → ∀ p, p ∈ nonWhitelisted wl' ps → p ∈ nonWhitelisted wl ps) := by
  refine ⟨by simp [nonWhitelisted], ?_, ?_⟩
  · intro h
    simp only [nonWhitelisted, List.filter_eq_nil_iff]
    intro p hp; simp [h p hp]
  · intro h p
    rw [C16_whitelist, C16_whitelist]
    rintro ⟨hp, hn⟩; exact ⟨hp, fun hw => hn (h p hw)⟩

/-- C16_whitelist_is_membership: the whitelist test is element equality — a whitelist entry that is a prefix,
    a pattern or a differently-cased spelling of the principal does not whitelist it. -/
theorem C16_whitelist_is_membership (w p : String) (h : w ≠ p) : nonWhitelisted [w] [p] = [p] := by
  have : ¬ p = w := fun e => h e.symm
  simp [nonWhitelisted, List.contains_cons, this]

-- Non-vacuity
example : normEffect "aLLOW" = some "Allow" ∧ normEffect "DENY" = some "Deny" ∧ normEffect "Permit" = none := by
  refine ⟨by decide +kernel, by decide +kernel, by decide +kernel⟩
example : principalList Generated.principalFields
    (.obj [("AWS", .arr [.str "a", .str "b"]), ("CanonicalUser", .null), ("Federated", .null), ("Service", .str "s")])
    (.str "n") = ["a", "b", "s", "n"] := by decide +kernel
example : nonWhitelistedAllowed Generated.principalFields ["a"]
    [⟨"Allow", .str "a", .null⟩, ⟨"Deny", .str "d", .null⟩, ⟨"Allow", .arr [.str "b", .str "a"], .str "c"⟩] = ["b", "c"] := by
  decide +kernel
example : nonWhitelisted ["arn:aws:iam::1:root"] ["arn:aws:iam::1:ROOT", "arn:aws:iam::1:root/x"] =
    ["arn:aws:iam::1:ROOT", "arn:aws:iam::1:root/x"] := by decide +kernel

end PycfModel.Policy
