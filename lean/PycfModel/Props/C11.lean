import PycfModel.Model.IamCond
import PycfModel.Props.C08
set_option linter.unusedSimpArgs false
/-!
C11 — each IAM condition operator performs its documented comparison.
Single key, single value: `evalBase op key policy [(key, context)]`.
-/
namespace PycfModel.IamCond
open PycfModel

theorem lookup_single (k : String) (v : V) : ctxLookup k [(k, v)] = some v := by simp [ctxLookup]

/-- C11_equals: the Equals operators (String, Arn, Binary, Numeric, Date) are Python equality of the typed values -/
theorem C11_equals (base : String) (h : base ∈ ["StringEquals", "ArnEquals", "BinaryEquals", "NumericEquals", "DateEquals"])
    (k : String) (pv v : V) : evalBase base k pv [(k, v)] = R.ofBool (pyEq v pv) := by
  simp only [List.mem_cons, List.mem_nil_iff, or_false] at h
  rcases h with rfl | rfl | rfl | rfl | rfl <;> simp [evalBase, lookup_single]

/-- C11_not_equals: the NotEquals operators are its negation -/
theorem C11_not_equals (base : String) (h : base ∈ ["StringNotEquals", "ArnNotEquals", "NumericNotEquals", "DateNotEquals"])
    (k : String) (pv v : V) : evalBase base k pv [(k, v)] = R.ofBool (!pyEq v pv) := by
  simp only [List.mem_cons, List.mem_nil_iff, or_false] at h
  rcases h with rfl | rfl | rfl | rfl <;> simp [evalBase, lookup_single]

/-- what equality means on each value type -/
theorem C11_equality_by_type :
    (∀ a fa b fb, pyEq (.str a fa) (.str b fb) = (a == b)) ∧
    (∀ a b : Int, pyEq (.int a) (.int b) = (a == b)) ∧
    (∀ a b x y, pyEq (.dt a x) (.dt b y) = (x == y && a == b)) ∧
    (∀ a b, pyEq (.bytes a) (.bytes b) = (a == b)) ∧
    (∀ a fa (i : Int), pyEq (.str a fa) (.int i) = false) := by
  refine ⟨fun _ _ _ _ => rfl, fun _ _ => rfl, fun _ _ _ _ => rfl, fun _ _ => rfl, fun _ _ _ => rfl⟩

/-- C11_numeric_order: strict and inclusive ordering on integers, the equal-operands boundary explicit -/
theorem C11_numeric_order (k : String) (a b : Int) :
    evalBase "NumericLessThan" k (.int b) [(k, .int a)] = R.ofBool (decide (a < b)) ∧
    evalBase "NumericLessThanEquals" k (.int b) [(k, .int a)] = R.ofBool (decide (a ≤ b)) ∧
    evalBase "NumericGreaterThan" k (.int b) [(k, .int a)] = R.ofBool (decide (a > b)) ∧
    evalBase "NumericGreaterThanEquals" k (.int b) [(k, .int a)] = R.ofBool (decide (a ≥ b)) := by
  refine ⟨?_, ?_, ?_, ?_⟩ <;>
    simp [evalBase, lookup_single, pyLt, asInt, ofOpt, R.ofBool] <;>
    (by_cases h : a < b <;> by_cases h' : b < a <;> simp [h, h'] <;> omega)

theorem C11_numeric_boundary (k : String) (a : Int) :
    evalBase "NumericLessThan" k (.int a) [(k, .int a)] = .f ∧
    evalBase "NumericLessThanEquals" k (.int a) [(k, .int a)] = .t ∧
    evalBase "NumericGreaterThan" k (.int a) [(k, .int a)] = .f ∧
    evalBase "NumericGreaterThanEquals" k (.int a) [(k, .int a)] = .t := by
  have := C11_numeric_order k a a
  refine ⟨?_, ?_, ?_, ?_⟩ <;> simp [this.1, this.2.1, this.2.2.1, this.2.2.2, R.ofBool]

/-- C11_numeric_trichotomy: for any two integers exactly one of NumericLessThan, NumericEquals and
    NumericGreaterThan holds, and the inclusive operators are the strict ones joined with equality — so
    `...ThanEquals` is never the same test as `Equals` nor as the strict operator. -/
theorem C11_numeric_trichotomy (k : String) (a b : Int) :
    let lt := evalBase "NumericLessThan" k (.int b) [(k, .int a)]
    let eq := evalBase "NumericEquals" k (.int b) [(k, .int a)]
    let gt := evalBase "NumericGreaterThan" k (.int b) [(k, .int a)]
    let le := evalBase "NumericLessThanEquals" k (.int b) [(k, .int a)]
    let ge := evalBase "NumericGreaterThanEquals" k (.int b) [(k, .int a)]
    ((lt = .t ∧ eq = .f ∧ gt = .f) ∨ (lt = .f ∧ eq = .t ∧ gt = .f) ∨ (lt = .f ∧ eq = .f ∧ gt = .t)) ∧
    (le = .t ↔ lt = .t ∨ eq = .t) ∧ (ge = .t ↔ gt = .t ∨ eq = .t) ∧
    (le = .f ↔ gt = .t) ∧ (ge = .f ↔ lt = .t) := by
  obtain ⟨h1, h2, h3, h4⟩ := C11_numeric_order k a b
  have h5 : evalBase "NumericEquals" k (.int b) [(k, .int a)] = R.ofBool (a == b) := by
    rw [C11_equals "NumericEquals" (by simp)]; rfl
  simp only [h1, h2, h3, h4, h5, R.ofBool]
  rcases Int.lt_trichotomy a b with h | h | h
  · have : ¬ b < a := by omega
    have : ¬ a = b := by omega
    have : a ≤ b := by omega
    have : ¬ b ≤ a := by omega
    simp [*]
  · subst h; simp
  · have : ¬ a < b := by omega
    have : ¬ a = b := by omega
    have : b ≤ a := by omega
    have : ¬ a ≤ b := by omega
    simp [*]

/-- C11_date_order: the same on instants of equal awareness; an aware and a naive value are incomparable -/
theorem C11_date_order (k : String) (a b : Int) (aw : Bool) :
    evalBase "DateLessThan" k (.dt b aw) [(k, .dt a aw)] = R.ofBool (decide (a < b)) ∧
    evalBase "DateLessThanEquals" k (.dt b aw) [(k, .dt a aw)] = R.ofBool (decide (a ≤ b)) ∧
    evalBase "DateGreaterThan" k (.dt b aw) [(k, .dt a aw)] = R.ofBool (decide (a > b)) ∧
    evalBase "DateGreaterThanEquals" k (.dt b aw) [(k, .dt a aw)] = R.ofBool (decide (a ≥ b)) ∧
    evalBase "DateLessThan" k (.dt b true) [(k, .dt a false)] = .err := by
  refine ⟨?_, ?_, ?_, ?_, ?_⟩ <;>
    simp [evalBase, lookup_single, pyLt, ofOpt, R.ofBool] <;>
    (by_cases h : a < b <;> by_cases h' : b < a <;> simp [h, h'] <;> omega)

/-- C11_ignore_case: equality of the case-folded, compatibility-normalised forms -/
theorem C11_ignore_case (k : String) (p fp s fs : String) :
    evalBase "StringEqualsIgnoreCase" k (.str p fp) [(k, .str s fs)] = R.ofBool (fs == fp) ∧
    evalBase "StringNotEqualsIgnoreCase" k (.str p fp) [(k, .str s fs)] = R.ofBool (!(fs == fp)) := by
  constructor <;> simp [evalBase, lookup_single]

/-- C11_like: glob match of the whole context string against the policy pattern, case-sensitively -/
theorem C11_like (base : String) (h : base ∈ ["StringLike", "ArnLike"]) (k : String) (p fp s fs : String) :
    evalBase base k (.str p fp) [(k, .str s fs)] = R.ofBool (Glob.gmatchCS p.toList s.toList) ∧
    (Glob.gmatchCS p.toList s.toList = true ↔ Glob.Lang (Glob.tok p.toList) s.toList) := by
  constructor
  · simp only [List.mem_cons, List.mem_nil_iff, or_false] at h
    rcases h with rfl | rfl <;> simp [evalBase, lookup_single]
  · exact Glob.C08_sound_complete _ _

theorem C11_not_like (base : String) (h : base ∈ ["StringNotLike", "ArnNotLike"]) (k : String) (p fp s fs : String) :
    evalBase base k (.str p fp) [(k, .str s fs)] = R.ofBool (!Glob.gmatchCS p.toList s.toList) := by
  simp only [List.mem_cons, List.mem_nil_iff, or_false] at h
  rcases h with rfl | rfl <;> simp [evalBase, lookup_single]

/-- C11_bool: identity with the policy boolean -/
theorem C11_bool (k : String) (a b : Bool) : evalBase "Bool" k (.bool b) [(k, .bool a)] = R.ofBool (a == b) := by
  simp [evalBase, lookup_single]

/-- C11_null: key presence (a key holding None counts as absent) -/
theorem C11_null (k : String) (b : Bool) (ctx : Ctx) : evalBase "Null" k (.bool b) ctx = R.ofBool (present ctx k == b) := by
  simp [evalBase]

/-- addresses of a network -/
def InNet (v6 : Bool) (ip addr plen : Nat) : Prop := netLo addr plen ≤ ip ∧ ip ≤ netHi v6 addr plen

/-- C11_ip_containment: `IpAddress` is containment of the context network's addresses in the policy network's -/
theorem interval_sub (a p b q : Nat) (hp : 1 ≤ p) (_hq : 1 ≤ q) :
    (b ≤ a ∧ a + p - 1 ≤ b + q - 1) ↔ ∀ ip, a ≤ ip ∧ ip ≤ a + p - 1 → b ≤ ip ∧ ip ≤ b + q - 1 := by
  constructor
  · rintro ⟨h1, h2⟩ ip ⟨h3, h4⟩; exact ⟨by omega, by omega⟩
  · intro h
    have h1 := h a ⟨Nat.le_refl _, by omega⟩
    have h2 := h (a + p - 1) ⟨by omega, Nat.le_refl _⟩
    exact ⟨h1.1, h2.2⟩

theorem C11_ip_containment (v6 : Bool) (a l b m : Nat) :
    subnetOf (.net v6 a l) (.net v6 b m) = some true ↔ ∀ ip, InNet v6 ip a l → InNet v6 ip b m := by
  have hp : 1 ≤ 2 ^ (width v6 - l) := Nat.one_le_two_pow
  have hq : 1 ≤ 2 ^ (width v6 - m) := Nat.one_le_two_pow
  have key := interval_sub a _ b _ hp hq
  simp only [InNet, netLo, netHi]
  rw [← key]
  simp only [subnetOf, netLo, netHi, beq_self_eq_true, if_true, Option.some.injEq, Bool.and_eq_true]
  constructor
  · rintro ⟨h1, h2⟩; exact ⟨of_decide_eq_true h1, of_decide_eq_true h2⟩
  · rintro ⟨h1, h2⟩; exact ⟨decide_eq_true h1, decide_eq_true h2⟩

theorem C11_ip_address (k : String) (v6 : Bool) (a l b m : Nat) :
    evalBase "IpAddress" k (.net v6 b m) [(k, .net v6 a l)] = ofOpt (subnetOf (.net v6 a l) (.net v6 b m)) ∧
    evalBase "IpAddress" k (.net (!v6) b m) [(k, .net v6 a l)] = .err := by
  constructor
  · simp [evalBase, lookup_single, isNet]
  · cases v6 <;> simp [evalBase, lookup_single, isNet, subnetOf, ofOpt]

/-- C11_negation_dual: every negated operator returns the negation of its positive counterpart on the same
    operands and context (an exception stays an exception); for NotIpAddress the policy value must be a network -/
theorem C11_negation_dual (k : String) (pv : V) (ctx : Ctx) :
    evalBase "StringNotEquals" k pv ctx = (evalBase "StringEquals" k pv ctx).not ∧
    evalBase "ArnNotEquals" k pv ctx = (evalBase "ArnEquals" k pv ctx).not ∧
    evalBase "NumericNotEquals" k pv ctx = (evalBase "NumericEquals" k pv ctx).not ∧
    evalBase "DateNotEquals" k pv ctx = (evalBase "DateEquals" k pv ctx).not ∧
    evalBase "StringNotEqualsIgnoreCase" k pv ctx = (evalBase "StringEqualsIgnoreCase" k pv ctx).not ∧
    evalBase "StringNotLike" k pv ctx = (evalBase "StringLike" k pv ctx).not ∧
    evalBase "ArnNotLike" k pv ctx = (evalBase "ArnLike" k pv ctx).not ∧
    (isNet pv = true → evalBase "NotIpAddress" k pv ctx = (evalBase "IpAddress" k pv ctx).not) := by
  have hb : ∀ b : Bool, R.ofBool (!b) = (R.ofBool b).not := by intro b; cases b <;> rfl
  have eqs : ∀ v, R.ofBool (!pyEq v pv) = (R.ofBool (pyEq v pv)).not := fun v => hb _
  have h1 : evalBase "StringNotEquals" k pv ctx = (evalBase "StringEquals" k pv ctx).not := by
    simp only [evalBase]; cases ctxLookup k ctx <;> simp [eqs, R.not]
  have h2 : evalBase "ArnNotEquals" k pv ctx = (evalBase "ArnEquals" k pv ctx).not := by
    simp only [evalBase]; cases ctxLookup k ctx <;> simp [eqs, R.not]
  have h3 : evalBase "NumericNotEquals" k pv ctx = (evalBase "NumericEquals" k pv ctx).not := by
    simp only [evalBase]; cases ctxLookup k ctx <;> simp [eqs, R.not]
  have h4 : evalBase "DateNotEquals" k pv ctx = (evalBase "DateEquals" k pv ctx).not := by
    simp only [evalBase]; cases ctxLookup k ctx <;> simp [eqs, R.not]
  have h5 : evalBase "StringNotEqualsIgnoreCase" k pv ctx = (evalBase "StringEqualsIgnoreCase" k pv ctx).not := by
    simp only [evalBase]
    cases ctxLookup k ctx with
    | none => rfl
    | some v => cases v <;> cases pv <;> simp [hb, R.not]
  have h6 : evalBase "StringNotLike" k pv ctx = (evalBase "StringLike" k pv ctx).not := by
    simp only [evalBase]
    cases ctxLookup k ctx with
    | none => rfl
    | some v => cases v <;> cases pv <;> simp [hb, R.not]
  have h7 : evalBase "ArnNotLike" k pv ctx = (evalBase "ArnLike" k pv ctx).not := by
    simp only [evalBase]
    cases ctxLookup k ctx with
    | none => rfl
    | some v => cases v <;> cases pv <;> simp [hb, R.not]
  have h8 : isNet pv = true → evalBase "NotIpAddress" k pv ctx = (evalBase "IpAddress" k pv ctx).not := by
    intro hn
    simp only [evalBase, hn, Bool.not_true, Bool.false_eq_true, if_false]
    cases ctxLookup k ctx <;> rfl
  exact ⟨h1, h2, h3, h4, h5, h6, h7, h8⟩

/-- the policy value of `IpAddress` that is not a network makes both the operator and its negation false
    (recorded excluded point of the duality) -/
theorem C11_ip_not_network (k : String) (pv : V) (ctx : Ctx) (h : isNet pv = false) :
    evalBase "IpAddress" k pv ctx = .f ∧ evalBase "NotIpAddress" k pv ctx = .f := by
  simp [evalBase, h]

-- Non-vacuity
example : evalBase "IpAddress" "k" (.net false 167772160 8) [("k", .net false 167837952 16)] = .t := by decide +kernel
example : evalBase "NotIpAddress" "k" (.net false 167772160 8) [("k", .net false 184549376 8)] = .t := by decide +kernel
example : evalBase "StringLike" "k" (.str "a*c" "a*c") [("k", .str "abbc" "abbc")] = .t := by decide +kernel
example : evalBase "NumericLessThan" "k" (.int 5) [("k", .str "4" "4")] = .err := by decide +kernel

end PycfModel.IamCond
