import PycfModel.Props.C02
import Batteries.Data.List.Perm
set_option linter.unusedSimpArgs false
set_option linter.unusedVariables false
/-!
C02 — termination of condition evaluation (the step bounds of the model are never what decides a result).

The Python code evaluates a condition by recursion through the non-cyclic conditions it references
(`condition_value`), after a visited-set search for reference cycles (`_reachable_from`). The model carries two
step bounds for these two loops. This file proves that they always suffice:

* `C02_search_complete`: the bounded visited-set search finds every node reachable from its start, so a condition on
  a reference cycle is always recognised as cyclic;
* `C02_chain_nodup`: along references that are *visible* (non-cyclic) no condition occurs twice, so the recursion
  depth is at most the number of declared conditions;
* `C02_terminates`: the value of a condition under the model's bound is its value under every larger bound — a
  `none` of the model is never an exhausted bound, and the recursion of the code cannot run away.
-/
namespace PycfModel.Template
open PycfModel PycfModel.Resolver

/-! ### Reachability -/

/-- `x` reaches `y` through one or more references -/
inductive Reach (refsOf : String → List String) : String → String → Prop where
  | step {x y : String} : y ∈ refsOf x → Reach refsOf x y
  | trans {x y z : String} : y ∈ refsOf x → Reach refsOf y z → Reach refsOf x z

theorem Reach.snoc {refsOf : String → List String} {x y z : String} (h : Reach refsOf x y) (hz : z ∈ refsOf y) :
    Reach refsOf x z := by
  induction h with
  | step h1 => exact .trans h1 (.step hz)
  | trans h1 _ ih => exact .trans h1 (ih hz)

theorem closed_reach {refsOf : String → List String} {R : List String} (hc : ∀ z ∈ R, ∀ y ∈ refsOf z, y ∈ R)
    {x w : String} (hx : x ∈ R) (h : Reach refsOf x w) : w ∈ R := by
  induction h with
  | step h1 => exact hc _ hx _ h1
  | trans h1 _ ih => exact ih (hc _ hx _ h1)

/-! ### The visited-set search is complete within its bound -/

/-- not yet seen -/
def unseen (S : List String) (y : String) : Bool := !S.contains y

theorem unseen_cons_ne (S : List String) {x y : String} (h : y ≠ x) : unseen (x :: S) y = unseen S y := by
  simp [unseen, List.contains_cons, h]

theorem unseen_cons_self (S : List String) (x : String) : unseen (x :: S) x = false := by
  simp [unseen, List.contains_cons]

theorem unseen_of_not_contains (S : List String) (x : String) (h : S.contains x = false) : unseen S x = true := by
  unfold unseen; rw [h]; rfl

/-- references still to be expanded: one per frontier entry plus the out-degree of every node of `U` not yet seen -/
def pot (refsOf : String → List String) (U F S : List String) : Nat :=
  F.length + ((U.filter (unseen S)).map fun y => (refsOf y).length).sum

theorem sumOut_not_mem (refsOf : String → List String) (x : String) (S : List String) :
    ∀ U : List String, x ∉ U →
      ((U.filter (unseen (x :: S))).map fun y => (refsOf y).length).sum =
      ((U.filter (unseen S)).map fun y => (refsOf y).length).sum
  | [], _ => rfl
  | u :: us, h => by
    have hne : u ≠ x := fun e => h (by simp [e])
    have ih := sumOut_not_mem refsOf x S us (fun hm => h (by simp [hm]))
    simp only [List.filter_cons, unseen_cons_ne S hne]
    split
    · simp only [List.map_cons, List.sum_cons, ih]
    · exact ih

theorem sumOut_mem (refsOf : String → List String) (x : String) (S : List String) (hx : S.contains x = false) :
    ∀ U : List String, U.Nodup → x ∈ U →
      ((U.filter (unseen S)).map fun y => (refsOf y).length).sum =
      ((U.filter (unseen (x :: S))).map fun y => (refsOf y).length).sum + (refsOf x).length
  | [], _, h => by simp at h
  | u :: us, hn, h => by
    have hnu : u ∉ us := (List.nodup_cons.mp hn).1
    have hns : us.Nodup := (List.nodup_cons.mp hn).2
    by_cases hux : u = x
    · subst hux
      have := sumOut_not_mem refsOf u S us hnu
      simp only [List.filter_cons, unseen_of_not_contains S u hx, unseen_cons_self, if_true, Bool.false_eq_true, if_false,
        List.map_cons, List.sum_cons, this]
      omega
    · have hmem : x ∈ us := by
        rcases List.mem_cons.mp h with e | e
        · exact absurd e.symm hux
        · exact e
      have ih := sumOut_mem refsOf x S hx us hns hmem
      simp only [List.filter_cons, unseen_cons_ne S hux]
      split
      · simp only [List.map_cons, List.sum_cons, ih]; omega
      · exact ih

/-- the search, run with at least `pot` steps, returns a set containing what was seen, the whole frontier, and closed
    under references for every node it added -/
theorem reachFrom_spec (refsOf : String → List String) (U : List String) (hU : U.Nodup) (hout : ∀ x, x ∉ U → refsOf x = []) :
    ∀ (fuel : Nat) (F S : List String), pot refsOf U F S ≤ fuel →
      (∀ x ∈ S, x ∈ reachFrom refsOf fuel F S) ∧ (∀ x ∈ F, x ∈ reachFrom refsOf fuel F S) ∧
      (∀ z ∈ reachFrom refsOf fuel F S, z ∈ S ∨ ∀ y ∈ refsOf z, y ∈ reachFrom refsOf fuel F S)
  | 0, F, S, h => by
    have hF : F = [] := by
      unfold pot at h
      cases F with
      | nil => rfl
      | cons a r => simp only [List.length_cons] at h; omega
    subst hF
    have e : reachFrom refsOf 0 [] S = S := rfl
    rw [e]
    exact ⟨fun x hx => hx, fun x hx => (nomatch hx), fun z hz => Or.inl hz⟩
  | fuel + 1, [], S, _ => by
    have e : reachFrom refsOf (fuel + 1) [] S = S := rfl
    rw [e]
    exact ⟨fun x hx => hx, fun x hx => (nomatch hx), fun z hz => Or.inl hz⟩
  | fuel + 1, x :: F, S, h => by
    unfold reachFrom
    by_cases hs : S.contains x = true
    · simp only [hs, if_true]
      have hp : pot refsOf U F S ≤ fuel := by unfold pot at h ⊢; simp only [List.length_cons] at h; omega
      obtain ⟨h1, h2, h3⟩ := reachFrom_spec refsOf U hU hout fuel F S hp
      refine ⟨h1, ?_, h3⟩
      intro y hy
      rcases List.mem_cons.mp hy with e | e
      · subst e; exact h1 _ (by simpa using hs)
      · exact h2 _ e
    · have hs' : S.contains x = false := by simpa using hs
      simp only [hs', Bool.false_eq_true, if_false]
      have hp : pot refsOf U (refsOf x ++ F) (x :: S) ≤ fuel := by
        unfold pot at h ⊢
        by_cases hxU : x ∈ U
        · have := sumOut_mem refsOf x S hs' U hU hxU
          simp only [List.length_cons, List.length_append] at h ⊢
          omega
        · have := sumOut_not_mem refsOf x S U hxU
          have hz : (refsOf x).length = 0 := by rw [hout x hxU]; rfl
          simp only [List.length_cons, List.length_append] at h ⊢
          omega
      obtain ⟨h1, h2, h3⟩ := reachFrom_spec refsOf U hU hout fuel (refsOf x ++ F) (x :: S) hp
      refine ⟨fun y hy => h1 y (List.mem_cons_of_mem _ hy), ?_, ?_⟩
      · intro y hy
        rcases List.mem_cons.mp hy with e | e
        · subst e; exact h1 _ (List.mem_cons_self ..)
        · exact h2 _ (List.mem_append_right _ e)
      · intro z hz
        rcases h3 z hz with hm | hc
        · rcases List.mem_cons.mp hm with e | e
          · subst e; exact Or.inr fun y hy => h2 y (List.mem_append_left _ hy)
          · exact Or.inl e
        · exact Or.inr hc

/-- C02_search_complete: started from the references of `r` with nothing seen and at least `pot` steps, the search
    returns every node `r` reaches -/
theorem C02_search_complete (refsOf : String → List String) (U : List String) (hU : U.Nodup) (hout : ∀ x, x ∉ U → refsOf x = [])
    (fuel : Nat) (r w : String) (hf : pot refsOf U (refsOf r) [] ≤ fuel) (h : Reach refsOf r w) :
    w ∈ reachFrom refsOf fuel (refsOf r) [] := by
  obtain ⟨_, h2, h3⟩ := reachFrom_spec refsOf U hU hout fuel (refsOf r) [] hf
  have hc : ∀ z ∈ reachFrom refsOf fuel (refsOf r) [], ∀ y ∈ refsOf z, y ∈ reachFrom refsOf fuel (refsOf r) [] := by
    intro z hz
    rcases h3 z hz with hm | hc
    · simp at hm
    · exact hc
  cases h with
  | step h1 => exact h2 _ h1
  | trans h1 h' => exact closed_reach hc (h2 _ h1) h'

/-! ### The graph of a `Conditions` section -/

theorem mem_dedup (x : String) : ∀ l : List String, x ∈ dedup l ↔ x ∈ l
  | [] => by simp [dedup]
  | y :: ys => by
    simp only [dedup]
    split
    · rename_i hc
      rw [mem_dedup x ys]
      constructor
      · intro h; exact List.mem_cons_of_mem _ h
      · intro h
        rcases List.mem_cons.mp h with e | e
        · subst e; simpa using hc
        · exact e
    · simp [mem_dedup x ys]

theorem nodup_dedup : ∀ l : List String, (dedup l).Nodup
  | [] => by simp [dedup]
  | y :: ys => by
    simp only [dedup]
    split
    · exact nodup_dedup ys
    · rename_i hc
      refine List.nodup_cons.mpr ⟨?_, nodup_dedup ys⟩
      rw [mem_dedup]
      simpa using hc

theorem length_dedup_le : ∀ l : List String, (dedup l).length ≤ l.length
  | [] => by simp [dedup]
  | y :: ys => by
    simp only [dedup]
    split
    · have := length_dedup_le ys; simp; omega
    · have := length_dedup_le ys; simp; omega

theorem refsIn_declared (defs : List (String × J)) (k r : String) (h : r ∈ refsIn defs k) : r ∈ defs.map (·.1) := by
  unfold refsIn at h
  cases hd : J.lookup k defs with
  | none => simp [hd] at h
  | some d =>
    simp only [hd] at h
    rw [mem_dedup] at h
    have := (List.mem_filter.mp h).2
    cases hl : J.lookup r defs with
    | none => simp [hl] at this
    | some v => exact List.mem_map.mpr ⟨(r, v), J.lookup_mem hl, rfl⟩

theorem refsIn_undeclared (defs : List (String × J)) (k : String) (h : k ∉ defs.map (·.1)) : refsIn defs k = [] := by
  unfold refsIn
  have : J.lookup k defs = none := by
    rw [J.lookup_eq_none_iff]
    exact h
  simp [this]

theorem refsIn_length_le (defs : List (String × J)) (k : String) (d : J) (h : J.lookup k defs = some d) :
    (refsIn defs k).length ≤ (condRefs d).length := by
  unfold refsIn
  simp only [h]
  exact Nat.le_trans (length_dedup_le _) (List.length_filter_le _ _)

/-- the out-degrees of the declared conditions sum to at most the number of references written in the section -/
theorem sum_deg_le (all : List (String × J)) (hn : (all.map (·.1)).Nodup) :
    ∀ defs : List (String × J), (∀ kv ∈ defs, kv ∈ all) →
      ((defs.map (·.1)).map fun y => (refsIn all y).length).sum ≤ (defs.map fun kv => (condRefs kv.2).length).sum
  | [], _ => by simp
  | (k, d) :: rest, h => by
    have hl : J.lookup k all = some d := J.lookup_of_mem_nodup hn (h (k, d) (by simp))
    have h1 := refsIn_length_le all k d hl
    have ih := sum_deg_le all hn rest (fun kv hkv => h kv (by simp [hkv]))
    simp only [List.map_cons, List.sum_cons]
    omega

theorem filter_sum_le (f : String → Nat) (p : String → Bool) : ∀ U : List String, ((U.filter p).map f).sum ≤ (U.map f).sum
  | [] => by simp
  | u :: us => by
    have ih := filter_sum_le f p us
    simp only [List.filter_cons]
    split <;> simp <;> omega

/-- the bound the model gives the search is enough for every start node -/
theorem searchFuel_enough (defs : List (String × J)) (hn : (defs.map (·.1)).Nodup) (r : String) :
    pot (refsIn defs) (defs.map (·.1)) (refsIn defs r) [] ≤ (mkGraph defs).searchFuel := by
  unfold pot mkGraph
  simp only
  have h1 : (refsIn defs r).length ≤ defs.length := by
    have hsub : refsIn defs r ⊆ defs.map (·.1) := fun x hx => refsIn_declared defs r x hx
    have hnd : (refsIn defs r).Nodup := by
      unfold refsIn
      cases J.lookup r defs with
      | none => simp
      | some d => exact nodup_dedup _
    have := (List.subperm_of_subset hnd hsub).length_le
    simpa using this
  have h2 := filter_sum_le (fun y => (refsIn defs y).length) (unseen []) (defs.map (·.1))
  have h3 := sum_deg_le defs hn defs (fun kv h => h)
  omega

/-- C02_cycle_recognised: a declared condition that reaches itself through references is recognised as cyclic -/
theorem C02_cycle_recognised (defs : List (String × J)) (hn : (defs.map (·.1)).Nodup) (r : String)
    (h : Reach (refsIn defs) r r) : isCyclic (mkGraph defs) r = true := by
  unfold isCyclic
  have := C02_search_complete (refsIn defs) (defs.map (·.1)) hn (fun x hx => refsIn_undeclared defs x hx)
    (mkGraph defs).searchFuel r r (searchFuel_enough defs hn r) h
  simpa [mkGraph] using this

/-! ### Chains of visible references have no repetition -/

/-- `k₀ :: k₁ :: …`: each `kᵢ` is a visible (declared, non-cyclic) reference of `kᵢ₊₁` -/
def Chain (g : CondGraph) : List String → Prop
  | [] => True
  | [_] => True
  | k :: k1 :: rest => k ∈ visibleRefs g k1 ∧ Chain g (k1 :: rest)

theorem visible_sub (g : CondGraph) (k r : String) (h : r ∈ visibleRefs g k) : r ∈ g.refsOf k ∧ isCyclic g r = false := by
  simp only [visibleRefs, List.mem_filter, Bool.not_eq_true'] at h
  exact h

theorem chain_reach (g : CondGraph) : ∀ (k1 : String) (rest : List String), Chain g (k1 :: rest) →
    ∀ z ∈ (k1 :: rest), z = k1 ∨ Reach g.refsOf z k1
  | k1, [], _, z, hz => by simp at hz; exact Or.inl hz
  | k1, k2 :: rest, hc, z, hz => by
    obtain ⟨hv, hc'⟩ := hc
    rcases List.mem_cons.mp hz with e | e
    · exact Or.inl e
    · have h12 : Reach g.refsOf k2 k1 := .step (visible_sub g k2 k1 hv).1
      rcases chain_reach g k2 rest hc' z e with e2 | hr
      · subst e2; exact Or.inr h12
      · exact Or.inr (hr.snoc (visible_sub g k2 k1 hv).1)

/-- C02_chain_nodup: a chain of visible references never repeats a condition -/
theorem C02_chain_nodup (defs : List (String × J)) (hn : (defs.map (·.1)).Nodup) :
    ∀ c : List String, Chain (mkGraph defs) c → c.Nodup
  | [], _ => by simp
  | [_], _ => by simp
  | k :: k1 :: rest, hc => by
    obtain ⟨hv, hc'⟩ := hc
    have ih := C02_chain_nodup defs hn (k1 :: rest) hc'
    refine List.nodup_cons.mpr ⟨?_, ih⟩
    intro hk
    obtain ⟨hr, hnc⟩ := visible_sub (mkGraph defs) k1 k hv
    have hcyc : Reach (refsIn defs) k k := by
      rcases chain_reach (mkGraph defs) k1 rest hc' k hk with e | h'
      · subst e; exact .step (by simpa [mkGraph] using hr)
      · exact (by simpa [mkGraph] using h' : Reach (refsIn defs) k k1).snoc (by simpa [mkGraph] using hr)
    rw [C02_cycle_recognised defs hn k hcyc] at hnc
    cases hnc

/-! ### The recursion depth is bounded by the number of conditions -/

theorem mapM_congr_opt {α β : Type} (f g : α → Option β) : ∀ l : List α, (∀ x ∈ l, f x = g x) → l.mapM f = l.mapM g
  | [], _ => rfl
  | x :: xs, h => by
    simp only [List.mapM_cons]
    rw [h x (by simp), mapM_congr_opt f g xs (fun y hy => h y (by simp [hy]))]

theorem condValue_stable_step (defs : List (String × J)) (hn : (defs.map (·.1)).Nodup) (p m : List (String × J)) :
    ∀ (fuel : Nat) (k : String) (rest : List String), Chain (mkGraph defs) (k :: rest) →
      (∀ z ∈ (k :: rest), z ∈ defs.map (·.1)) → defs.length + 1 ≤ fuel + (k :: rest).length →
      condValue (mkGraph defs) p m fuel k = condValue (mkGraph defs) p m (fuel + 1) k
  | 0, k, rest, hc, hd, hlen => by
    have hnd := C02_chain_nodup defs hn (k :: rest) hc
    have := (List.subperm_of_subset hnd (fun z hz => hd z hz)).length_le
    simp only [List.length_map] at this
    omega
  | fuel + 1, k, rest, hc, hd, hlen => by
    unfold condValue
    cases hdef : (mkGraph defs).defOf k with
    | none => rfl
    | some d =>
      simp only [Option.bind_eq_bind, Option.bind_some]
      have hvis : (visibleRefs (mkGraph defs) k).mapM (fun r => (condValue (mkGraph defs) p m fuel r).map fun b => (r, b)) =
          (visibleRefs (mkGraph defs) k).mapM (fun r => (condValue (mkGraph defs) p m (fuel + 1) r).map fun b => (r, b)) := by
        apply mapM_congr_opt
        intro r hr
        have hrd : r ∈ defs.map (·.1) := refsIn_declared defs k r (by simpa [mkGraph] using (visible_sub _ k r hr).1)
        rw [condValue_stable_step defs hn p m fuel r (k :: rest) ⟨hr, hc⟩
          (fun z hz => by rcases List.mem_cons.mp hz with e | e; exact e ▸ hrd; exact hd z e)
          (by simp only [List.length_cons] at hlen ⊢; omega)]
      rw [hvis]

/-- C02_terminates: for a `Conditions` section with distinct names, the value of a declared condition under the
    model's depth bound (number of conditions + 1) is its value under every larger bound -/
theorem C02_terminates (defs : List (String × J)) (hn : (defs.map (·.1)).Nodup) (p m : List (String × J)) (k : String)
    (hk : k ∈ defs.map (·.1)) (extra : Nat) :
    condValue (mkGraph defs) p m ((mkGraph defs).depthFuel + extra) k = condValue (mkGraph defs) p m (mkGraph defs).depthFuel k := by
  induction extra with
  | zero => rfl
  | succ n ih =>
    rw [← ih]
    have hdf : (mkGraph defs).depthFuel = defs.length + 1 := rfl
    exact (condValue_stable_step defs hn p m ((mkGraph defs).depthFuel + n) k [] trivial
      (fun z hz => by simp at hz; exact hz ▸ hk) (by simp only [List.length_cons, List.length_nil, hdf]; omega)).symm

-- Non-vacuity: a three-cycle with a tail; the cycle is recognised and the tail sees it as false
example : isCyclic (mkGraph [("A", .obj [("Condition", .str "B")]), ("B", .obj [("Condition", .str "C")]),
    ("C", .obj [("Condition", .str "A")]), ("T", .obj [("Fn::Not", .arr [.obj [("Condition", .str "A")]])])]) "B" = true := by
  decide +kernel

end PycfModel.Template
