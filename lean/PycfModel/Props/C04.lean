import PycfModel.Model.Template
import PycfModel.Lemmas.Lookup
import PycfModel.Lemmas.Tokens
import PycfModel.Props.C01
set_option linter.unusedSimpArgs false
/-!
C04 — parameter binding precedence, list parameters, SSM references and NoEcho masking.
-/
namespace PycfModel.Template
open PycfModel PycfModel.Resolver PycfModel.Text

/-- C04_markers: the three marker texts of the live `Parameter` class, and the list parameter types -/
theorem C04_markers :
    Generated.noEchoNoDefault = "NO_ECHO_NO_DEFAULT" ∧ Generated.noEchoWithDefault = "NO_ECHO_WITH_DEFAULT" ∧
    Generated.noEchoWithValue = "NO_ECHO_WITH_VALUE" := by decide

def IsScalarOrNull : J → Prop
  | .arr _ => False
  | .obj _ => False
  | .leaf _ _ => False
  | _ => True

/-! ### get_ref_value -/

/-- C04_precedence (value level): supplied value, else Default, else nothing — rendered as a string -/
theorem C04_precedence (d : ParamDecl) (provided : J) (hne : d.noEcho = false) (hl : isListType d.type = false) :
    (isNull provided = false → refValue d provided = (pyStr provided).map fun s => some (.str s)) ∧
    (isNull provided = true → isNull d.default = false →
      refValue d provided = (pyStr d.default).map fun s => some (.str s)) ∧
    (isNull provided = true → isNull d.default = true → refValue d provided = some none) := by
  refine ⟨fun h => ?_, fun h h' => ?_, fun h h' => ?_⟩ <;> simp [refValue, hne, hl, h, *]

/-- C04_number_string: Number values are rendered as strings -/
theorem C04_number_string (i : Int) : pyStr (.int i) = some (String.ofList (intToChars i)) := rfl

/-- C04_list_split: list-typed parameters yield the list of their comma-separated items -/
theorem C04_list_split (d : ParamDecl) (provided : J) (hne : d.noEcho = false) (hl : isListType d.type = true)
    (s : String) :
    (provided = .str s → refValue d provided = some (some (splitCommas s))) ∧
    (isNull provided = true → d.default = .str s → refValue d provided = some (some (splitCommas s))) ∧
    (isNull provided = true → isNull d.default = true → refValue d provided = some none) := by
  refine ⟨fun h => ?_, fun h h' => ?_, fun h h' => ?_⟩
  · subst h; simp [refValue, hne, hl, isNull, pyStr]
  · simp [refValue, hne, hl, h, h', pyStr, (show isNull (J.str s) = false from rfl)]
  · simp [refValue, hne, h, h']

theorem C04_list_types : isListType "List<Number>" = true ∧ isListType "CommaDelimitedList" = true ∧
    isListType "String" = false ∧ isListType "Number" = false := by decide

/-- C04_total: no declaration / supply combination with scalar (or absent) value and default makes
    `get_ref_value` fail — in particular not a list-typed parameter with neither value nor default -/
theorem C04_total (d : ParamDecl) (provided : J) (hp : IsScalarOrNull provided) (hd : IsScalarOrNull d.default) :
    ∃ r, refValue d provided = some r := by
  unfold refValue
  by_cases hn : d.noEcho = true
  · simp only [hn, if_true]
    by_cases h1 : isNull provided = true
    · simp only [h1, Bool.not_true, Bool.false_eq_true, if_false]
      split <;> exact ⟨_, rfl⟩
    · simp only [Bool.not_eq_true] at h1; simp only [h1, Bool.not_false, if_true]; exact ⟨_, rfl⟩
  · simp only [Bool.not_eq_true] at hn
    simp only [hn, Bool.false_eq_true, if_false]
    have key : ∀ v : J, IsScalarOrNull v → isNull v = false → ∃ s, pyStr v = some s := by
      intro v hv hnull
      cases v <;> simp_all [IsScalarOrNull, pyStr, isNull]
    by_cases h1 : isNull provided = true
    · simp only [h1, if_true]
      by_cases h2 : isNull d.default = true
      · simp [h2]
      · simp only [Bool.not_eq_true] at h2
        obtain ⟨s, hs⟩ := key _ hd h2
        simp only [h2, Bool.false_eq_true, if_false, hs]
        split <;> exact ⟨_, rfl⟩
    · simp only [Bool.not_eq_true] at h1
      obtain ⟨s, hs⟩ := key _ hp h1
      simp only [h1, Bool.false_eq_true, if_false, hs]
      split <;> exact ⟨_, rfl⟩

/-! ### NoEcho -/

/-- C04_noecho_markers: a NoEcho parameter yields exactly one of the three markers, never its value -/
theorem C04_noecho_markers (d : ParamDecl) (provided : J) (hn : d.noEcho = true) :
    (isNull provided = false → refValue d provided = some (some (.str "NO_ECHO_WITH_VALUE"))) ∧
    (isNull provided = true → truthy d.default = true →
      refValue d provided = some (some (.str "NO_ECHO_WITH_DEFAULT"))) ∧
    (isNull provided = true → truthy d.default = false →
      refValue d provided = some (some (.str "NO_ECHO_NO_DEFAULT"))) := by
  have hm := C04_markers
  refine ⟨fun h => ?_, fun h h' => ?_, fun h h' => ?_⟩ <;> simp [refValue, hn, h, hm.1, hm.2.1, hm.2.2, *]

/-- C04_noninterference (value level): for a NoEcho parameter the reference value is the same for any two
    supplied (non-null) values, and for any two Defaults of equal truthiness — it does not depend on the secret -/
theorem C04_noninterference (d d' : ParamDecl) (v v' : J) (hn : d.noEcho = true) (hn' : d'.noEcho = true)
    (hv : isNull v = false) (hv' : isNull v' = false) :
    refValue d v = refValue d' v' := by
  simp [refValue, hn, hn', hv, hv']

theorem C04_noninterference_default (d d' : ParamDecl) (hn : d.noEcho = true) (hn' : d'.noEcho = true)
    (ht : truthy d.default = truthy d'.default) :
    refValue d .null = refValue d' .null := by
  simp [refValue, hn, hn', isNull, ht]

/-! ### Binding: {pseudo, declared, extra} -/

theorem declaredParams_keys (extra : List (String × J)) :
    ∀ (decls : List (String × ParamDecl)) (out : List (String × J)), declaredParams extra decls = some out →
      ∀ x, x ∈ out.map (·.1) → x ∈ decls.map (·.1)
  | [], out, h, x, hx => by simp [declaredParams] at h; subst h; simp at hx
  | (k2, d2) :: rest, out, h, x, hx => by
    simp only [declaredParams, Option.bind_eq_bind] at h
    cases hv2 : refValue d2 ((J.lookup k2 extra).getD .null) with
    | none => simp [hv2] at h
    | some v2 =>
      cases ht2 : declaredParams extra rest with
      | none => simp [hv2, ht2] at h
      | some tail2 =>
        have ih := declaredParams_keys extra rest tail2 ht2 x
        rw [List.map_cons, List.mem_cons]
        cases v2 with
        | none => simp [hv2, ht2] at h; subst h; exact Or.inr (ih hx)
        | some y =>
          simp [hv2, ht2] at h; subst h
          rw [List.map_cons, List.mem_cons] at hx
          rcases hx with e | hx
          · exact Or.inl e
          · exact Or.inr (ih hx)

theorem declaredParams_lookup (extra : List (String × J)) :
    ∀ (decls : List (String × ParamDecl)) (out : List (String × J)), declaredParams extra decls = some out →
      (decls.map (·.1)).Nodup → ∀ k d, J.lookup k decls = some d →
        refValue d ((J.lookup k extra).getD .null) = some (J.lookup k out)
  | [], out, _, _, k, d, hk => by simp [J.lookup] at hk
  | (k', d') :: rest, out, h, hn, k, d, hk => by
    rw [List.map_cons, List.nodup_cons] at hn
    simp only [declaredParams, Option.bind_eq_bind] at h
    cases hv : refValue d' ((J.lookup k' extra).getD .null) with
    | none => simp [hv] at h
    | some v =>
      cases ht : declaredParams extra rest with
      | none => simp [hv, ht] at h
      | some tail =>
        have hkeys := declaredParams_keys extra rest tail ht
        rw [J.lookup_cons] at hk
        by_cases e : k' = k
        · subst e
          simp at hk; subst hk
          have hnot : J.lookup k' tail = none := by
            rw [J.lookup_eq_none_iff]; exact fun hm => hn.1 (hkeys _ hm)
          cases v with
          | none => simp [hv, ht] at h; subst h; rw [hv, hnot]
          | some y => simp [hv, ht] at h; subst h; rw [hv]; simp [J.lookup_cons]
        · simp only [e, if_false] at hk
          have ih := declaredParams_lookup extra rest tail ht hn.2 k d hk
          cases v with
          | none => simp [hv, ht] at h; subst h; exact ih
          | some y => simp [hv, ht] at h; subst h; rw [J.lookup_cons]; simp only [e, if_false]; exact ih

/-- C04_bind_declared: a declared parameter resolves to its reference value; a declared parameter without
    value and Default falls back to the library (pseudo-parameter) default, if any -/
theorem C04_bind_declared (pseudo : List (String × J)) (decls : List (String × ParamDecl)) (extra params : List (String × J))
    (h : bind pseudo decls extra = some params) (hn : (decls.map (·.1)).Nodup)
    (k : String) (d : ParamDecl) (hk : J.lookup k decls = some d) :
    ∃ r, refValue d ((J.lookup k extra).getD .null) = some r ∧
      J.lookup k params = (match r with | some v => some v | none => J.lookup k pseudo) := by
  simp only [bind, Option.bind_eq_bind] at h
  cases hd : declaredParams extra decls with
  | none => simp [hd] at h
  | some declared =>
    simp [hd] at h; subst h
    have := declaredParams_lookup extra decls declared hd hn k d hk
    refine ⟨_, this, ?_⟩
    have hdecl : (decls.any fun x => x.1 == k) = true := by
      rw [List.any_eq_true]; exact ⟨(k, d), J.lookup_mem hk, by simp⟩
    have hund : J.lookup k (extra.filter fun kv => !(decls.any fun x => x.1 == kv.1)) = none := by
      rw [J.lookup_filter_key (fun key => !(decls.any fun x => x.1 == key))]; simp [hdecl]
    rw [J.lookup_append, J.lookup_append, hund]
    cases J.lookup k declared <;> simp

/-- C04_bind_undeclared: a name that is not declared resolves to the caller-supplied value if there is one
    (this is how pseudo parameters are overridden and SSM values supplied), else to the library default -/
theorem C04_bind_undeclared (pseudo : List (String × J)) (decls : List (String × ParamDecl)) (extra params : List (String × J))
    (h : bind pseudo decls extra = some params) (k : String) (hk : J.lookup k decls = none) :
    J.lookup k params = (J.lookup k extra).orElse fun _ => J.lookup k pseudo := by
  simp only [bind, Option.bind_eq_bind] at h
  cases hd : declaredParams extra decls with
  | none => simp [hd] at h
  | some declared =>
    simp [hd] at h; subst h
    have hdecl : (decls.any fun x => x.1 == k) = false := by
      rw [J.lookup_eq_none_iff] at hk
      rw [List.any_eq_false]; intro x hx; simp; intro e; exact hk (List.mem_map.mpr ⟨x, hx, e⟩)
    have hund : J.lookup k (extra.filter fun kv => !(decls.any fun x => x.1 == kv.1)) = J.lookup k extra := by
      rw [J.lookup_filter_key (fun key => !(decls.any fun x => x.1 == key))]; simp [hdecl]
    have hdn : J.lookup k declared = none := by
      rw [J.lookup_eq_none_iff] at hk ⊢
      exact fun hm => hk (declaredParams_keys extra decls declared hd k hm)
    rw [J.lookup_append, J.lookup_append, hund, hdn]
    cases J.lookup k extra <;> simp

theorem lookup_map_replace (P : String) (v' : J) (k : String) : ∀ (extra : List (String × J)),
    J.lookup k (extra.map fun kv => if kv.1 = P then (P, v') else kv) =
      if k = P then (J.lookup P extra).map (fun _ => v') else J.lookup k extra
  | [] => by simp [J.lookup]
  | (k2, x) :: rest => by
    have ih := lookup_map_replace P v' k rest
    simp only [List.map_cons]
    by_cases e2 : k2 = P
    · subst e2
      simp only [if_true, J.lookup_cons]
      by_cases ek : k2 = k
      · subst ek; simp
      · have : k ≠ k2 := fun h => ek h.symm
        simp only [ek, if_false, this, ih]
    · simp only [e2, if_false, J.lookup_cons]
      by_cases ek : k2 = k
      · subst ek; simp [e2]
      · simp only [ek, if_false, ih]

theorem declaredParams_congr (extra extra' : List (String × J)) :
    ∀ (decls : List (String × ParamDecl)),
      (∀ kd ∈ decls, refValue kd.2 ((J.lookup kd.1 extra).getD .null) = refValue kd.2 ((J.lookup kd.1 extra').getD .null)) →
      declaredParams extra decls = declaredParams extra' decls
  | [], _ => rfl
  | (k, d) :: rest, h => by
    simp only [declaredParams]
    rw [h (k, d) (by simp), declaredParams_congr extra extra' rest (fun kd hkd => h kd (by simp [hkd]))]

/-- C04_noninterference (template level): replacing the supplied value of a NoEcho parameter by any other
    non-null value leaves the whole binding — hence every resolved condition and resource — unchanged -/
theorem C04_noninterference_bind (pseudo : List (String × J)) (decls : List (String × ParamDecl))
    (extra : List (String × J)) (P : String) (d : ParamDecl) (v v' : J)
    (hP : J.lookup P decls = some d) (hn : d.noEcho = true) (hnd : (decls.map (·.1)).Nodup)
    (hin : J.lookup P extra = some v) (hv : isNull v = false) (hv' : isNull v' = false) :
    bind pseudo decls extra = bind pseudo decls (extra.map fun kv => if kv.1 = P then (P, v') else kv) := by
  have hdecl : (decls.any fun x => x.1 == P) = true := by
    rw [List.any_eq_true]; exact ⟨(P, d), J.lookup_mem hP, by simp⟩
  have hfilter : ∀ (l : List (String × J)),
      (l.map fun kv => if kv.1 = P then (P, v') else kv).filter (fun kv => !(decls.any fun x => x.1 == kv.1)) =
      l.filter (fun kv => !(decls.any fun x => x.1 == kv.1)) := by
    intro l
    induction l with
    | nil => rfl
    | cons kv rest ih =>
      obtain ⟨k2, x⟩ := kv
      simp only [List.map_cons, List.filter_cons]
      by_cases e2 : k2 = P
      · subst e2; simp [hdecl, ih]
      · simp only [e2, if_false, ih]
  have hcongr := declaredParams_congr extra (extra.map fun kv => if kv.1 = P then (P, v') else kv) decls (by
    intro kd hkd
    obtain ⟨k, dk⟩ := kd
    simp only
    rw [lookup_map_replace]
    by_cases ek : k = P
    · subst ek
      have hdk : dk = d := by
        have := J.lookup_of_mem_nodup hnd hkd
        rw [hP] at this; cases this; rfl
      subst hdk
      simp only [if_true, hin, Option.map_some, Option.getD_some]
      exact C04_noninterference dk dk v v' hn hn hv hv'
    · simp [ek])
  simp only [bind, hcongr, hfilter]

/-! ### SSM dynamic references -/

theorem isPrefix_append (p t : List Char) : isPrefix p (p ++ t) = true := by
  induction p with
  | nil => rfl
  | cons c p ih => simp [isPrefix, ih]

/-- C04_ssm: a string `{{resolve:ssm:NAME:VERSION}}` resolves to the value supplied under `NAME:VERSION`
    (the undefined placeholder when none, or an empty one, is supplied) -/
theorem C04_ssm (params : List (String × J)) (name ver : List Char)
    (hn : name ≠ []) (hnc : ∀ c ∈ name, isSsmNameChar c = true)
    (hv : ver ≠ []) (hvc : ∀ c ∈ ver, isDigit c = true) (v : String) (hne : v ≠ "")
    (hs : J.lookup (String.ofList (name ++ ':' :: ver)) params = some (.str v)) :
    resolveStr params (String.ofList (ssmPrefix ++ name ++ ':' :: ver ++ ['}', '}'])) = .str v := by
  have key : ssmKey (ssmPrefix ++ name ++ ':' :: ver ++ ['}', '}']) = some (name ++ ':' :: ver) := by
    unfold ssmKey
    have hp : isPrefix ssmPrefix (ssmPrefix ++ name ++ ':' :: ver ++ ['}', '}']) = true := by
      simp only [List.append_assoc]
      exact isPrefix_append _ _
    have hdrop : (ssmPrefix ++ name ++ ':' :: ver ++ ['}', '}']).drop ssmPrefix.length = name ++ ':' :: (ver ++ ['}', '}']) := by
      simp [List.append_assoc]
    simp only [hp, if_true, hdrop]
    have h1 := takeWhile_append_of_stop (p := isSsmNameChar) name ':' (ver ++ ['}', '}']) hnc (by decide)
    have h2 := takeWhile_append_of_stop (p := isDigit) ver '}' ['}'] hvc (by decide)
    rw [h1.1, h1.2]
    cases name with
    | nil => exact absurd rfl hn
    | cons x xs =>
      simp only
      have e : ver ++ ['}', '}'] = ver ++ '}' :: ['}'] := rfl
      rw [e, h2.1, h2.2]
      cases ver with
      | nil => exact absurd rfl hv
      | cons y ys => rfl
  unfold resolveStr
  rw [String.toList_ofList, key]
  simp only [resolveSsm, hs]
  have : v.isEmpty = false := by simpa [String.isEmpty_iff] using hne
  simp [this]

/-! ### Credential checks -/

/-- C04_credentials_iff (one Authentication entry): clean exactly when every credential field is absent or
    holds the `NO_ECHO_NO_DEFAULT` marker (a reference to a NoEcho parameter with neither Default nor value) -/
theorem C04_auth_clean_iff (kvs : List (String × J)) :
    authClean (.obj kvs) = some true ↔
      ∀ f ∈ ["accessKeyId", "password", "secretKey"],
        J.lookup f kvs = none ∨ J.lookup f kvs = some (.str "NO_ECHO_NO_DEFAULT") := by
  simp only [authClean, authFields, Option.some.injEq, List.all_eq_true]
  constructor
  · intro h f hf
    have := h f hf
    cases hl : J.lookup f kvs with
    | none => exact Or.inl rfl
    | some v =>
      right
      simp only [hl, isMarker, beq_iff_eq] at this
      rw [this, C04_markers.1]
  · intro h f hf
    rcases h f hf with hl | hl
    · simp [hl]
    · simp [hl, isMarker, C04_markers.1]

/-- C04_credentials_iff: `has_hardcoded_credentials()` is false exactly when there is no Authentication
    metadata or every entry is clean -/
theorem C04_credentials_iff (auths : List (String × J)) (md : List (String × J))
    (hm : J.lookup "AWS::CloudFormation::Authentication" md = some (.obj auths)) (hne : auths ≠ [])
    (hobj : ∀ a ∈ auths, ∃ kvs, a.2 = .obj kvs) :
    hardcodedMeta (.obj md) = some false ↔ ∀ a ∈ auths, authClean a.2 = some true := by
  have htruthy : truthy (.obj auths) = true := by
    cases auths with
    | nil => exact absurd rfl hne
    | cons _ _ => rfl
  simp only [hardcodedMeta, hm, htruthy, Bool.not_true, Bool.false_eq_true, if_false]
  clear hm hne htruthy
  induction auths with
  | nil => simp [allClean]
  | cons a rest ih =>
    obtain ⟨k, av⟩ := a
    obtain ⟨kvs, hk⟩ := hobj (k, av) (by simp)
    simp only at hk; subst hk
    have ih' := ih (fun a ha => hobj a (by simp [ha]))
    simp only [allClean, Option.bind_eq_bind]
    have hsome : ∃ c, authClean (.obj kvs) = some c := ⟨_, rfl⟩
    obtain ⟨c, hc⟩ := hsome
    rw [hc]
    cases c with
    | true =>
      simp only [Option.bind_some, if_true, List.mem_cons, forall_eq_or_imp, hc, true_and]
      exact ih'
    | false =>
      simp only [Option.bind_some, Bool.false_eq_true, if_false, Option.map_some, Bool.not_false, List.mem_cons,
        forall_eq_or_imp, hc]
      simp

theorem C04_credentials_absent (md : List (String × J))
    (hm : J.lookup "AWS::CloudFormation::Authentication" md = none) :
    hardcodedMeta (.obj md) = some false ∧ hardcodedMeta .null = some false := by
  simp [hardcodedMeta, hm]

/-- C04_credentials_user: an IAM user with a non-empty LoginProfile password is reported unless the password is the marker -/
theorem C04_credentials_user (lp : List (String × J)) (pw metadata : J) (hp : J.lookup "Password" lp = some pw)
    (ht : truthy pw = true) :
    (pw ≠ .str "NO_ECHO_NO_DEFAULT" → hardcodedUser (.obj lp) metadata = some true) ∧
    (pw = .str "NO_ECHO_NO_DEFAULT" → hardcodedUser (.obj lp) metadata = hardcodedMeta metadata) := by
  constructor
  · intro hne
    have : isMarker pw = false := by
      simp only [isMarker, C04_markers.1]
      cases h : (pw == J.str "NO_ECHO_NO_DEFAULT") with
      | false => rfl
      | true => exact absurd (by simpa using h) hne
    simp [hardcodedUser, hp, ht, this]
  · intro he
    have : isMarker pw = true := by simp [isMarker, C04_markers.1, he]
    simp [hardcodedUser, hp, this]

-- Non-vacuity
example : refValue ⟨"CommaDelimitedList", .null, false⟩ .null = some none := by decide +kernel
example : refValue ⟨"CommaDelimitedList", .str "a,b", false⟩ .null = some (some (.arr [.str "a", .str "b"])) := by
  decide +kernel
example : refValue ⟨"String", .str "dflt", true⟩ (.str "secret") = some (some (.str "NO_ECHO_WITH_VALUE")) := by
  decide +kernel
example : bind [("AWS::Region", .str "eu-west-1")] [("P", ⟨"String", .str "d", false⟩), ("Q", ⟨"Number", .null, false⟩)]
    [("P", .str "v"), ("AWS::Region", .str "us-east-1")] =
    some [("AWS::Region", .str "us-east-1"), ("P", .str "v"), ("AWS::Region", .str "eu-west-1")] := by decide +kernel
example : hardcodedMeta (.obj [("AWS::CloudFormation::Authentication",
    .obj [("c", .obj [("accessKeyId", .str "AKIA"), ("secretKey", .str "NO_ECHO_NO_DEFAULT")])])]) = some true := by
  decide +kernel

end PycfModel.Template
