import PycfModel.Basic.Wire
import PycfModel.Model.Glob
/-
Line protocol driver: one JSON operation per input line, one JSON result per output line.
Executes the implementation models (I); proves nothing.
-/
open Lean (Json)
open PycfModel PycfModel.Wire

def runOp (j : Json) : Except String Json := do
  let op ← getStr j "op"
  match op with
  | "ping" => pure (Json.mkObj [("pong", .bool true)])
  | "glob" =>
    let p ← getStr j "p"
    let s ← getStr j "s"
    let ci ← getBool j "ci"
    let r := if ci then Glob.gmatchCI p.toList s.toList else Glob.gmatchCS p.toList s.toList
    pure (Json.mkObj [("match", .bool r)])
  | _ => .error s!"unknown op {op}"

partial def loop (hin : IO.FS.Stream) (hout : IO.FS.Stream) : IO Unit := do
  let line ← hin.getLine
  if line.isEmpty then return ()
  let out :=
    match Json.parse line with
    | .error e => Json.mkObj [("driver_error", .str s!"parse: {e}")]
    | .ok j =>
      match runOp j with
      | .ok r => r
      | .error e => Json.mkObj [("driver_error", .str e)]
  hout.putStrLn out.compress
  loop hin hout

def main : IO Unit := do
  let hin ← IO.getStdin
  let hout ← IO.getStdout
  loop hin hout
  hout.flush
