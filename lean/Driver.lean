import PycfModel.Basic.Wire
import PycfModel.Model.Glob
import PycfModel.Model.Actions
import PycfModel.Model.Expand
import PycfModel.Model.Catalogue
import PycfModel.Model.Resolver
import PycfModel.Model.Template
import PycfModel.Model.IamCond
import PycfModel.Model.Net
import PycfModel.Model.Policy
import PycfModel.Model.Discover
import PycfModel.Model.Cast
import PycfModel.Model.RoundTrip
import PycfModel.Model.Validators
import PycfModel.Model.Dispatch
import PycfModel.Generated.Net
/-
Line protocol driver: one JSON operation per input line, one JSON result per output line.
Executes the implementation models (I); proves nothing.
-/
open Lean (Json)
open PycfModel PycfModel.Wire

def strOf (a : List Char) : Json := .str (String.ofList a)

def digestWith (m : Nat) (xs : List (List Char)) : Nat :=
  xs.foldl (fun h a => a.foldl (fun h c => (h * m + c.toNat + 1) % 2147483647)
    ((h * m) % 2147483647)) 7

def digest (xs : List (List Char)) : String :=
  s!"{digestWith 1000003 xs}-{digestWith 999983 xs}"

def listResult (full : Bool) (xs : List (List Char)) : Json :=
  if full then Json.mkObj [("list", .arr (xs.map strOf).toArray)]
  else Json.mkObj [("n", .num ⟨xs.length, 0⟩), ("digest", .str (digest xs)),
    ("head", .arr ((xs.take 3).map strOf).toArray), ("tail", .arr ((xs.drop (xs.length - 3)).map strOf).toArray)]

def actionValOf? (j : Json) (k : String) : Except String (Option (Option Actions.ActionVal)) := do
  -- none = not action text; some none = absent/null
  match ← getJ? j k with
  | none => pure (some none)
  | some .null => pure (some none)
  | some v => match Expand.toActionVal v with
    | some av => pure (some (some av))
    | none => pure none

def stmtOf (j : Json) : Except String (Option Actions.Stmt) := do
  let allow ← getBool j "allow"
  match ← actionValOf? j "action", ← actionValOf? j "notaction" with
  | some a, some n => pure (some ⟨allow, a, n⟩)
  | _, _ => pure none

def cat := Catalogue.catalogue

def runExpand (j : Json) : Except String Json := do
  let api ← getStr j "api"
  let full := (getBool j "full").toOption.getD false
  let notText := Json.mkObj [("outside_domain", .str "value is not action text")]
  match api with
  | "module" =>
    let v ← getJ j "value"
    let neg ← getBool j "not"
    match Expand.toActionVal v with
    | some av => pure (listResult full (if neg then Actions.expandNot cat av.toList else Actions.expand cat av.toList))
    | none => pure notText
  | "statement" =>
    match ← actionValOf? j "action", ← actionValOf? j "notaction" with
    | some a, some n => pure (listResult full (Actions.stmtSpec cat a n))
    | _, _ => pure notText
  | "allowed" | "iam" =>
    match j.getObjVal? "stmts" with
    | .ok (.arr ss) =>
      let stmts ← ss.toList.mapM stmtOf
      if stmts.any Option.isNone then pure notText else
      let stmts := stmts.filterMap id
      pure (listResult full (if api == "allowed" then Actions.allowedSpec cat stmts else Actions.iamSpec cat stmts))
    | _ => .error "stmts missing"
  | _ => .error s!"unknown api {api}"

def objMembers (v : J) : Except String (List (String × J)) :=
  match v with
  | .obj kvs => pure kvs
  | .null => pure []
  | _ => .error "object expected"

def envOf (j : Json) : Except String Resolver.Env := do
  let params ← objMembers (← getJ j "params")
  let mappings ← objMembers ((← getJ? j "mappings").getD (.obj []))
  let conds ← objMembers ((← getJ? j "conds").getD (.obj []))
  let cs := conds.filterMap fun (k, v) => match v with | .bool b => some (k, b) | _ => none
  pure ⟨params, mappings, cs⟩

def declOf (j : Json) : Except String Template.ParamDecl := do
  let t ← getStr j "type"
  let d ← getJ j "default"
  let n ← getBool j "noecho"
  pure ⟨t, d, n⟩

def declsOf (j : Json) : Except String (List (String × Template.ParamDecl)) := do
  match j.getObjVal? "decls" with
  | .ok (.arr ds) =>
    ds.toList.mapM fun d =>
      match d with
      | .arr #[.str k, v] => do pure (k, ← declOf v)
      | _ => .error "bad decl"
  | _ => .error "decls missing"

partial def cvOf (j : Json) : Except String IamCond.V := do
  match j with
  | .null => pure .none
  | .obj _ =>
    match j.getObjVal? "s" with
    | .ok (.arr #[.str a, .str b]) => pure (.str a b)
    | _ =>
    match j.getObjVal? "i" with
    | .ok (.num n) => pure (.int n.mantissa)
    | _ =>
    match j.getObjVal? "b" with
    | .ok (.bool b) => pure (.bool b)
    | _ =>
    match j.getObjVal? "dt" with
    | .ok (.arr #[.num m, .bool a]) => pure (.dt m.mantissa a)
    | _ =>
    match j.getObjVal? "net" with
    | .ok (.arr #[.bool v6, .str addr, .num l]) => pure (.net v6 addr.toNat! l.mantissa.toNat)
    | _ =>
    match j.getObjVal? "bytes" with
    | .ok (.str b) => pure (.bytes b)
    | _ =>
    match j.getObjVal? "list" with
    | .ok (.arr xs) => do pure (.list (← xs.toList.mapM cvOf))
    | _ =>
    match j.getObjVal? "fn" with
    | .ok _ => pure .fn
    | _ =>
    match j.getObjVal? "other" with
    | .ok (.str t) => pure (.other t)
    | _ => .error s!"bad condition value {j.compress}"
  | _ => .error s!"bad condition value {j.compress}"

def kvsOf (j : Json) : Except String (List (String × IamCond.V)) := do
  match j with
  | .arr xs => xs.toList.mapM fun e => match e with
    | .arr #[.str k, v] => do pure (k, ← cvOf v)
    | _ => .error "bad key/value"
  | _ => .error "array expected"

partial def tvOf (j : Json) : Except String Discover.TV := do
  match j with
  | .str "other" => pure .other
  | .obj _ =>
    match j.getObjVal? "doc" with
    | .ok (.num n) => pure (.doc n.mantissa.toNat)
    | _ =>
    match j.getObjVal? "policy" with
    | .ok (.arr #[.str name, .num n]) => pure (.policy name n.mantissa.toNat)
    | _ =>
    match j.getObjVal? "named" with
    | .ok (.arr #[.str name, .num n]) => pure (.named (some name) n.mantissa.toNat)
    | .ok (.arr #[.null, .num n]) => pure (.named none n.mantissa.toNat)
    | _ =>
    match j.getObjVal? "list" with
    | .ok (.arr xs) => do pure (.list (← xs.toList.mapM tvOf))
    | _ =>
    match j.getObjVal? "generic" with
    | .ok (.arr fs) => do
      let fields ← fs.toList.mapM fun f => match f with
        | .arr #[.str k, v] => do pure (k, ← tvOf v)
        | _ => .error "bad field"
      pure (.generic fields)
    | _ => .error s!"bad typed value {j.compress}"
  | _ => .error s!"bad typed value {j.compress}"

structure EngineRow where
  json : Option J := none
  bool : Option Bool := none
  int : Option Int := none
  date : Option String := none
  datetime : Option String := none
  ip4 : Option String := none
  ip6 : Option String := none
  list : Option (List J) := none

def optStr (j : Json) (k : String) : Option String :=
  match j.getObjVal? k with | .ok (.str s) => some s | _ => none

def engineOf (j : Json) : Except String Cast.Engine := do
  let rows ← match j.getObjVal? "strings" with
    | .ok (.arr rs) => rs.toList.mapM fun r => match r with
      | .arr #[.str s, row] => do
        let js ← match row.getObjVal? "json" with | .ok v => some <$> toJ v | _ => pure none
        let li ← match row.getObjVal? "list" with
          | .ok (.arr xs) => some <$> xs.toList.mapM toJ
          | _ => pure none
        pure (s, ({ json := js,
                    bool := (match row.getObjVal? "bool" with | .ok (.bool b) => some b | _ => none),
                    int := (match row.getObjVal? "int" with | .ok (.str t) => t.toInt? | _ => none),
                    date := optStr row "date", datetime := optStr row "datetime",
                    ip4 := optStr row "ip4", ip6 := optStr row "ip6", list := li } : EngineRow))
      | _ => .error "bad engine row"
    | _ => .error "engine.strings missing"
  let floats ← match j.getObjVal? "floats" with
    | .ok (.arr fs) => pure (fs.toList.filterMap fun f => match f with
        | .arr #[.str r, .str i] => i.toInt?.map fun n => (r, n)
        | _ => none)
    | _ => pure []
  let objects ← match j.getObjVal? "objects" with
    | .ok (.arr os) => os.toList.mapM fun o => match o with
        | .arr #[v, .str cls] => do pure (← toJ v, cls)
        | _ => .error "bad engine object"
    | _ => pure []
  let row (s : String) : EngineRow := (J.lookup s rows).getD {}
  pure { jsonLoads := fun s => (row s).json, boolOf := fun s => (row s).bool, intOf := fun s => (row s).int,
         dateOf := fun s => (row s).date, datetimeOf := fun s => (row s).datetime,
         ip4Of := fun s => (row s).ip4, ip6Of := fun s => (row s).ip6,
         floatInt := fun r => J.lookup r floats,
         propertyModel := fun v => (objects.find? fun o => o.1 == v).map (·.2),
         listUnion := fun s => (row s).list }

partial def cvJson : Cast.CV → Json
  | .null => .null
  | .bool b => .bool b
  | .int i => .num ⟨i, 0⟩
  | .num r => Json.mkObj [("f", .str r)]
  | .str s => .str s
  | .typed k p => Json.mkObj [("l", .arr #[.str k, .str p])]
  | .list xs => .arr (xs.map cvJson).toArray
  | .generic fs => Json.mkObj [("o", .arr (fs.map fun (k, v) => .arr #[.str k, cvJson v]).toArray)]
  | .model cls _ => Json.mkObj [("model", .str cls)]
  | .fn _ => Json.mkObj [("fn", .bool true)]

def outside : Json := Json.mkObj [("outside_domain", .bool true)]

def runOp (j : Json) : Except String Json := do
  let op ← getStr j "op"
  match op with
  | "ping" => pure (Json.mkObj [("pong", .bool true)])
  | "glob" =>
    let p ← getStr j "p"
    let s ← getStr j "s"
    let ci ← getBool j "ci"
    let r := if ci then Glob.gmatchCI p.toList s.toList else Glob.gmatchCS p.toList s.toList
    pure (Json.mkObj [("match", .bool r)])
  | "resolve" =>
    let env ← envOf j
    let e ← getJ j "expr"
    match Resolver.Spec.resolve env e with
    | some v => pure (Json.mkObj [("value", ofJ v)])
    | none => pure (Json.mkObj [("outside_domain", .bool true)])
  | "param" =>
    let d ← declOf j
    let p ← getJ j "provided"
    match Template.refValue d p with
    | none => pure outside
    | some none => pure (Json.mkObj [("ref", .null), ("is_none", .bool true)])
    | some (some v) => pure (Json.mkObj [("ref", ofJ v)])
  | "tresolve" =>
    let pseudo ← objMembers (← getJ j "pseudo")
    let decls ← declsOf j
    let mappings ← objMembers (← getJ j "mappings")
    let conditions ← objMembers (← getJ j "conditions")
    let resources ← objMembers (← getJ j "resources")
    let extra ← objMembers (← getJ j "extra")
    match Template.resolveT pseudo ⟨decls, mappings, conditions, resources⟩ extra with
    | none => pure outside
    | some r =>
      pure (Json.mkObj [
        ("params", ofJ (.obj r.params)),
        ("conditions", ofJ (.obj (r.conditions.map fun (k, b) => (k, .bool b)))),
        ("resources", ofJ (.obj r.resources))])
  | "creds" =>
    let md ← getJ j "metadata"
    let r := match ← getJ? j "login_profile" with
      | some lp => Template.hardcodedUser lp md
      | none => Template.hardcodedMeta md
    match r with
    | some b => pure (Json.mkObj [("hardcoded", .bool b)])
    | none => pure outside
  | "cond" =>
    let blk ← match j.getObjVal? "block" with
      | .ok (.arr ops) => ops.toList.mapM fun o => match o with
        | .arr #[.str n, ks] => do pure (n, ← kvsOf ks)
        | _ => .error "bad operator"
      | _ => .error "block missing"
    let ctx ← kvsOf (← (j.getObjVal? "ctx"))
    match IamCond.normalise blk with
    | none => pure outside
    | some nb =>
      pure (Json.mkObj [("result", match IamCond.call nb ctx with
        | some b => .bool b
        | none => .null)])
  | "cidr" =>
    let t ← getStr j "text"
    let v6 ← getBool j "v6"
    match (if v6 then Net.parse6 t.toList else Net.parse4 t.toList) with
    | none => pure (Json.mkObj [("invalid", .bool true)])
    | some (a, l) =>
      pure (Json.mkObj [("net", .arr #[.str (toString a), .num ⟨l, 0⟩]),
        ("slash_zero", .bool (Net.slashZero (some (a, l)))),
        ("is_public", if v6 then .null else .bool (Net.isPublic Generated.privateTable4 Generated.sharedRange4 (some (a, l)) false))])
  | "rds_absent" =>
    let g ← getBool j "group"
    pure (Json.mkObj [("is_public", .bool (Net.isPublic Generated.privateTable4 Generated.sharedRange4 none g)),
      ("slash_zero", .bool (Net.slashZero none))])
  | "effect" =>
    let e ← getStr j "effect"
    pure (Json.mkObj [("normalised", match Policy.normEffect e with | some n => .str n | none => .null)])
  | "policy" =>
    let wl ← match j.getObjVal? "whitelist" with
      | .ok (.arr xs) => pure (xs.toList.filterMap fun x => match x with | .str s => some s | _ => none)
      | _ => .error "whitelist missing"
    let stmts ← match j.getObjVal? "stmts" with
      | .ok (.arr ss) => ss.toList.mapM fun st => do
          let e ← getStr st "effect"
          let p ← getJ st "principal"
          let np ← getJ st "notprincipal"
          pure (⟨e, p, np⟩ : Policy.Stmt)
      | _ => .error "stmts missing"
    let fields := Generated.principalFields
    let sortedSet (xs : List String) : Json :=
      strList ((Text.sortDedup (xs.map String.toList)).map String.ofList)
    pure (Json.mkObj [
      ("principals", .arr (stmts.map fun s => strList (Policy.principalList fields s.principal s.notPrincipal)).toArray),
      ("nonwl", .arr (stmts.map fun s => strList (Policy.nonWhitelisted wl (Policy.principalList fields s.principal s.notPrincipal))).toArray),
      ("allowed", sortedSet (Policy.allowedPrincipals fields stmts)),
      ("nonwl_allowed", sortedSet (Policy.nonWhitelistedAllowed fields wl stmts))])
  | "discover" =>
    match ← tvOf (← (j.getObjVal? "fields")) with
    | .generic fields =>
      let found := Discover.policyDocuments fields
      pure (Json.mkObj [("found", .arr (found.map fun f =>
        Json.arr #[match f.name with | some n => .str n | none => .null, .num ⟨f.id, 0⟩]).toArray)])
    | _ => .error "fields must be a generic node"
  | "cast" =>
    let e ← engineOf (← (j.getObjVal? "engine"))
    let v ← getJ j "value"
    let fuel := match j.getObjVal? "fuel" with | .ok (.num n) => n.mantissa.toNat | _ => 8
    -- every string of the engine table whose chosen conversion is not faithful
    let names ← match (← (j.getObjVal? "engine")).getObjVal? "strings" with
      | .ok (.arr rs) => pure (rs.toList.filterMap fun r => match r with | .arr #[.str s, _] => some s | _ => none)
      | _ => pure []
    let unsound := names.filterMap fun s =>
      let c := Cast.scalarUnion e s
      if Cast.leafSound s c then none else some (Json.arr #[.str s, cvJson c])
    let badLists := names.filterMap fun s =>
      match e.jsonLoads s, e.listUnion s with
      | some (.arr xs), some ys => if Cast.elemsSound e xs ys then none else some (Json.str s)
      | _, _ => none
    pure (Json.mkObj [("cv", cvJson (Cast.cast e fuel v)), ("unsound", .arr unsound.toArray), ("unsound_lists", .arr badLists.toArray)])
  | "roundtrip" =>
    -- C15: cast, dump, cast again; and the hypotheses of C15_cast_roundtrip evaluated on this engine table
    let e ← engineOf (← (j.getObjVal? "engine"))
    let v ← getJ j "value"
    let fuel := match j.getObjVal? "fuel" with | .ok (.num n) => n.mantissa.toNat | _ => 8
    let names ← match (← (j.getObjVal? "engine")).getObjVal? "strings" with
      | .ok (.arr rs) => pure (rs.toList.filterMap fun r => match r with | .arr #[.str s, _] => some s | _ => none)
      | _ => pure []
    let c1 := Cast.cast e fuel v
    let c2 := Cast.cast e fuel (Cast.dump c1)
    let fuelShort := names.filter fun s => (cvJson (Cast.strCast e (fuel + 1) s)).compress != (cvJson (Cast.strCast e fuel s)).compress
    pure (Json.mkObj [("first", cvJson c1), ("second", cvJson c2),
      ("equal", .bool ((cvJson c1).compress == (cvJson c2).compress)),
      ("dump", ofJ (Cast.dump c1)),
      ("law_empty", .bool (e.propertyModel (.obj [])).isNone),
      ("fuel_short", .arr (fuelShort.map Json.str).toArray)])
  | "b64" =>
    let s ← getStr j "text"
    match Cast.b64decodeSimple s.toList with
    | some bs => pure (Json.mkObj [("bytes", .arr (bs.map fun (b : Nat) => Json.num ⟨Int.ofNat b, 0⟩).toArray)])
    | none => pure (Json.mkObj [("error", .bool true)])
  | "leaves15" =>
    let v ← getJ j "value"
    let name ← getStr j "name"
    pure (Json.mkObj [
      ("semi_bool", match Cast.semiBool v with | some b => .bool b | none => .null),
      ("no_colon", .str (String.ofList (Cast.removeColon name.toList)))])
  | "validators" =>
    let v ← getJ j "value"
    let modelled ← match j.getObjVal? "modelled" with
      | .ok (.arr xs) => pure (xs.toList.filterMap fun x => match x with | .str s => some s | _ => none)
      | _ => pure []
    let strict := (getBool j "strict").toOption.getD true
    let showO (o : Validators.Outcome) : Json := .str (match o with
      | .ok => "ok" | .valueError => "ValueError" | .typeError => "TypeError" | .attributeError => "AttributeError")
    pure (Json.mkObj [
      ("check_type", showO (Validators.checkType modelled strict v)),
      ("validate_binary", showO (Validators.validateBinary v)),
      ("check_function", showO (Validators.checkFunction v)),
      ("generic_casting", showO (Validators.genericCasting v)),
      ("remove_colon", showO (Validators.removeColon v)),
      ("semi_strict_bool", showO (Validators.semiStrictBool v)),
      ("loose_network", showO (Validators.looseNetwork v))])
  | "dispatch" =>
    let res ← objMembers (← getJ j "resource")
    let strict ← getBool j "strict"
    let d ← getBool j "dedicated_ok"
    let g ← getBool j "generic_ok"
    let out := Dispatch.dispatch Generated.resourceClasses strict ⟨d, g⟩ res
    let shallow := match (Dispatch.typeOf res).bind (Dispatch.classFor Generated.resourceClasses) with
      | some row => Json.bool (Dispatch.shallowOK row res)
      | none => Json.null
    pure (Json.mkObj [("outcome", .str (match out with
      | .dedicated c => c | .generic => "GenericResource" | .rejected => "rejected")), ("shallow_ok", shallow)])
  | "filter" =>
    let cs ← match j.getObjVal? "classes" with | .ok (.arr xs) => pure (xs.toList.filterMap fun x => match x with | .str s => some s | _ => none) | _ => pure []
    let ts ← match j.getObjVal? "types" with | .ok (.arr xs) => pure (xs.toList.filterMap fun x => match x with | .str s => some s | _ => none) | _ => pure []
    let rs ← match j.getObjVal? "resources" with
      | .ok (.arr xs) => xs.toList.mapM fun r => do
          let n ← getStr r "name"
          let cl ← match r.getObjVal? "classes" with | .ok (.arr ys) => pure (ys.toList.filterMap fun y => match y with | .str s => some s | _ => none) | _ => pure []
          let t := match r.getObjVal? "type" with | .ok (.str s) => some s | _ => none
          pure (⟨n, cl, t⟩ : Dispatch.Parsed)
      | _ => .error "resources missing"
    pure (Json.mkObj [("names", strList (Dispatch.filterByType cs ts rs))])
  | "tokens" =>
    let t ← getStr j "text"
    let toks := Resolver.tokens t.toList
    pure (Json.mkObj [("tokens", .arr (toks.map fun t => match t with
      | .lit c => Json.str (String.ofList [c])
      | .var n => Json.mkObj [("var", .str (String.ofList n))]
      | .esc b => Json.mkObj [("esc", .str (String.ofList b))]).toArray)])
  | "expand" => runExpand j
  | "xexpand" =>
    let t ← getJ j "tree"
    pure (Json.mkObj [("tree", ofJ (Expand.walk cat t))])
  | "catalogue" =>
    pure (listResult ((getBool j "full").toOption.getD false) cat)
  | _ => .error s!"unknown op {op}"

partial def loop (hin : IO.FS.Stream) (hout : IO.FS.Stream) : IO Unit := do
  let line ← hin.getLine
  if line.isEmpty then return ()
  let out :=
    match Json.parse line with
    | .error e => Json.mkObj [("driver_error", .str s!"parse: {e}")]
    | .ok j =>
      match runOp j with
      | .ok r => r
      | .error e => Json.mkObj [("driver_error", .str e)]
  hout.putStrLn out.compress
  loop hin hout

def main : IO Unit := do
  let hin ← IO.getStdin
  let hout ← IO.getStdout
  loop hin hout
  hout.flush
